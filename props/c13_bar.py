"""C13 - Bar time accounting against an exact-rational model (mingus/containers/bar.py)."""
import itertools
from fractions import Fraction as Fr

from hypothesis import strategies as st

from mingus.containers import Bar, NoteContainer

from vlib import mg
from vlib.core import Sub, failed
from vlib.ref import rvalues as RV
from vlib.ref import theory as T
from vlib.ref.barmodel import BarModel, content_model

PROPERTY_ID = "C13"
RULE = ("histories over {place(content form, value), rest(value), bar + content, remove-last, bar[i] = content, "
        "place_notes_at(sounding entry), place-exact-remainder} with values from the 80-value vocabulary (10 bases x dots 0-4, "
        "triplet/quintuplet/septuplet) in meters n/d (n 1..12, d in 1,2,4,8,16,32) and (0,0): (a) every sequence up to a depth "
        "bound over a 10-value sub-vocabulary, (b) every fill-to-capacity with one repeated value, (c) seeded Hypothesis "
        "histories of up to 60 steps, (d) meter acceptance over beat units/counts. The bar is compared with an exact Fraction "
        "model after every step. Non-trivial: a history that reaches exact capacity, contains a refusal, or places after a "
        "remove-last; a fill with > 1 part; a meter with a non-integer or non-power-of-two unit."
        " Also: constructed overflows by 1-5 vocabulary quanta; 'beat closer' histories (tuplet-heavy prefix, values placed until exactly one or two beats are left, then '+'); 'churn' histories (place-and-remove cycles on tuplet beats, then an exact refill); emptying the same Bar and giving it a new meter; place_notes_at with the beat written as an int, including whole-number beats where no entry starts; every ordered pair of meters applied one after the other to one Bar object (fresh, or used and emptied) followed by '+' and an exact close; empty lists and empty containers as content; bars filled to within 1/1344 of their length (full by the stated tolerance), then remove-last and exact refills. The identity current beat + space left = length is asserted in every meter, the unbounded one (length 0) included. Meters with beat units 256..4096 filled beat by beat with + and place_notes to exact capacity; fresh and emptied bars of every accepted meter are not full.")
ASSUMPTIONS = ["note values handed to mingus are ints when integral, else the correctly rounded float of the vocabulary rational",
               "a refused meter is any raised exception with the bar unchanged (statement does not name the error)",
               "float clauses compared with |.| <= 1e-9; vocabulary quantum is 1/215040 ~ 4.7e-6"]

TOL = 1e-9
METERS = [[n, d] for n in range(1, 13) for d in (1, 2, 4, 8, 16, 32)] + [[0, 0]]
SUBV = [[1, 0, 1, 1], [2, 0, 1, 1], [4, 0, 1, 1], [8, 0, 1, 1], [2, 1, 1, 1], [4, 1, 1, 1], [4, 2, 1, 1],
        [4, 0, 3, 2], [4, 0, 5, 4], [8, 0, 7, 4]]
POOL = [["C", 4], ["E", 4], ["G", 4], ["Bb", 3], ["F#", 5], ["D", 5], ["A", 2], ["Cb", 4], ["B#", 3], ["Eb", 6]]


def _snap_ok(ctx, bar, model, where):
    snap = mg.bar_snapshot(bar)
    if not ctx.check(len(snap) == len(model.entries), "entries/count",
                     lambda: "%s: %d entries, model %d" % (where, len(snap), len(model.entries))):
        return
    for i, (g, e) in enumerate(zip(snap, model.entries)):
        ctx.check(abs(g[0] - float(e[0])) <= TOL, "entries/start-beat",
                  lambda: "%s: entry %d starts at %r, exact %s" % (where, i, g[0], e[0]))
        ctx.check(g[1] == e[1], "entries/value", lambda: "%s: entry %d value %r, placed %r" % (where, i, g[1], e[1]))
        ctx.check(g[2] == e[2], "entries/content", lambda: "%s: entry %d content %r, model %r" % (where, i, g[2], e[2]))
        c = bar.bar[i][2]
        ctx.check(c is None or isinstance(c, NoteContainer), "entries/content-type", lambda: "%s: %r" % (where, type(c)))
    ctx.check(abs(bar.current_beat - float(model.total)) <= TOL, "current-beat",
              lambda: "%s: current_beat %r, exact %s" % (where, bar.current_beat, model.total))
    sl = ctx.ok("space_left", bar.space_left)
    if not failed(sl):
        # the unbounded (0,0) meter has length 0 (count/unit is not defined; Bar documents and reports 0.0), so the
        # identity reads current beat + space left = 0 there
        L = model.L if model.L is not None else 0
        ctx.check(abs(bar.current_beat + sl - float(L)) <= TOL, "space-left",
                  lambda: "%s: %r + %r != %s" % (where, bar.current_beat, sl, L))
    f = ctx.ok("is_full", bar.is_full)
    if not failed(f):
        ctx.check(bool(f) == model.is_full(), "is-full",
                  lambda: "%s: is_full %r with total %s of %s" % (where, f, model.total, model.L))
    ln = ctx.ok("len", len, bar)
    ctx.check(ln == len(model.entries), "len", lambda: "%s: len %r" % (where, ln))


def run_history(ctx, case, sparse=False):
    """case = {"meter": [n, d], "ops": [...]}; returns flags for the non-triviality rule.
    sparse: compare the whole bar with the model only every 64th step and during the last 6 steps (long single-value
    fills would otherwise cost O(k^2)); acceptance, refusal and the current beat are still checked at every step"""
    meter = case["meter"]
    bar = ctx.ok("constructor", Bar, "C", (meter[0], meter[1]))
    if failed(bar):
        return None
    model = BarModel(meter)
    ctx.check(abs(bar.length - (float(model.L) if model.L is not None else 0.0)) <= 1e-12, "length",
              lambda: "meter %r length %r" % (meter, bar.length))
    flags = {"capacity": False, "refusal": False, "rm_then_place": False, "plus_closes_bar": False, "at_int": False, "steps": 0}
    last_rm = False
    for k, op in enumerate(case["ops"]):
        kind = op[0]
        where = "step %d %r" % (k, op)
        if kind in ("place", "rest", "plus", "fill"):
            if kind == "rest":
                v, form, notes = op[1], None, None
            elif kind == "place":
                form, notes, v = op[1], op[2], op[3]
            elif kind == "plus":
                form, notes = op[1], op[2]
                v = [meter[1] if meter[1] != 0 else 4, 0, 1, 1]
            else:  # fill: place the exact remainder when it is a vocabulary value
                form, notes = op[1], op[2]
                v = model.remainder_value()
                if v is None:
                    continue
                if len(op) > 3 and op[3] and RV.vlen(v) == Fr(1, meter[1] if meter[1] != 0 else 4):
                    kind = "plus"  # exactly one beat is left: close the bar with '+'
                    flags["plus_closes_bar"] = True
            number, length = RV.number(v), RV.vlen(v)
            content = None if kind == "rest" else content_model(mg.form_notes(form, notes))
            arg = None if kind == "rest" else mg.build_content(form, notes)
            before = mg.bar_snapshot(bar)
            cb = bar.current_beat
            expect = model.fits(length)
            if kind == "rest":
                r = ctx.ok("place_rest", bar.place_rest, number)
            elif kind == "plus":
                r = ctx.ok("plus", bar.__add__, arg)
            else:
                r = ctx.ok("place_notes", bar.place_notes, arg, number)
            if failed(r):
                return flags
            if expect:
                if not ctx.check(r is True, "accept/refused-fitting",
                                 lambda: "%s: refused although %s + %s <= %s" % (where, model.total, length, model.L)):
                    return flags
                model.place(number, length, content)
                if last_rm:
                    flags["rm_then_place"] = True
                if model.L is not None and model.total == model.L:
                    flags["capacity"] = True
            else:
                flags["refusal"] = True
                if not ctx.check(r is False, "accept/accepted-overflow",
                                 lambda: "%s: accepted although %s + %s > %s" % (where, model.total, length, model.L)):
                    return flags
                ctx.check(mg.bar_snapshot(bar) == before and bar.current_beat == cb, "refused-changed-bar", where)
            last_rm = False
        elif kind == "approach":  # greedily place values until exactly op[1] beats are left (then '+' must still fit)
            if model.L is None:
                continue
            target = model.L - Fr(op[1], meter[1])
            for _ in range(6):
                gap = target - model.total
                if gap <= 0:
                    break
                cands = [v for v in RV.VOCAB if RV.vlen(v) <= gap]
                if not cands:
                    break
                v = max(cands, key=RV.vlen)
                r = ctx.ok("place_notes", bar.place_notes, "C-4", RV.number(v))
                if failed(r) or not ctx.check(r is True, "accept/refused-fitting", lambda: "%s: refused %r although it fits" % (where, v)):
                    return flags
                model.place(RV.number(v), RV.vlen(v), [["C", 4]])
            if model.total == target:
                flags["plus_closes_bar"] = True
        elif kind == "empty":  # the same Bar object is emptied and used again
            ctx.ok("empty", bar.empty)
            model.entries, model.total = [], Fr(0)
            last_rm = False
        elif kind == "meter":  # a new meter for an empty bar
            if model.entries:
                continue
            r = ctx.ok("set_meter", bar.set_meter, (op[1][0], op[1][1]))
            if failed(r):
                return flags
            model = BarModel(op[1])
            meter = op[1]
            ctx.check(abs(bar.length - (float(model.L) if model.L is not None else 0.0)) <= 1e-12, "length", lambda: "%s: length %r" % (where, bar.length))
        elif kind == "rm":
            if not model.entries:
                continue
            ctx.ok("remove_last_entry", bar.remove_last_entry)
            model.remove_last()
            last_rm = True
        elif kind == "set":
            if not model.entries:
                continue
            i = op[1] % len(model.entries)
            form, notes = op[2], op[3]
            ctx.ok("setitem", bar.__setitem__, i, mg.build_content(form, notes))
            model.entries[i][2] = content_model(mg.form_notes(form, notes))
        elif kind == "at":
            snd = [i for i, e in enumerate(model.entries) if e[2] is not None]
            if not snd:
                continue
            i = snd[op[1] % len(snd)]
            notes = op[2]
            mode = op[3] if len(op) > 3 else 0
            nc = NoteContainer(["%s-%d" % (n, o) for (n, o) in notes])
            if mode == 2:  # a whole-number beat: either no entry starts there (nothing may change) or it names that entry
                beat = op[1] % 6
                hit = [j for j, e in enumerate(model.entries) if e[0] == beat]
                if hit and model.entries[hit[0]][2] is None:
                    continue
                ctx.ok("place_notes_at", bar.place_notes_at, nc, beat)
                if hit:
                    model.entries[hit[0]][2] = content_model(model.entries[hit[0]][2] + notes)
                flags["at_int"] = True
            else:
                start = model.entries[i][0]
                if mode == 1 and start.denominator == 1:  # the same beat written as an int
                    at = int(start)
                    flags["at_int"] = True
                else:
                    at = bar.bar[i][0]
                ctx.ok("place_notes_at", bar.place_notes_at, nc, at)
                model.entries[i][2] = content_model(model.entries[i][2] + notes)
        flags["steps"] += 1
        if not sparse or k % 64 == 0 or k >= len(case["ops"]) - 6:
            _snap_ok(ctx, bar, model, where)
        else:
            ctx.check(abs(bar.current_beat - float(model.total)) <= TOL and len(bar.bar) == len(model.entries), "current-beat",
                      lambda: "%s: current_beat %r, exact %s" % (where, bar.current_beat, model.total))
    return flags


def check_history(ctx, case):
    flags = run_history(ctx, case)
    if flags is None:
        return ctx.note_case(False, ["history:constructor-failed"])
    labs = ["history:" + k for k in ("capacity", "refusal", "rm_then_place", "plus_closes_bar", "at_int") if flags[k]]
    if case["meter"] == [0, 0]:
        labs.append("history:unbounded-meter")
    ctx.note_case(bool(labs) and flags["steps"] >= 2, labs or ["history:plain"])


def check_fill(ctx, case):
    """k copies of value v fill the meter exactly: all accepted, the next refused, bar full"""
    meter, v, k = case["meter"], case["v"], case["k"]
    ops = [["place", "str", [["C", 4]], v]] * k
    probe = case.get("probe", v)
    flags = run_history(ctx, {"meter": meter, "ops": ops + [["place", "note", [["D", 4]], probe], ["rest", probe]]}, sparse=k > 64)
    if flags is not None:
        ctx.check(flags["capacity"] or flags["steps"] < k, "fill/never-reached-capacity", repr(case))
    ctx.note_case(k > 1, ["fill:k>100" if k > 100 else "fill:k<=100"])


def check_meter(ctx, case):
    """set_meter / constructor acceptance: exactly power-of-two units (or (0,0)), length = count/unit"""
    n, d = case["count"], case["unit"]
    if isinstance(d, str):
        d = float(d)
    good = (n == 0 and d == 0) or _pow2(d)
    bar = Bar("C", (4, 4))
    bar.place_notes("C-4", 4)
    before = (bar.meter, bar.length, mg.bar_snapshot(bar), bar.current_beat)
    if good:
        r = ctx.ok("set_meter", bar.set_meter, (n, d))
        if not failed(r):
            exp = 0.0 if d == 0 else float(Fr(n) / Fr(d))
            ctx.check(tuple(bar.meter) == (n, d) and abs(bar.length - exp) <= 1e-12 * max(1.0, abs(exp)), "set_meter/length",
                      lambda: "meter %r -> %r length %r" % ((n, d), bar.meter, bar.length))
        b2 = ctx.ok("constructor", Bar, "C", (n, d))
        if not failed(b2):
            ctx.check(tuple(b2.meter) == (n, d), "constructor/meter", repr(b2.meter))
            # a bar in which nothing was placed, however short it is: no entries, beat 0, not full ("full exactly when it is
            # non-empty and ...")
            f0 = ctx.ok("is_full", b2.is_full)
            ctx.check(failed(f0) or (not f0 and len(b2) == 0 and b2.current_beat == 0), "fresh-bar/full-or-not-empty",
                      lambda: "fresh bar in %r: is_full %r, %d entries, current beat %r" % ((n, d), f0, len(b2), b2.current_beat))
            emptied = Bar("C", (4, 4))
            emptied.place_notes("C-4", 4)
            emptied.remove_last_entry()
            if not failed(ctx.ok("set_meter", emptied.set_meter, (n, d))):
                f1 = ctx.ok("is_full", emptied.is_full)
                ctx.check(failed(f1) or not f1, "fresh-bar/full-or-not-empty", lambda: "emptied bar given meter %r: is_full %r" % ((n, d), f1))
    else:
        try:
            bar.set_meter((n, d))
            ctx.fail("set_meter/accepted-bad-unit", "meter %r accepted: %r" % ((n, d), bar.meter))
        except Exception:  # noqa - any error class (statement names none)
            pass
        ctx.check((bar.meter, bar.length, mg.bar_snapshot(bar), bar.current_beat) == before, "set_meter/refused-changed-bar",
                  repr((n, d)))
        try:
            Bar("C", (n, d))
            ctx.fail("constructor/accepted-bad-unit", "meter %r accepted" % ((n, d),))
        except Exception:  # noqa
            pass
    ctx.note_case(not (isinstance(d, int) and good), ["meter:good" if good else "meter:bad"])


def check_nontuple(ctx, case):
    bar = Bar("C", (3, 4))
    before = (bar.meter, bar.length)
    arg = {"int": 4, "str": "4/4", "none": None, "one": (4,), "empty": (), "list-bad": [4, 3], "float": 4.0}[case]
    try:
        bar.set_meter(arg)
        ctx.fail("set_meter/accepted-non-meter", "set_meter(%r) accepted: %r" % (arg, bar.meter))
    except Exception:  # noqa
        pass
    ctx.check((bar.meter, bar.length) == before, "set_meter/refused-changed-bar", repr(arg))
    ctx.note_case(True, ["meter:non-tuple"])


def _pow2(d):
    try:
        if d != d or d in (float("inf"), float("-inf")) or d < 1:
            return False
        f = Fr(d)
    except (TypeError, ValueError, OverflowError):
        return False
    return f.denominator == 1 and (f.numerator & (f.numerator - 1)) == 0


CHECKS = {"history": check_history, "fill": check_fill, "meter": check_meter, "nontuple": check_nontuple}


# ---- generators ------------------------------------------------------------------------------------

def sub_exhaustive(ctx, shard, n):
    depth = 3 if ctx.quick else 4
    meters = [[4, 4], [3, 4], [6, 8], [5, 4], [2, 2], [0, 0]] if ctx.quick else \
        [[4, 4], [3, 4], [6, 8], [5, 4], [2, 2], [0, 0], [12, 8], [7, 8], [1, 1], [3, 16], [2, 4], [9, 8], [1, 4], [5, 16]]
    alphabet = [["place", "str", [["C", 4]], v] for v in SUBV] + [["rest", v] for v in SUBV] + \
               [["plus", "note", [["E", 4]]], ["rm"]]
    seqs = [list(s) for d in range(1, depth + 1) for s in itertools.product(alphabet, repeat=d)]
    deep_meters = [[4, 4], [3, 4]] if ctx.quick else [[4, 4], [6, 8]]
    deep = (list(s) for s in itertools.islice(itertools.product(alphabet, repeat=depth + 1), shard, None, n))
    if shard == 0:
        ctx.exhaustive("bar histories over {place v, rest v, +, remove-last}, 10-value sub-vocabulary",
                       "depth <= %d x %d meters" % (depth, len(meters)), len(seqs) * len(meters))
        ctx.exhaustive("bar histories, same alphabet", "depth == %d x meters %r" % (depth + 1, deep_meters),
                       len(alphabet) ** (depth + 1) * len(deep_meters))
    cases = ({"meter": m, "ops": s} for m in meters for s in seqs[shard::n])
    ctx.enumerate("history", check_history, cases, size_key=lambda c: len(c["ops"]))
    cases = ({"meter": m, "ops": s} for s in deep for m in deep_meters)
    ctx.enumerate("history", check_history, cases, size_key=lambda c: len(c["ops"]))


def sub_fills(ctx, shard, n):
    cases = []
    for m in METERS[:-1]:
        L = Fr(m[0], m[1])
        for v in RV.VOCAB:
            k = L / RV.vlen(v)
            if k.denominator == 1 and 1 <= k <= 2000:
                cases.append({"meter": m, "v": v, "k": int(k)})
    if ctx.quick:
        cases = [c for c in cases if c["k"] <= 400]
    if shard == 0:
        ctx.exhaustive("single-value fills to exact capacity", "all meters x all 80 values, k <= %d" % (400 if ctx.quick else 2000),
                       len(cases))
    ctx.enumerate("fill", check_fill, cases[shard::n], size_key=lambda c: c["k"])


def _notes_st():
    return st.lists(st.sampled_from(POOL), min_size=1, max_size=3, unique_by=lambda x: T.pitch(x[0], x[1]))


def _ops_st():
    v = st.sampled_from(RV.VOCAB)
    vsmall = st.sampled_from([x for x in RV.VOCAB if x[0] >= 4])
    form = st.sampled_from(mg.FORMS + ["bare", "emptylist", "emptync"])
    place = st.tuples(st.just("place"), form, _notes_st(), v | vsmall).map(list)
    rest = st.tuples(st.just("rest"), v | vsmall).map(list)
    plus = st.tuples(st.just("plus"), form, _notes_st()).map(list)
    fill = st.tuples(st.just("fill"), form, _notes_st(), st.booleans()).map(list)
    rm = st.just(["rm"])
    seti = st.tuples(st.just("set"), st.integers(0, 50), st.sampled_from([f for f in mg.FORMS if f != "listpair"]), _notes_st()).map(list)
    at = st.tuples(st.just("at"), st.integers(0, 50), _notes_st(), st.sampled_from([0, 1, 1, 2])).map(list)
    empty = st.just(["empty"])
    meter = st.tuples(st.just("meter"), st.sampled_from(METERS)).map(list)
    return st.one_of(place, place, place, rest, rest, plus, fill, fill, rm, seti, at, empty, st.tuples(empty, meter).map(lambda t: t[0]), meter)


def sub_random(ctx, shard, n):
    strat = st.fixed_dictionaries({"meter": st.sampled_from(METERS), "ops": st.lists(_ops_st(), min_size=1, max_size=60)})
    ctx.given("history", check_history, strat, (600 if ctx.quick else 3000))


def sub_mixed_fills(ctx, shard, n):
    """constructive exact fills: draw values while they fit, then close with the exact remainder"""
    strat = st.fixed_dictionaries({
        "meter": st.sampled_from(METERS[:-1]),
        "ops": st.lists(st.one_of(
            st.tuples(st.just("place"), st.just("str"), st.just([["C", 4]]), st.sampled_from(RV.VOCAB)).map(list),
            st.tuples(st.just("rest"), st.sampled_from(RV.VOCAB)).map(list),
            st.just(["fill", "nc", [["C", 4], ["G", 4]], True])), min_size=2, max_size=40).map(
            lambda ops: ops + [["fill", "note", [["E", 4]], True], ["place", "str", [["C", 4]], [128, 0, 1, 1]], ["rest", [4, 0, 1, 1]]]),
    })
    ctx.given("history", check_history, strat, (250 if ctx.quick else 2500))


def near_boundary_cases():
    """histories whose last placement would exceed the bar by 1..5 vocabulary quanta (1/215040 ~ 4.7e-6 whole notes):
    they separate the exact-rational acceptance rule from any float tolerance between 1e-9 and the quantum"""
    cases = []
    for meter in ([4, 4], [3, 4], [6, 8], [2, 2], [5, 4], [12, 8], [7, 16], [1, 4]):
        lq = int(Fr(meter[0], meter[1]) / RV.QUANTUM)
        for over in (1, 2, 3, 5):
            best = None
            for b in range(12):
                for c in range(12):
                    for d in range(12):
                        if (1120 * b + 1344 * c + 960 * d - over) % 105 == 0 and (best is None or b + c + d < sum(best)):
                            best = (b, c, d)
            b, c, d = best
            rest = lq + over - (1120 * b + 1344 * c + 960 * d)
            assert rest % 105 == 0 and rest > 0
            k = rest // 105  # in units of 1/2048 whole note
            t = (-k) % 16  # copies of the 4-dotted 128th (31/2048) fix the residue mod 16
            k -= 31 * t
            assert k >= 0 and k % 16 == 0
            vals = []
            for j in range(4, 14):  # 2^j/2048 is the plain base value 2048/2^j (128th ... longa)
                if k >> j & 1 and j < 13:
                    vals.append([2048 / 2 ** j if 2 ** j > 2048 else 2048 // 2 ** j, 0, 1, 1])
            vals += [[0.25, 0, 1, 1]] * (k >> 13)
            vals = [[128, 0, 3, 2]] * b + [[128, 0, 5, 4]] * c + [[128, 0, 7, 4]] * d + sorted(vals, key=RV.vlen, reverse=True) + \
                [[128, 4, 1, 1]] * t
            assert sum(RV.vlen(v) for v in vals) == Fr(meter[0], meter[1]) + over * RV.QUANTUM
            ops = [["place", "str", [["C", 4]], v] for v in vals]
            cases.append({"meter": meter, "ops": ops + [["rest", vals[-1]], ["fill", "note", [["E", 4]]]]})
    return cases


def nearly_full_cases():
    """bars that are 'full' only to within the stated thousandth (1/1344 of a whole note is still free: a triplet 128th's room
    taken by a septuplet 128th), then remove-last and exact refills: the time accounting stays exact through that state"""
    c4 = [["C", 4]]
    t192, t224, t160 = [128, 0, 3, 2], [128, 0, 7, 4], [128, 0, 5, 4]
    cases = []
    for meter in ([4, 4], [3, 4], [2, 4], [6, 8], [5, 4], [2, 2], [7, 8], [12, 8]):
        x = Fr(meter[0], meter[1]) - Fr(1, 64)  # two triplet 128ths + x + one more triplet 128th = the whole bar
        vals, j = [], 1
        while x > 0 and j <= 64:
            if Fr(1, j) <= x:
                vals.append([j, 0, 1, 1])
                x -= Fr(1, j)
            else:
                j *= 2
        assert x == 0
        pre = [["place", "str", c4, t192], ["place", "note", c4, t192]] + [["place", "str", c4, v] for v in vals]
        for tail in ([["place", "str", c4, t224], ["rm"], ["place", "str", c4, t192], ["rm"], ["place", "str", c4, t160], ["rest", t224], ["rm"], ["rest", t192]],
                     [["rest", t224], ["rm"], ["rm"], ["place", "str", c4, vals[-1]], ["place", "str", c4, t224], ["rm"], ["plus", "str", c4], ["fill", "str", c4, False]],
                     [["place", "str", c4, t224], ["place", "str", c4, [128, 0, 1, 1]], ["rm"], ["rm"], ["rest", t224], ["rm"], ["place", "note", c4, t192]]):
            cases.append({"meter": meter, "ops": pre + tail})
    return cases


def tiny_neighbour_cases():
    """runs of sounding entries shorter than a 128th (the tuplet 128ths 160, 192, 224 and many-dotted values next to each other),
    then notes added at the beat of one of them: only that entry changes"""
    c4, e4, g4 = [["C", 4]], [["E", 4]], [["G", 4]]
    cases = []
    tiny = [[128, 0, 5, 4], [128, 0, 3, 2], [128, 0, 7, 4], [128, 0, 1, 1], [128, 4, 1, 1], [64, 0, 7, 4]]
    for meter in ([4, 4], [6, 8], [0, 0], [3, 4]):
        for v in tiny:
            for w in tiny:
                pre = [["place", "str", c4, [4, 0, 1, 1]], ["place", "str", e4, [8, 0, 1, 1]]]
                run = [["place", "note", c4, v], ["place", "str", e4, w], ["place", "liststr", g4, v], ["place", "str", c4, w], ["place", "str", e4, [64, 0, 1, 1]]]
                for idx in (2, 3, 4, 5):
                    cases.append({"meter": meter, "ops": pre + run + [["at", idx, [["B", 5]], 0], ["at", idx + 1, [["A", 5]], 0]]})
    return cases


def sub_near_boundary(ctx, shard, n):
    tn = tiny_neighbour_cases()
    ctx.exhaustive("place_notes_at among neighbouring entries shorter than a 128th", "4 meters x 36 value pairs x 4 positions", len(tn))
    ctx.enumerate("history", check_history, tn, size_key=lambda c: len(c["ops"]))
    nf = nearly_full_cases()
    ctx.exhaustive("nearly full bars (1/1344 free), remove-last, exact refill", "8 meters x 3 continuations", len(nf))
    ctx.enumerate("history", check_history, nf, size_key=lambda c: len(c["ops"]))
    cases = near_boundary_cases()
    ctx.exhaustive("near-boundary overflows by 1,2,3,5 quanta", "8 meters x 4 overshoots", len(cases))
    ctx.enumerate("history", check_history, cases, size_key=lambda c: len(c["ops"]))


def sub_beat_closers(ctx, shard, n):
    """tuplet-heavy prefixes, then values are placed until exactly one or two beats are left, then '+' closes the bar"""
    tup = [v for v in RV.VOCAB if v[2] != 1 and v[0] <= 64] + [v for v in RV.VOCAB if v[1] >= 2 and v[0] <= 32]
    pre = st.lists(st.one_of(
        st.tuples(st.just("place"), st.just("str"), st.just([["C", 4]]), st.sampled_from(tup) | st.sampled_from(RV.VOCAB)).map(list),
        st.tuples(st.just("rest"), st.sampled_from(tup)).map(list), st.just(["rm"])), min_size=0, max_size=8)
    strat = st.fixed_dictionaries({
        "meter": st.sampled_from([[4, 4], [3, 4], [6, 8], [5, 4], [2, 2], [12, 8], [7, 8], [2, 4], [9, 8], [5, 8], [3, 8], [4, 2], [6, 4]]),
        "ops": st.tuples(pre, st.integers(1, 2)).map(lambda t: t[0] + [["approach", t[1]], ["plus", "note", [["E", 4]]], ["plus", "str", [["G", 4]]],
                                                                         ["plus", "note", [["A", 4]]]])})
    ctx.given("history", check_history, strat, 400 if ctx.quick else 3000)


def sub_churn(ctx, shard, n):
    """place-and-remove cycles on tuplet beats (any residue a removal leaves behind accumulates), then an exact refill"""
    tup = [v for v in RV.VOCAB if v[2] != 1 and v[0] <= 32] + [v for v in RV.VOCAB if v[1] >= 1 and v[0] <= 16]
    cycle = st.tuples(st.lists(st.sampled_from(tup), min_size=1, max_size=4), st.integers(1, 4)).map(
        lambda t: [["place", "str", [["C", 4]], v] for v in t[0]] + [["rm"]] * min(t[1], len(t[0])))
    strat = st.fixed_dictionaries({
        "meter": st.sampled_from([[4, 4], [3, 4], [6, 8], [5, 4], [2, 2], [12, 8], [7, 8], [9, 8]]),
        "ops": st.lists(cycle, min_size=2, max_size=8).map(lambda cs: [op for c in cs for op in c] + [
            ["approach", 0], ["fill", "note", [["E", 4]], False], ["rest", [128, 0, 1, 1]]])})
    ctx.given("history", check_history, strat, 300 if ctx.quick else 3000)


def sub_meters(ctx, shard, n):
    units = list(range(-8, 70)) + [2 ** k for k in range(7, 40)] + [2 ** k + 1 for k in range(2, 40)] + [96, 1000, 4096] + \
            [0.5, 0.25, 1.5, 2.5, 3.0, 4.0, 8.0, 6.0, 2.0 ** 60, 2.0 ** 1023, "inf", "nan", "-inf", -4.0, 1e-3, 4.000000001]
    cases = [{"count": c, "unit": u} for u in units for c in (0, 1, 3, 4, 12)]
    ctx.exhaustive("set_meter/constructor units x counts", "%d units x 5 counts" % len(units), len(cases))
    ctx.enumerate("meter", check_meter, cases)
    ctx.enumerate("nontuple", check_nontuple, ["int", "str", "none", "one", "empty", "list-bad", "float"])
    strat = st.fixed_dictionaries({"count": st.integers(0, 12),
                                   "unit": st.one_of(st.integers(-64, 4096), st.floats(allow_nan=False, allow_infinity=False, min_value=-10, max_value=5000),
                                                     st.integers(0, 60).map(lambda k: 2 ** k), st.integers(0, 60).map(lambda k: float(2 ** k)))})
    ctx.given("meter", check_meter, strat, 500 if ctx.quick else 20000)


def check_tiny_unit(ctx, case):
    """'+' places one beat of the bar's own meter: in a meter n/d with a very small beat (d = 256 .. 4096) the bar takes exactly n
    of them - also while less than a thousandth of a whole note is left - and refuses the next one"""
    n, d, form = case
    bar = ctx.ok("constructor", Bar, "C", (n, d))
    if failed(bar):
        return
    for k in range(n):
        r = ctx.ok("plus", bar.__add__, mg.build_content(form, [["C", 4]])) if k % 2 == 0 else ctx.ok("place_notes", bar.place_notes, "E-4", d)
        if failed(r):
            return
        if not ctx.check(r is True, "accept/refused-fitting", lambda: "meter %d/%d: beat %d of %d refused (%d/%d used)" % (n, d, k + 1, n, k, d)):
            return
        ctx.check(len(bar) == k + 1 and abs(bar.current_beat - (k + 1) / float(d)) <= 1e-12, "current-beat",
                  lambda: "meter %d/%d after %d beats: %d entries, current beat %r" % (n, d, k + 1, len(bar), bar.current_beat))
    r = ctx.ok("plus", bar.__add__, "G-4")
    ctx.check(failed(r) or r is False, "accept/accepted-overflow", lambda: "meter %d/%d: beat %d accepted" % (n, d, n + 1))
    ctx.check(len(bar) == n, "refused-changed-bar", lambda: "meter %d/%d: %d entries after the refused beat" % (n, d, len(bar)))
    ctx.note_case(d >= 1024 and n >= 2, ["tiny-unit:%d" % d])


CHECKS["tiny_unit"] = check_tiny_unit


def sub_tiny_units(ctx, shard, n):
    cases = [[k, d, form] for d in (256, 512, 1024, 2048, 4096) for k in (1, 2, 3, 5, 7) for form in ("str", "note")]
    ctx.enumerate("tiny_unit", check_tiny_unit, cases)


def sub_meter_changes(ctx, shard, n):
    """one Bar object given a second meter (before anything was placed, or after it was used and emptied): '+' and the
    accounting must follow the new meter alone"""
    c4 = [["C", 4]]
    cases = []
    for m1 in METERS:
        for m2 in METERS:
            if m1 == m2:
                continue
            tail = [["meter", m2], ["plus", "str", c4], ["plus", "note", c4], ["rest", [8, 0, 1, 1]], ["plus", "liststr", c4], ["fill", "str", c4, True]]
            cases.append({"meter": m1, "ops": tail})
            cases.append({"meter": m1, "ops": [["plus", "str", c4], ["rest", [16, 0, 1, 1]], ["empty"]] + tail})
    if shard == 0:
        ctx.exhaustive("a second meter on the same Bar object, then '+' / rest / '+' / exact close", "all ordered pairs of %d meters x {fresh, used and emptied}" % len(METERS), len(cases))
    ctx.enumerate("history", check_history, cases[shard::n], size_key=lambda c: len(c["ops"]))


SUBS = [
    Sub("exhaustive", sub_exhaustive, quick=16, thorough=16),
    Sub("fills", sub_fills, quick=4, thorough=16),
    Sub("random", sub_random, quick=4, thorough=16),
    Sub("mixed_fills", sub_mixed_fills, quick=2, thorough=8),
    Sub("near_boundary", sub_near_boundary),
    Sub("beat_closers", sub_beat_closers, quick=3, thorough=8),
    Sub("churn", sub_churn, quick=3, thorough=8),
    Sub("tiny_units", sub_tiny_units),
    Sub("meters", sub_meters),
    Sub("meter_changes", sub_meter_changes, quick=3, thorough=3),
]
