"""C04 - keys: signatures, key notes, relatives, Key objects, diatonic steps (mingus/core/keys.py, core/intervals.py)."""
from hypothesis import strategies as st

from mingus.core import intervals, keys
from mingus.core.mt_exceptions import NoteFormatError, RangeError

from vlib import fuzz
from vlib.core import FAILED, Sub, failed
from vlib.ref import theory as T

PROPERTY_ID = "C04"
RULE = ("all 30 keys (enumerated): signature number, signature accidentals, note list, get_key inverse, relatives, Key object; "
        "signature numbers -20..20 enumerated plus Hypothesis integers of any size; candidate key strings: a fixed near-miss "
        "list, one-character edits / case changes of the 30 valid keys and Hypothesis text (a string that happens to be a "
        "valid key is checked as a key); diatonic steps: 30 keys x 35 notes (letter x up to two sharps or flats) x steps "
        "1..6, enumerated, through second..seventh and interval(). Every get_notes query and every diatonic step is asked "
        "with an emptied memo table and again with a filled one (get_notes additionally after all 30 keys were cached). "
        "Non-trivial: a key whose signature has >= 1 accidental; a signature number other than 0; an invalid string that "
        "differs from a valid key by one character (or by case only)."
        ' Also: get_notes(B) after a cold get_notes(A) for all 870 ordered key pairs and random orders of 3-8 keys; a coverage-guided atheris campaign over key-like text. The empty string is offered to Key() like every other candidate key.')
ASSUMPTIONS = [
    "oracle: own key table (signature number -> major/minor tonic), circle of fifths FCGDAEB and step patterns in "
    "vlib/ref/theory.py; own key note lists spelled from the step pattern",
    "the empty string is a candidate key like any other string, for Key() too (Key('') raised IndexError on the pinned tree; repaired)",
    "signature numbers are ints; candidate keys are strings",
    "the memo table is reached as keys._key_cache (cleared through getattr guards; if it is absent the cold and the warm "
    "query are simply two queries)",
    "aliasing of returned lists is C15's subject and is not asserted here",
]

STEP_FUNCTIONS = ["second", "third", "fourth", "fifth", "sixth", "seventh"]


# ---- memo-table handling ------------------------------------------------------------------------------
def _clear_cache():
    cache = getattr(keys, "_key_cache", None)
    clear = getattr(cache, "clear", None)
    if callable(clear):
        try:
            clear()
        except Exception:  # noqa - a refactored cache that cannot be cleared is not this check's business
            pass


def _norm(x):
    return list(x) if isinstance(x, (list, tuple)) else x


def _cold_warm(ctx, sig, f, *args):
    """Ask the same question with an emptied memo table and again with the table as the first call left it."""
    _clear_cache()
    cold = ctx.ok(sig, f, *args)
    warm = ctx.ok(sig, f, *args)
    if failed(cold) or failed(warm):
        return FAILED
    ctx.check(_norm(cold) == _norm(warm), sig + "/memo-cold-vs-warm",
              lambda: "%s%r: first answer %r, second answer %r" % (getattr(f, "__name__", f), args, cold, warm))
    return cold


def _fill_cache(ctx):
    _clear_cache()
    for k in T.ALL_KEYS:
        try:
            keys.get_notes(k)
        except Exception:  # noqa - reported by the case of that key
            pass


# ---- one of the 30 keys -------------------------------------------------------------------------------
def _check_notes(ctx, key, ns, sig):
    n = T.KEY_SIG[key]
    tonic = T.key_tonic(key)
    what = lambda: "get_notes(%r) -> %r, expected %r" % (key, ns, T.key_notes(key))  # noqa
    if not ctx.check(isinstance(ns, (list, tuple)) and len(ns) == 7 and all(T.valid(x) for x in ns), sig + "/seven-valid-names", what):
        return
    ns = list(ns)
    ctx.check(ns[0] == tonic, sig + "/tonic", what)
    ctx.check([x[0] for x in ns] == [T.letter_up(tonic[0], i) for i in range(7)], sig + "/letters", what)
    steps = [(T.pc(ns[(i + 1) % 7]) - T.pc(ns[i])) % 12 for i in range(7)]
    ctx.check(steps == (T.MINOR_STEPS if T.key_is_minor(key) else T.MAJOR_STEPS), sig + "/step-pattern", what)
    altered = [x for x in ns if len(x) > 1]
    ctx.check(sorted(altered) == sorted(T.signature_accidentals(n)), sig + "/accidentals", what)
    ctx.check(all(x[1:] == ("#" if n > 0 else "b") for x in altered), sig + "/accidental-sign", what)


def check_key(ctx, key):
    _failing_calls_elsewhere()
    _clear_cache()
    n = T.KEY_SIG[key]
    minor = T.key_is_minor(key)
    major_key, minor_key = T.KEYS[n]

    r = ctx.ok("is_valid_key", keys.is_valid_key, key)
    ctx.check(failed(r) or bool(r), "is_valid_key/false-on-valid", key)

    s = ctx.ok("get_key_signature", keys.get_key_signature, key)
    if not failed(s):
        ctx.check(s == n, "get_key_signature/value", lambda: "get_key_signature(%r) -> %r, expected %d" % (key, s, n))

    a = ctx.ok("get_key_signature_accidentals", keys.get_key_signature_accidentals, key)
    if not failed(a):
        what = lambda: "get_key_signature_accidentals(%r) -> %r, expected %r" % (key, a, T.signature_accidentals(n))  # noqa
        if ctx.check(isinstance(a, (list, tuple)) and all(T.valid(x) for x in a), "signature_accidentals/names", what):
            ctx.check(len(a) == abs(n), "signature_accidentals/count", what)
            ctx.check(all(x[1:] == ("#" if n > 0 else "b") for x in a), "signature_accidentals/sign", what)
            ctx.check(list(a) == T.signature_accidentals(n), "signature_accidentals/order", what)

    ns = _cold_warm(ctx, "get_notes", keys.get_notes, key)
    if not failed(ns):
        _check_notes(ctx, key, ns, "get_notes")
        _fill_cache(ctx)
        full = ctx.ok("get_notes", keys.get_notes, key)
        ctx.check(failed(full) or _norm(full) == _norm(ns), "get_notes/memo-all-keys-cached",
                  lambda: "get_notes(%r): %r with an empty memo table, %r after all 30 keys were cached" % (key, ns, full))

    g = ctx.ok("get_key", keys.get_key, n)
    if not failed(g):
        ctx.check(isinstance(g, (list, tuple)) and len(g) == 2 and g[1 if minor else 0] == key, "get_key/inverse-of-signature",
                  lambda: "get_key(%d) -> %r does not give back %r" % (n, g, key))

    # relatives
    rel_f, back_f, other = ((keys.relative_major, keys.relative_minor, major_key) if minor
                            else (keys.relative_minor, keys.relative_major, minor_key))
    rel = ctx.ok("relative", rel_f, key)
    if not failed(rel):
        ctx.check(rel == other, "relative/value", lambda: "%s(%r) -> %r, expected %r" % (rel_f.__name__, key, rel, other))
        back = ctx.ok("relative", back_f, rel)
        ctx.check(failed(back) or back == key, "relative/inverse",
                  lambda: "%s(%r) -> %r, %s of that -> %r" % (rel_f.__name__, key, rel, back_f.__name__, back))
        rel_notes = _cold_warm(ctx, "relative/get_notes", keys.get_notes, rel)
        if not failed(rel_notes) and not failed(ns):
            ctx.check(sorted(rel_notes) == sorted(ns), "relative/note-set",
                      lambda: "%r has %r but its relative %r has %r" % (key, ns, rel, rel_notes))
            mi, ma = (ns, rel_notes) if minor else (rel_notes, ns)
            ctx.check(len(mi) > 0 and len(ma) > 0 and T.valid(mi[0]) and T.valid(ma[0]) and (T.pc(mi[0]) - T.pc(ma[0])) % 12 == 9,
                      "relative/nine-semitones", lambda: "major %r, minor %r" % (ma, mi))
    ctx.raises("relative/wrong-mode", (NoteFormatError,), back_f, key)

    # Key object
    k = ctx.ok("Key", keys.Key, key)
    if not failed(k):
        mode = "minor" if minor else "major"
        name = "%s %s%s" % (key[0].upper(), {"": "", "#": "sharp ", "b": "flat "}[key[1:]], mode)
        ctx.check(getattr(k, "key", None) == key, "Key/key", lambda: "Key(%r).key = %r" % (key, getattr(k, "key", None)))
        ctx.check(getattr(k, "mode", None) == mode, "Key/mode", lambda: "Key(%r).mode = %r" % (key, getattr(k, "mode", None)))
        ctx.check(getattr(k, "signature", None) == n, "Key/signature",
                  lambda: "Key(%r).signature = %r, expected %d" % (key, getattr(k, "signature", None), n))
        ctx.check(getattr(k, "name", None) == name, "Key/name",
                  lambda: "Key(%r).name = %r, expected %r" % (key, getattr(k, "name", None), name))
        # copies of a Key (copy, deepcopy, pickle) report the same; making them changes neither this key nor another one held
        import copy
        import pickle
        held = ctx.ok("Key", keys.Key, "C" if key != "C" else "G")
        held_attrs = None if failed(held) else (held.key, held.mode, held.signature, held.name)
        for how, mk in (("copy.copy", lambda: copy.copy(k)), ("copy.deepcopy", lambda: copy.deepcopy(k)), ("pickle", lambda: pickle.loads(pickle.dumps(k)))):
            c = ctx.ok("Key/" + how, mk)
            if not failed(c):
                ctx.check((getattr(c, "key", None), getattr(c, "mode", None), getattr(c, "signature", None), getattr(c, "name", None)) == (key, mode, n, name),
                          "Key/copy", lambda: "%s of Key(%r): key %r mode %r signature %r name %r" % (how, key, getattr(c, "key", None), getattr(c, "mode", None), getattr(c, "signature", None), getattr(c, "name", None)))
            ctx.check((k.key, k.mode, k.signature, k.name) == (key, mode, n, name), "Key/changed-by-copying", lambda: "Key(%r) after %s: %r" % (key, how, (k.key, k.mode, k.signature, k.name)))
            ctx.check(held_attrs is None or (held.key, held.mode, held.signature, held.name) == held_attrs, "Key/another-key-changed-by-copying",
                      lambda: "a held %r reads %r after %s of Key(%r)" % (held_attrs, (held.key, held.mode, held.signature, held.name), how, key))
        again = ctx.ok("Key", keys.Key, "C" if key != "C" else "G")
        if not failed(again) and not failed(c if "c" in dir() else FAILED):
            ctx.check((c.key, c.signature) == (key, n), "Key/copy-changed-by-a-later-Key", lambda: "copy of Key(%r) reads %r after another Key was built" % (key, (c.key, c.signature)))
    ctx.note_case(n != 0, ["key:minor" if minor else "key:major", "signature:%+d" % n])


# ---- signature numbers -----------------------------------------------------------------------------------
def check_signum_types(ctx, n):
    """the signature number given as another integer type (numpy integers, as they come out of array code)"""
    import numpy
    for ty in (numpy.int64, numpy.int32, numpy.int8, numpy.intc):
        g = ctx.ok("get_key/" + ty.__name__, keys.get_key, ty(n))
        if not failed(g):
            ctx.check(isinstance(g, (list, tuple)) and list(g) == list(T.KEYS[n]), "get_key/integer-type",
                      lambda: "get_key(%s(%d)) -> %r, expected %r" % (ty.__name__, n, g, T.KEYS[n]))
    for ty in (numpy.int64, numpy.int8):
        ctx.raises("get_key/out-of-range/" + ty.__name__, (RangeError,), keys.get_key, ty(n + 15 if n >= 0 else n - 15))
    ctx.note_case(True, ["signum:integer-types"])


def check_signum(ctx, n):
    if isinstance(n, list):  # ["big", base, exponent, sign]: an integer too long to be written out in a replay file
        n = n[3] * n[1] ** n[2]
    if -7 <= n <= 7:
        g = ctx.ok("get_key", keys.get_key, n)
        if not failed(g):
            ctx.check(isinstance(g, (list, tuple)) and list(g) == list(T.KEYS[n]), "get_key/value",
                      lambda: "get_key(%d) -> %r, expected %r" % (n, g, T.KEYS[n]))
            if isinstance(g, (list, tuple)):
                for k in g:
                    s = ctx.ok("get_key_signature", keys.get_key_signature, k)
                    ctx.check(failed(s) or s == n, "get_key/signature-inverse",
                              lambda: "get_key(%d) -> %r but get_key_signature(%r) -> %r" % (n, g, k, s))
    else:
        ctx.raises("get_key/out-of-range", (RangeError,), keys.get_key, n)
    ctx.note_case(n != 0, ["signum:in-range" if -7 <= n <= 7 else "signum:out-of-range"])


# ---- candidate key strings -------------------------------------------------------------------------------
def _one_edit(s, k):
    if s == k:
        return False
    if s.lower() == k.lower():
        return True
    if len(s) == len(k):
        return sum(1 for x, y in zip(s, k) if x != y) == 1
    if len(s) == len(k) + 1:
        return any(s[:i] + s[i + 1:] == k for i in range(len(s)))
    if len(s) + 1 == len(k):
        return any(k[:i] + k[i + 1:] == s for i in range(len(k)))
    return False


def check_candidate(ctx, s):
    if s in T.KEY_SIG:
        return check_key(ctx, s)
    r = ctx.ok("is_valid_key", keys.is_valid_key, s)
    ctx.check(failed(r) or not r, "is_valid_key/true-on-invalid", repr(s))
    ctx.raises("get_key_signature/invalid-key", (NoteFormatError,), keys.get_key_signature, s)
    ctx.raises("get_key_signature_accidentals/invalid-key", (NoteFormatError,), keys.get_key_signature_accidentals, s)
    _clear_cache()
    ctx.raises("get_notes/invalid-key", (NoteFormatError,), keys.get_notes, s)
    ctx.raises("get_notes/invalid-key", (NoteFormatError,), keys.get_notes, s)
    _fill_cache(ctx)
    ctx.raises("get_notes/invalid-key/all-keys-cached", (NoteFormatError,), keys.get_notes, s)
    # the same with the memo table filled in other orders (minor keys before their relative majors; minor keys only)
    for order in (list(reversed(T.ALL_KEYS)), [k for k in T.ALL_KEYS if k[0].islower()]):
        _clear_cache()
        for k in order:
            try:
                keys.get_notes(k)
            except Exception:  # noqa - reported by the case of that key
                pass
        ctx.raises("get_notes/invalid-key/keys-cached-in-another-order", (NoteFormatError,), keys.get_notes, s)
        ctx.raises("third/invalid-key/keys-cached-in-another-order", (NoteFormatError,), intervals.third, "G", s)
    ctx.raises("relative_major/invalid-key", (NoteFormatError,), keys.relative_major, s)
    ctx.raises("relative_minor/invalid-key", (NoteFormatError,), keys.relative_minor, s)
    ctx.raises("Key/invalid-key", (NoteFormatError,), keys.Key, s)
    # diatonic steps in an unknown key: rejected, also when asked again and right after a valid question
    for i, fname in enumerate(STEP_FUNCTIONS):
        f = getattr(intervals, fname)
        if i % 2 == 0:
            ctx.ok(fname, f, "E", "D")
        ctx.raises(fname + "/invalid-key", (NoteFormatError,), f, "E", s)
        ctx.raises(fname + "/invalid-key/asked-again", (NoteFormatError,), f, "E", s)
        ctx.raises(fname + "/invalid-key/asked-again", (NoteFormatError,), f, "F#", s)
    ctx.raises("interval/invalid-key", (NoteFormatError,), intervals.interval, s, "E", 2)
    ctx.raises("interval/invalid-key/asked-again", (NoteFormatError,), intervals.interval, s, "E", 2)
    near = any(_one_edit(s, k) for k in T.ALL_KEYS)
    ctx.note_case(near, ["candidate:near-miss" if near else "candidate:far"])


def _confusable(note, key):
    """other (note, key) pairs with the same concatenation note + key or key + note"""
    out = []
    for whole, note_first in ((note + key, True), (key + note, False)):
        for i in range(1, len(whole)):
            a, b = whole[:i], whole[i:]
            n2, k2 = (a, b) if note_first else (b, a)
            if (n2, k2) != (note, key) and T.valid(n2) and k2 in T.KEY_SIG and (n2, k2) not in out:
                out.append((n2, k2))
    return out


# ---- diatonic steps -----------------------------------------------------------------------------------------
def check_diatonic(ctx, case):
    key, note, step = case
    letter = T.letter_up(note[0], step)
    expected = [x for x in T.key_notes(key) if x[0] == letter][0]
    fname = STEP_FUNCTIONS[step - 1]
    # questions whose note and key, written one after the other, read the same as this one's ('C' in 'bb' / 'Cb' in 'b') are
    # asked first: the answer must not depend on them
    for n2, k2 in _confusable(note, key):
        try:
            getattr(intervals, fname)(n2, k2)
            intervals.interval(k2, n2, step)
        except Exception:  # noqa - judged in that pair's own case
            pass
        r = ctx.ok(fname, getattr(intervals, fname), note, key)
        if not failed(r):
            ctx.check(r == expected, fname + "/value-after-confusable-question",
                      lambda: "%s(%r, %r) asked right after (%r, %r) -> %r, expected %r" % (fname, note, key, n2, k2, r, expected))
        r = ctx.ok("interval", intervals.interval, key, note, step)
        if not failed(r):
            ctx.check(r == expected, "interval/value-after-confusable-question",
                      lambda: "interval(%r, %r, %d) asked right after (%r, %r) -> %r, expected %r" % (key, note, step, k2, n2, r, expected))
    r = _cold_warm(ctx, fname, getattr(intervals, fname), note, key)
    if not failed(r):
        ctx.check(r == expected, fname + "/value", lambda: "%s(%r, %r) -> %r, expected %r" % (fname, note, key, r, expected))
    r = _cold_warm(ctx, "interval", intervals.interval, key, note, step)
    if not failed(r):
        ctx.check(r == expected, "interval/value", lambda: "interval(%r, %r, %d) -> %r, expected %r" % (key, note, step, r, expected))
    ctx.note_case(T.KEY_SIG[key] != 0, ["step:%d" % step, "wraps" if T.LETTERS.index(note[0]) + step >= 7 else "no-wrap"])


def check_order(ctx, case):
    """the key notes do not depend on which other keys were asked for before (memo table transparency across keys)"""
    first = case[:-1]
    last = case[-1]
    _clear_cache()
    for k in first:
        ctx.ok("get_notes", keys.get_notes, k)
    ns = ctx.ok("get_notes", keys.get_notes, last)
    if not failed(ns):
        exp = T.key_notes(last)
        ok = len(ns) == 7 and all(T.valid(x) and x[0] == e[0] and T.pc(x) == T.pc(e) for x, e in zip(ns, exp))
        ctx.check(ok, "get_notes/depends-on-earlier-keys", lambda: "after get_notes%r, get_notes(%r) -> %r, expected %r" % (tuple(first), last, ns, exp))
    ctx.note_case(True, ["order:%d-before" % len(first)])


CHECKS = {"order": check_order, "key": check_key, "signum": check_signum, "candidate": check_candidate, "diatonic": check_diatonic}


def _shard(seq, shard, nshards):
    return seq[shard::nshards]


def _failing_calls_elsewhere():
    """questions to other theory modules that are rejected half-way: they must leave the key tables alone"""
    from mingus.core import chords as _ch, notes as _nt, scales as _sc
    for f, args in ((intervals.determine, ("G", "H")), (intervals.determine, ("A", "h", True)), (_ch.determine, (["C", "H", "G"],)),
                    (_nt.note_to_int, ("H",)), (intervals.from_shorthand, ("X", "3")), (_sc.determine, (["C", "H"],)),
                    (intervals.measure, ("C", "J")), (_ch.from_shorthand, ("Hm7",))):
        try:
            f(*args)
        except Exception:  # noqa - rejected, as it should be
            pass


def check_key_lists(ctx, which):
    """the two columns of the ordered key table as the module publishes them"""
    got = getattr(keys, which, None)
    want = T.MAJOR_KEYS if which == "major_keys" else T.MINOR_KEYS
    ctx.check(isinstance(got, (list, tuple)) and list(got) == list(want), "key-table/" + which, lambda: "keys.%s = %r, expected %r" % (which, got, want))
    ctx.note_case(True, ["key-table"])


CHECKS["key_lists"] = check_key_lists
CHECKS["signum_types"] = check_signum_types


def sub_keys(ctx, shard, n):
    ctx.exhaustive("keys: 15 major + 15 minor", "all", len(T.ALL_KEYS))
    ctx.enumerate("key", check_key, T.ALL_KEYS)
    ctx.enumerate("key_lists", check_key_lists, ["major_keys", "minor_keys"])


def sub_order(ctx, shard, n):
    pairs = [[a, b] for a in T.ALL_KEYS for b in T.ALL_KEYS if a != b]
    ctx.exhaustive("get_notes(B) after a cold get_notes(A)", "all ordered pairs of the 30 keys", len(pairs))
    ctx.enumerate("order", check_order, pairs)
    ctx.given("order", check_order, st.lists(st.sampled_from(T.ALL_KEYS), min_size=3, max_size=8), 200 if ctx.quick else 3000)


def sub_signums(ctx, shard, n):
    ctx.exhaustive("signature numbers", "-20..20", 41)
    ctx.enumerate("signum", check_signum, range(-20, 21))
    ctx.enumerate("signum_types", check_signum_types, range(-7, 8))
    ctx.given("signum", check_signum, st.integers() | st.integers(-40, 40), 300 if ctx.quick else 5000)
    # integers far outside every machine range (hundreds to tens of thousands of digits)
    ctx.enumerate("signum", check_signum, [["big", b, e, sg] for b in (2, 10) for e in (64, 400, 1024, 4300, 5000, 20000) for sg in (1, -1)])


NEAR = ["", "H", "h", "c##", "CB", "AB", "Ab ", " Ab", "Ab\n", "cb", "A#", "Fb", "G#", "D#", "E#", "B#", "db", "gb", "fb", "e#",
        "Cbb", "C##", "Cm", "C major", "a minor", "C ", "C-", "f##", "F♯", "B♭", "bB", "eB", "C#b", "1", "#", "b#", "♭", "Ｃ", "c ", "A-4",
        "Am", "am", "I", "x", "\x00", "C\x00"]


def _mutations(key):
    res = {key.upper(), key.lower(), key.swapcase(), key + " ", " " + key, key + "#", key + "b", key[:-1], key[0]}
    for i in range(len(key)):
        for ch in "AaBbCcGgHh#b ":
            res.add(key[:i] + ch + key[i + 1:])
            res.add(key[:i] + ch + key[i:])
    return sorted(res)


def sub_candidates(ctx, shard, n):
    if shard == 0:
        ctx.enumerate("candidate", check_candidate, NEAR)
        edits = sorted({m for k in T.ALL_KEYS for m in _mutations(k)})
        ctx.exhaustive("one-character edits and case changes of the 30 keys", "alphabet AaBbCcGgHh#b+space", len(edits))
        ctx.enumerate("candidate", check_candidate, edits)
    edit = st.sampled_from(T.ALL_KEYS).flatmap(lambda k: st.sampled_from(_mutations(k)))
    wild = st.builds(lambda k, pos, ch: k[:pos % (len(k) + 1)] + ch + k[pos % (len(k) + 1):],
                     st.sampled_from(T.ALL_KEYS), st.integers(0, 3), st.characters())
    strat = st.text(max_size=4) | st.text(alphabet="ABCDEFGabcdefg#b", max_size=3) | edit | wild
    ctx.given("candidate", check_candidate, strat, 1000 if ctx.quick else 40000)


def sub_diatonic(ctx, shard, n):
    notes = T.unmixed_names(2)
    cases = [[k, nt, s] for k in T.ALL_KEYS for nt in notes for s in range(1, 7)]
    if shard == 0:
        ctx.exhaustive("diatonic steps: keys x notes (letter x <= 2 sharps or flats) x steps 1..6", "30 x 35 x 6", len(cases))
    ctx.enumerate("diatonic", check_diatonic, _shard(cases, shard, n))



# ---- coverage-guided fuzz target (atheris): bytes -> text biased towards the relevant alphabet ------------------
_FUZZ_ALPHABET = list('ABCDEFGabcdefg#b#b Hh-m')


def _fuzz_text(fdp):
    raw = fdp.ConsumeBytes(fdp.ConsumeIntInRange(1, 6))
    s = "".join(_FUZZ_ALPHABET[b] if b < len(_FUZZ_ALPHABET) else chr(b if b < 128 else 0x100 + b) for b in raw)
    return s or None


FUZZ = {"keys": (_fuzz_text, "candidate")}

def sub_fuzz(ctx, shard, n):
    fuzz.run(ctx, __name__, "keys", 15000 if ctx.quick else 200000, max_len=8)


SUBS = [
    Sub("fuzz", sub_fuzz, quick=1, thorough=4),
    Sub("order", sub_order),
    Sub("keys", sub_keys),
    Sub("signums", sub_signums),
    Sub("candidates", sub_candidates, quick=1, thorough=4),
    Sub("diatonic", sub_diatonic, quick=2, thorough=4),
]
