"""C08 - diatonic harmony, numerals, substitutions (mingus/core/chords.py, mingus/core/progressions.py)."""
import copy

from hypothesis import strategies as st

from mingus.core import chords, progressions

from vlib.core import Sub, failed
from vlib.ref import chords_ref as R
from vlib.ref import theory as T

PROPERTY_ID = "C08"
RULE = ("30 keys x 7 degrees x {triad, seventh} x {triads()/sevenths(), function name, numeral alias in both cases, "
        "to_chords of the numeral in both cases, as string and as list} enumerated; numeral x case x prefix -3..+3 x "
        "every library chord suffix in every key (enumerated); unrecognised numerals (every I/V string of length 0..4 "
        "that is no numeral, 'X', 'Q') x prefix x suffix x key; chord -> function in the 15 major keys x 7 x 2, both "
        "directions; parse/format on numeral x prefix -6..+6 x suffix; the five substitute_* rules x ignore_suffix and "
        "substitute x depth 0..2 on every numeral x suffix x prefix -3..+3 (enumerated, in 5 major keys quick / 15 "
        "thorough) and at every index of Hypothesis progressions of length 1..4. Non-trivial: key with accidentals, or "
        "prefix != 0, or non-empty suffix, or depth > 0."
        ' Also: whole progressions with repeated degrees checked element-wise; negative indices; the documented recursion relation of substitute (depth d = depth 0 plus the depth d-1 substitutions of each result); every attribute name of the theory modules and Hypothesis ASCII text as unrecognised numerals; every result of a depth-0 substitution is fed to the five rules again (inputs with up to six accidentals). The recursion relation of substitute is compared as a collection of distinct answers.')
ASSUMPTIONS = [
    "chord notes are compared on letter + pitch class + unmixed + <= 6 accidentals against own key notes / formulas",
    "chord -> function is asserted in major keys only; the expected numeral is looked up case-insensitively among the "
    "answers and that answer must denote the chord again",
    "lower-case numerals are not in the parse/format round-trip domain (the parser upper-cases by design)",
    "substitute_diminished_for_dominant and the general substitute: well-formedness and caller's list only",
    "harmonic substitutes: the bare-numeral triads of original and substitute (each with its own prefix) share exactly "
    "two notes; minor-for-major / major-for-minor suffix mapping is asserted when ignore_suffix is False",
    "lower-case aliases are checked where they exist (ii, iii, vi, vii and their sevenths); upper-case ones must exist",
]

NUM = R.NUMERALS
MAJORS = list(T.MAJOR_KEYS)


def _key_acc(key):
    return len(key) > 1


def _one_chord(ctx, sig, r, detail):
    ok = isinstance(r, list) and len(r) == 1 and isinstance(r[0], list) and len(r[0]) >= 1 and all(T.valid(n) for n in r[0])
    return ctx.check(ok, sig, detail)


# ---- the seven triads and sevenths, function names, aliases, numerals --------------------------------
def check_diatonic(ctx, case):
    key, d = case
    tri = R.shifted_items(R.diatonic(key, d, 3), 0)
    sev = R.shifted_items(R.diatonic(key, d, 4), 0)

    def same(sig, got, exp):
        if not failed(got):
            ctx.check(R.chord_ok(got, exp), sig, lambda: "key %s degree %d: %r, expected %r" % (key, d + 1, got, exp))

    ts = ctx.ok("triads", chords.triads, key)
    if not failed(ts) and ctx.check(isinstance(ts, list) and len(ts) == 7, "triads/count", lambda: repr(ts)):
        same("triads", ts[d], tri)
    ss = ctx.ok("sevenths", chords.sevenths, key)
    if not failed(ss) and ctx.check(isinstance(ss, list) and len(ss) == 7, "sevenths/count", lambda: repr(ss)):
        same("sevenths", ss[d], sev)
    fn = R.FUNCTIONS[d]
    for name, exp in ((fn, tri), (fn + "7", sev)):
        f = getattr(chords, name, None)
        if ctx.check(callable(f), "function/%s/missing" % name, name):
            same("function/" + name, ctx.ok("function/" + name, f, key), exp)
    for nm in (NUM[d], NUM[d].lower()):
        for name, exp in ((nm, tri), (nm + "7", sev)):
            f = getattr(chords, name, None)
            if f is None and nm != NUM[d]:
                continue
            if ctx.check(callable(f), "alias/%s/missing" % name, name):
                same("alias/" + name, ctx.ok("alias/" + name, f, key), exp)
            for arg in (name, [name]):
                r = ctx.ok("to_chords/" + name, progressions.to_chords, arg, key)
                if not failed(r) and _one_chord(ctx, "to_chords/" + name, r, lambda: "to_chords(%r, %r) -> %r" % (arg, key, r)):
                    same("to_chords/" + name, r[0], exp)
        r = ctx.ok("to_chords/list", progressions.to_chords, [nm, nm + "7"], key)
        if not failed(r) and ctx.check(isinstance(r, list) and len(r) == 2, "to_chords/list", lambda: repr(r)):
            same("to_chords/list", r[0], tri)
            same("to_chords/list", r[1], sev)
    ctx.note_case(_key_acc(key), ["diatonic:" + ("minor" if T.key_is_minor(key) else "major")])


def _numeral_items(key, d, acc, suffix):
    """expected items of prefix+numeral+suffix in key, or None if the reference has no formula for the suffix"""
    if suffix == "":
        base = R.diatonic(key, d, 3)
    elif suffix == "7":
        base = R.diatonic(key, d, 4)
    elif suffix in R.FORMULAS:
        return [(l, (p + acc) % 12) for l, p in map(R.item_key, R.items(T.key_notes(key)[d], suffix))]
    else:
        return None
    return R.shifted_items(base, acc)


def check_numeral(ctx, case):
    key, d, lower, acc, suffix = case
    s = R.prefix(acc) + (NUM[d].lower() if lower else NUM[d]) + suffix
    sig = ("prefix" if acc else "numeral") if suffix in ("", "7") else "suffix/" + suffix
    r = ctx.ok(sig, progressions.to_chords, s, key)
    if not failed(r) and _one_chord(ctx, sig, r, lambda: "to_chords(%r, %r) -> %r" % (s, key, r)):
        exp = _numeral_items(key, d, acc, suffix)
        if exp is None:
            ctx.label("numeral:no-reference-formula")
        else:
            ctx.check(R.chord_ok(r[0], exp), sig, lambda: "to_chords(%r, %r) -> %r, expected %r" % (s, key, r, exp))
    ctx.note_case(_key_acc(key) or acc != 0 or suffix != "",
                  ["prefix:%+d" % acc, "suffix:" + ("diatonic" if suffix in ("", "7") else "chord")])


def check_unrecognised(ctx, case):
    key, s = case
    num = R.parse_numeral(s)[0]
    if num in NUM:
        return
    for arg in (s, [s], ["I", s], [s, "V7"]):
        r = ctx.ok("unrecognised", progressions.to_chords, arg, key)
        if not failed(r):
            ctx.check(r == [], "unrecognised", lambda: "to_chords(%r, %r) -> %r, expected []" % (arg, key, r))
    ctx.note_case(_key_acc(key) or s != "", ["unrecognised"])


# ---- chord -> function (major keys) ------------------------------------------------------------------
def check_function(ctx, case):
    key, d, seventh = case
    chord = R.diatonic(key, d, 4 if seventh else 3)
    want = NUM[d] + ("7" if seventh else "")
    short = ctx.ok("function/determine", progressions.determine, list(chord), key, True)
    if not failed(short) and ctx.check(isinstance(short, list), "function/numeral", lambda: repr(short)):
        hits = [e for e in short if isinstance(e, str) and e.upper() == want]
        if ctx.check(hits, "function/numeral", lambda: "determine(%r, %r, True) -> %r, expected %s" % (chord, key, short, want)):
            for e in hits:
                back = ctx.ok("function/inverse", progressions.to_chords, e, key)
                if not failed(back):
                    ctx.check(_one_chord(ctx, "function/inverse", back, lambda: repr(back)) and R.chord_ok(
                        back[0], R.shifted_items(chord, 0)), "function/inverse",
                        lambda: "%r in %s -> %r -> %r" % (chord, key, e, back))
    long_ = ctx.ok("function/determine", progressions.determine, list(chord), key, False)
    name = R.FUNCTIONS[d] + (" seventh" if seventh else "")
    if not failed(long_):
        ctx.check(isinstance(long_, list) and name in long_, "function/name",
                  lambda: "determine(%r, %r) -> %r, expected %r" % (chord, key, long_, name))
    # numeral -> chord -> numeral
    fwd = ctx.ok("function/inverse", progressions.to_chords, want, key)
    if not failed(fwd) and _one_chord(ctx, "function/inverse", fwd, lambda: repr(fwd)):
        again = ctx.ok("function/determine", progressions.determine, list(fwd[0]), key, True)
        if not failed(again):
            ctx.check(isinstance(again, list) and any(isinstance(e, str) and e.upper() == want for e in again),
                      "function/inverse", lambda: "%s in %s -> %r -> %r" % (want, key, fwd, again))
    ctx.note_case(_key_acc(key) or bool(seventh), ["function:" + ("seventh" if seventh else "triad")])


# ---- parse / format ----------------------------------------------------------------------------------
def check_roundtrip(ctx, case):
    num, acc, suffix = case
    s = R.prefix(acc) + num + suffix
    t = ctx.ok("parse_string", progressions.parse_string, s)
    if not failed(t):
        back = ctx.ok("tuple_to_string", progressions.tuple_to_string, t)
        ctx.check(back == s, "parse-format", lambda: "%r -> %r -> %r" % (s, t, back))
    s2 = ctx.ok("tuple_to_string", progressions.tuple_to_string, (num, acc, suffix))
    if not failed(s2):
        t2 = ctx.ok("parse_string", progressions.parse_string, s2)
        ctx.check(not failed(t2) and list(t2) == [num, acc, suffix], "format-parse",
                  lambda: "%r -> %r -> %r" % ((num, acc, suffix), s2, t2))
    ctx.note_case(acc != 0 or suffix != "", ["roundtrip"])


# ---- substitutions -----------------------------------------------------------------------------------
RULES = {
    "harmonic": "substitute_harmonic",
    "minor-for-major": "substitute_minor_for_major",
    "major-for-minor": "substitute_major_for_minor",
    "diminished-for-diminished": "substitute_diminished_for_diminished",
    "diminished-for-dominant": "substitute_diminished_for_dominant",
    "general": "substitute",
}
SUFFIX_MAP = {"minor-for-major": {"m": "M", "m7": "M7", "": ""}, "major-for-minor": {"M": "m", "M7": "m7", "": ""}}
ROOT_STEP = {"minor-for-major": (2, 3), "major-for-minor": (5, 9), "diminished-for-diminished": (2, 3)}


def _root_item(key, num, acc):
    n = T.key_notes(key)[NUM.index(num)]
    return (n[0], (T.pc(n) + acc) % 12)


def _triad_set(key, num, acc):
    return set(R.shifted_items(R.diatonic(key, NUM.index(num), 3), acc))


def _rule_semantics(ctx, rule, prog, idx, arg, key):
    """one substitution call: caller's list untouched, well-formed results, and what the rule promises"""
    f = getattr(progressions, RULES[rule])
    mine = copy.deepcopy(prog)
    before = copy.deepcopy(prog)
    sig = "substitute/" + rule
    res = ctx.ok(sig, f, mine, idx, (arg if rule == "general" else bool(arg)))
    ctx.check(mine == before, "caller-list-modified/" + rule, lambda: "%r became %r (index %d, arg %r)" % (before, mine, idx, arg))
    n0, a0, s0 = R.parse_numeral(prog[idx])
    nres = -1
    if not failed(res) and ctx.check(isinstance(res, list), sig + "/well-formed", lambda: repr(res)):
        nres = len(res)
        known = set(chords.chord_shorthand)
        parsed = []
        for r in res:
            wf = isinstance(r, str)
            if wf:
                n1, a1, s1 = R.parse_numeral(r)
                wf = n1 in NUM and s1 in known
            if not ctx.check(wf, sig + "/well-formed", lambda: "%r[%d] (arg %r) -> %r: %r" % (prog, idx, arg, res, r)):
                continue
            ch = ctx.ok(sig + "/well-formed", progressions.to_chords, r, key)
            if failed(ch) or not _one_chord(ctx, sig + "/well-formed", ch, lambda: "to_chords(%r, %r) -> %r" % (r, key, ch)):
                continue
            parsed.append((r, n1, a1, s1, ch[0]))
        if rule == "harmonic":
            t0 = _triad_set(key, n0, a0)
            for r, n1, a1, s1, ch in parsed:
                ctx.check(len(t0 & _triad_set(key, n1, a1)) == 2, sig + "/shared-notes",
                          lambda: "%r -> %r in %s: triads %r / %r" % (prog[idx], r, key, sorted(t0), sorted(_triad_set(key, n1, a1))))
        elif rule in ROOT_STEP:
            steps, semis = ROOT_STEP[rule]
            prev = _root_item(key, n0, a0)
            if rule == "diminished-for-diminished":
                ctx.check(len(res) in (0, 3), sig + "/count", lambda: "%r -> %r" % (prog[idx], res))
            for r, n1, a1, s1, ch in parsed:
                exp = (T.letter_up(prev[0], steps), (prev[1] + semis) % 12)
                # the six-accidental bound on spellings is asserted inside the stated prefix range only
                ctx.check(T.matches(ch[0], exp[0], exp[1], max_acc=6 if abs(a1) <= 3 else None), sig + "/root",
                          lambda: "%r -> %r in %s: root %r, expected letter %s pitch class %d" % (prog[idx], r, key, ch[0], exp[0], exp[1]))
                if rule == "diminished-for-diminished":
                    prev = exp
                    ctx.check(s1 == (s0 or "dim"), sig + "/suffix", lambda: "%r -> %r" % (prog[idx], r))
                elif not arg:
                    ctx.check(SUFFIX_MAP[rule].get(s0) == s1, sig + "/suffix", lambda: "%r -> %r" % (prog[idx], r))
        elif rule == "general" and arg == 0 and s0 in ("dim", "dim7"):
            # the general substitute applies the same promise: its diminished substitutes (same suffix, in order) cycle by
            # minor thirds - two letters and three semitones further each time, starting from the chord that is replaced
            prev = _root_item(key, n0, a0)
            for r, n1, a1, s1, ch in parsed:
                if s1 != s0:
                    continue
                exp = (T.letter_up(prev[0], 2), (prev[1] + 3) % 12)
                ctx.check(T.matches(ch[0], exp[0], exp[1], max_acc=None), sig + "/diminished-cycle",
                          lambda: "%r -> %r in %s: diminished substitute %r has root %r, expected letter %s pitch class %d" % (
                              prog[idx], res, key, r, ch[0], exp[0], exp[1]))
                prev = exp
    return res, nres, (n0, a0, s0)


def check_rule(ctx, case):
    rule, prog, idx, arg, key = case  # arg: ignore_suffix (bool) for the five rules, depth for 'general'
    res, nres, (n0, a0, s0) = _rule_semantics(ctx, rule, prog, idx, arg, key)
    f = getattr(progressions, RULES[rule])
    sig = "substitute/" + rule
    if rule == "general" and arg > 0 and not failed(res) and isinstance(res, list):
        # documented recursion: "if depth > 0 the substitutions of each result will be recursively added as well"
        r0 = ctx.ok(sig, f, copy.deepcopy(prog), idx, 0)
        if not failed(r0):
            exp = list(r0)
            for x in r0:
                p2 = copy.deepcopy(prog)
                p2[idx] = x
                # the results are substitution inputs themselves (with up to six accidentals by now): each of the five rules
                # must keep its promise on them as well
                seen = ctx.__dict__.setdefault("_c08_seen", set())
                if isinstance(x, str) and (x, key) not in seen and R.parse_numeral(x)[0] in NUM:
                    for r5 in RULES:
                        _rule_semantics(ctx, r5, copy.deepcopy(p2), idx, 0 if r5 == "general" else False, key)
                    seen.add((x, key))  # only inputs that passed are skipped later: a failing one fails again when replayed
                sub = ctx.ok(sig, f, p2, idx, arg - 1)
                if failed(sub):
                    exp = None
                    break
                exp += list(sub)
            if exp is not None:
                # (as a collection: neither the statement nor the docstring fixes the order of the answers or says whether an
                # answer that is reached twice is listed twice)
                ctx.check(set(map(repr, res)) == set(map(repr, exp)), sig + "/recursion", lambda: "%r[%d] depth %d -> %r, depth-0 results and their substitutions give %r" % (
                    prog, idx, arg, res, exp))
    ctx.note_case(_key_acc(key) or a0 != 0 or s0 != "" or (rule == "general" and arg > 0),
                  ["rule:" + rule, "rule:%s:%s" % (rule, "empty" if nres == 0 else "results"), "index:negative" if idx < 0 else "index:non-negative"])


def check_tochords_list(ctx, case):
    """to_chords on a whole progression is element-wise: every chord is what the numeral denotes on its own"""
    prog, key = case
    before = list(prog)
    r = ctx.ok("to_chords/list", progressions.to_chords, prog, key)
    ctx.check(prog == before, "caller-list-modified/to_chords", lambda: "%r became %r" % (before, prog))
    if not failed(r) and ctx.check(isinstance(r, list) and len(r) == len(prog), "to_chords/list/length", lambda: "%r -> %r" % (prog, r)):
        for i, (el, ch) in enumerate(zip(prog, r)):
            num, acc, suf = R.parse_numeral(el)
            exp = _numeral_items(key, NUM.index(num.upper()), acc, suf) if num.upper() in NUM else None
            if exp is not None:
                ctx.check(R.chord_ok(ch, exp), "to_chords/list/element", lambda: "to_chords(%r, %r)[%d] -> %r, expected %r" % (prog, key, i, ch, exp))
            single = ctx.ok("to_chords/list", progressions.to_chords, el, key)
            ctx.check(failed(single) or single == [ch], "to_chords/list/differs-from-single", lambda: "to_chords(%r, %r)[%d] -> %r, alone %r" % (prog, key, i, ch, single))
    degs = [R.parse_numeral(e)[0].upper() for e in prog]
    ctx.note_case(len(set(degs)) < len(degs), ["tochords-list:repeated-degree" if len(set(degs)) < len(degs) else "tochords-list:distinct"])


CHECKS = {"tochords_list": check_tochords_list, "diatonic": check_diatonic, "numeral": check_numeral, "unrecognised": check_unrecognised,
          "function": check_function, "roundtrip": check_roundtrip, "rule": check_rule}


# ---- generators --------------------------------------------------------------------------------------
def _shard(seq, shard, nshards):
    return seq[shard::nshards]


def _suffixes():
    return sorted(chords.chord_shorthand)


def _alive(ctx):
    """canary: a numeral with a prefix must come back at all; a non-terminating prefix loop would otherwise make every
    later case wait for the watchdog"""
    ctx.enumerate("numeral", check_numeral, [["C", 0, False, -1, ""], ["C", 0, False, 1, ""]])
    return not any("/timeout" in v["sig"] for v in ctx.violations)


def sub_diatonic(ctx, shard, n):
    cases = [[k, d] for k in T.ALL_KEYS for d in range(7)]
    ctx.exhaustive("diatonic triads/sevenths, function names, aliases, numerals", "30 keys x 7 degrees", len(cases))
    ctx.enumerate("diatonic", check_diatonic, cases)
    fcases = [[k, d, s] for k in MAJORS for d in range(7) for s in (False, True)]
    ctx.exhaustive("chord -> function -> chord", "15 major keys x 7 degrees x {triad, seventh}", len(fcases))
    ctx.enumerate("function", check_function, fcases)
    rcases = [[num, a, suf] for num in NUM for a in range(-6, 7) for suf in _suffixes()]
    ctx.exhaustive("parse/format round trip", "7 numerals x prefix -6..6 x library suffixes", len(rcases))
    ctx.enumerate("roundtrip", check_roundtrip, rcases)


def sub_numerals(ctx, shard, n):
    if not _alive(ctx):
        return
    sufs = _suffixes()
    keys = _shard(T.ALL_KEYS, shard, n)
    if shard == 0:
        ctx.exhaustive("to_chords: key x degree x case x prefix x suffix", "30 keys, prefix -3..+3, %d suffixes" % len(sufs),
                       30 * 7 * 2 * 7 * len(sufs))
    ctx.enumerate("numeral", check_numeral,
                  ([k, d, lo, a, suf] for k in keys for d in range(7) for lo in (False, True) for a in range(-3, 4) for suf in sufs))


def sub_unrecognised(ctx, shard, n):
    import itertools
    nums = ["".join(t) for ln in range(0, 5) for t in itertools.product("IV", repeat=ln)]
    nums = [x for x in nums if x not in NUM] + ["X", "Q", "VIIII", "IIIII"]
    nums += [x.lower() for x in nums if x and x.lower() != x] + ["iV", "Iv", "vI"]
    cases = [[k, p + x + suf] for k in T.ALL_KEYS for x in nums for p in ("", "b", "#", "bb") for suf in ("", "7", "m7", "X")]
    cases = [c for c in cases if R.parse_numeral(c[1])[0] not in NUM]
    ctx.exhaustive("unrecognised numerals", "I/V strings of length 0..5 that are no numeral x prefix x suffix x 30 keys", len(cases))
    ctx.enumerate("unrecognised", check_unrecognised, cases)
    # words that mean something elsewhere in the library (every attribute name of the theory modules) are no numerals either
    import mingus.core as core_pkg
    import pkgutil
    words = set()
    for m in pkgutil.iter_modules(core_pkg.__path__):
        words.add(m.name)
        try:
            words.update(dir(__import__("mingus.core." + m.name, fromlist=["x"])))
        except Exception:  # noqa
            pass
    words = sorted(w for w in words if R.parse_numeral(w)[0] not in NUM and R.parse_numeral("b" + w)[0] not in NUM)
    wcases = [[k, p + w] for k in ("C", "Eb", "f#") for w in words for p in ("", "b", "#")]
    ctx.exhaustive("unrecognised numerals: attribute names of the theory modules", "%d names x prefix x 3 keys" % len(words), len(wcases))
    ctx.enumerate("unrecognised", check_unrecognised, wcases)
    text = st.text(alphabet=st.characters(min_codepoint=32, max_codepoint=126), min_size=0, max_size=8)
    ctx.given("unrecognised", check_unrecognised, st.tuples(st.sampled_from(T.ALL_KEYS), text).map(list), 400 if ctx.quick else 5000)


def _elements():
    return [R.prefix(a) + num + suf for num in NUM for suf in _suffixes() for a in range(-3, 4)]


def _rule_args():
    return [(r, a) for r in RULES if r != "general" for a in (False, True)] + [("general", dp) for dp in (0, 1, 2)]


def sub_rules(ctx, shard, n):
    if not _alive(ctx):
        return
    keys = MAJORS[1::3] if ctx.quick else MAJORS
    els = _elements()
    if shard == 0:
        ctx.exhaustive("substitution rules on numeral x suffix x prefix", "5 rules x ignore_suffix + substitute x depth 0..2, "
                       "%d major keys" % len(keys), len(els) * len(_rule_args()) * len(keys))
    ctx.enumerate("rule", check_rule,
                  ([r, ["I", e, "V"], 1, a, k] for e in _shard(els, shard, n) for (r, a) in _rule_args() for k in keys))


def sub_progressions(ctx, shard, n):
    if not _alive(ctx):
        return
    sufs = _suffixes()
    el = st.builds(lambda a, num, lo, suf: R.prefix(a) + (num.lower() if lo else num) + suf,
                   st.integers(-3, 3) | st.just(0), st.sampled_from(NUM), st.booleans(),
                   st.sampled_from(sufs) | st.sampled_from(["", "7", "m", "M", "m7", "M7", "dim", "dim7"]))
    strat = st.builds(lambda prog, i, ra, k: [ra[0], prog, (i % len(prog)) if i >= 0 else -1 - ((-i - 1) % len(prog)), ra[1], k],
                      st.lists(el, min_size=1, max_size=4), st.integers(-4, 3), st.sampled_from(_rule_args()),
                      st.sampled_from(MAJORS))
    ctx.given("rule", check_rule, strat, 2500 if ctx.quick else 20000)
    # whole progressions with repeated degrees (same numeral with different prefixes / suffixes)
    def mk(degs, picks, key):
        return [[R.prefix(a) + (degs[i % len(degs)].lower() if lo else degs[i % len(degs)]) + suf for (i, a, lo, suf) in picks], key]
    lst = st.builds(mk, st.lists(st.sampled_from(NUM), min_size=1, max_size=2),
                    st.lists(st.tuples(st.integers(0, 3), st.integers(-2, 2), st.booleans(),
                                       st.sampled_from(["", "7", "", "7", "m", "m7", "dim", "M7", "6", "sus4"])), min_size=2, max_size=6),
                    st.sampled_from(T.ALL_KEYS))
    ctx.given("tochords_list", check_tochords_list, lst, 800 if ctx.quick else 5000)


SUBS = [
    Sub("diatonic", sub_diatonic),
    Sub("numerals", sub_numerals, quick=4, thorough=6),
    Sub("unrecognised", sub_unrecognised),
    Sub("rules", sub_rules, quick=6, thorough=16),
    Sub("progressions", sub_progressions, quick=2, thorough=8),
]
