"""C12 - NoteContainer is a pitch-ordered, duplicate-free set under any history (mingus/containers/note_container.py)."""
import itertools

from hypothesis import strategies as st

from mingus.containers import Note, NoteContainer
from mingus.core import chords, progressions

from vlib.core import Sub, failed
from vlib.ref import theory as T

PROPERTY_ID = "C12"
RULE = ("histories over add (Note object, bare name, 'Name-octave', name+octave, lists mixing these forms incl. [name, octave] "
        "and [name, octave, dynamics], another container, '+') and remove (by name, by name+octave, by Note, lists, '-'), "
        "remove_duplicate_notes, sort, empty, with names chosen to collide (naturals, sharps, enharmonic flats, B#/Cb/E#/Fb, "
        "octaves 3-5): every sequence over a 12-operation alphabet up to depth 4 (thorough 5) and seeded Hypothesis histories "
        "of up to 50 steps; after every step the container is compared with a set model {pitch -> first (name, octave)} "
        "(order, length, membership, equality, unique names, four consonance predicates). Constructors: every chord shorthand x "
        "35 roots, 35 names x 35 interval shorthands x up/down, numerals x suffixes x 30 keys. Non-trivial: a history with an "
        "add after a remove, an enharmonic duplicate add or a list mixing octaves; a constructor case whose chord crosses an "
        "octave boundary or has >= 4 notes."
        " Also: octave 0 (pool and an exhaustive alphabet around it), the container's own list or a returned list used as removal list, keyword forms, containers handed in earlier are re-checked after every later step and touched by the caller (third exhaustive alphabet); the from_* constructors on a container that already holds notes (documented: empty the container, then add); slash chords over their own chord notes and polychords of chords that share notes. Neighbours whose octave numbers and pitch order disagree (Cb-5 / B#-4) through every removal form.")
ASSUMPTIONS = ["bare-name octave follows the documented rule (octave of the top note, +1 if that lies below it); where that rule "
               "and 'at or above the top note' disagree (B#/Cb spellings) either outcome is accepted",
               "container is_dissonant(f) = not is_consonant(not f), mirroring the pairwise definition",
               "membership is tested with Note objects; __setitem__ is not in the statement's operation list",
               "chord / progression note lists for the constructor clause come from chords.from_shorthand / progressions.to_chords "
               "(their correctness is C06/C08's subject); the voicing is checked with own pitch arithmetic"]

NAMES = ["C", "D", "E", "F", "G", "A", "B", "C#", "Db", "D#", "Eb", "F#", "Gb", "G#", "Ab", "A#", "Bb", "B#", "Cb", "E#", "Fb"]
OCTS = [0, 3, 4, 5]


class Model(object):
    def __init__(self):
        self.d = {}  # pitch -> [name, octave]

    def content(self):
        return [self.d[p] for p in sorted(self.d)]

    def add(self, name, octave):
        p = T.pitch(name, octave)
        if p not in self.d:
            self.d[p] = [name, octave]

    def top(self):
        return self.d[max(self.d)] if self.d else None

    def bare_candidates(self, name):
        """octaves a bare name may get: [documented rule, at-or-above reading]"""
        if not self.d:
            return [4]
        tn, to = self.top()
        tp = T.pitch(tn, to)
        rule = to + 1 if T.pitch(name, to) < tp else to
        o = to - 2
        while T.pitch(name, o) < tp:
            o += 1
        return [rule] if o == rule else [rule, o]


def _mk(item):
    """item forms: ["obj",n,o] ["str",n,o] ["bare",n] ["pair",n,o] ["triple",n,o]"""
    k = item[0]
    if k == "obj":
        return Note(item[1], item[2])
    if k == "str":
        return "%s-%d" % (item[1], item[2])
    if k == "bare":
        return item[1]
    if k == "pair":
        return [item[1], item[2]]
    if k == "triple":
        return [item[1], item[2], {"velocity": 90}]
    raise ValueError(k)


def _model_add_item(ctx, model, nc, item):
    """apply one added item to the model; for ambiguous bare names adopt what the container did (either reading)"""
    if item[0] == "bare":
        cands = model.bare_candidates(item[1])
        if len(cands) == 1:
            model.add(item[1], cands[0])
        else:
            ctx.label("bare:ambiguous-octave")
            have = [[n.name, n.octave] for n in nc.notes]
            for o in cands:
                if [item[1], o] in have or T.pitch(item[1], o) in model.d:
                    model.add(item[1], o)
                    return
            ctx.fail("bare/octave", "bare %r after top %r landed on neither %r" % (item[1], model.top(), cands))
    else:
        model.add(item[1], item[2])


def _pred(kind, m, f):
    perfect = m in (0, 7) or (f and m == 5)
    imperfect = m in (3, 4, 8, 9)
    return {"perfect": perfect, "imperfect": imperfect, "consonant": perfect or imperfect}[kind]


def _invariants(ctx, nc, model, where):
    exp = model.content()
    got = [[n.name, n.octave] for n in nc.notes]
    if not ctx.check(got == exp, "content", lambda: "%s: container %r, model %r" % (where, got, exp)):
        return False
    pitches = [T.pitch(n, o) for (n, o) in got]
    ctx.check(all(a < b for a, b in zip(pitches, pitches[1:])), "sorted-unique", lambda: "%s: %r" % (where, got))
    ctx.check(len(nc) == len(exp), "len", where)
    uniq = []
    for (n, o) in exp:
        if n not in uniq:
            uniq.append(n)
    r = ctx.ok("get_note_names", nc.get_note_names)
    ctx.check(failed(r) or list(r) == uniq, "get_note_names", lambda: "%s: %r, expected %r" % (where, r, uniq))
    # membership (by pitch) for present and absent pitches
    for p in range(36, 78, 5):
        n = Note().from_int(p)
        ctx.check((n in nc) == (p in model.d), "membership", lambda: "%s: Note(%d) in container -> %r" % (where, p, n in nc))
    for (nm, o) in exp[:3]:
        ctx.check(Note(nm, o) in nc, "membership", lambda: "%s: %s-%d reported absent" % (where, nm, o))
    # equality
    same = NoteContainer(["%s-%d" % (n, o) for (n, o) in exp])
    ctx.check((nc == same) is True and (nc != same) is False, "equality/equal-content", where)
    if exp:
        fewer = NoteContainer(["%s-%d" % (n, o) for (n, o) in exp[1:]])
        ctx.check((nc == fewer) is False and (nc != fewer) is True, "equality/one-removed", where)
        spare = ["%s-%d" % (nm, o) for o in (9, 10, 11) for nm in "CDEFGAB" if T.pitch(nm, o) not in model.d][0]
        other = NoteContainer(["%s-%d" % (n, o) for (n, o) in exp[:-1]] + [spare])
        ctx.check((nc == other) is False, "equality/one-changed", where)
    # consonance: true exactly when every pair (lower, higher) satisfies the pairwise predicate
    pairs = [((T.pc(b[0]) - T.pc(a[0])) % 12) for i, a in enumerate(exp) for b in exp[i + 1:]]
    for f in (True, False):
        for kind, meth in (("consonant", nc.is_consonant), ("perfect", nc.is_perfect_consonant)):
            r = ctx.ok("is_" + kind, meth, f)
            e = all(_pred(kind, m, f) for m in pairs)
            ctx.check(failed(r) or bool(r) == e, "consonance/" + kind, lambda: "%s: %s(%r) -> %r for %r" % (where, kind, f, r, exp))
        r = ctx.ok("is_dissonant", nc.is_dissonant, f)
        e = not all(_pred("consonant", m, not f) for m in pairs)
        ctx.check(failed(r) or bool(r) == e, "consonance/dissonant", lambda: "%s: dissonant(%r) -> %r for %r" % (where, f, r, exp))
    r = ctx.ok("is_imperfect_consonant", nc.is_imperfect_consonant)
    e = all(_pred("imperfect", m, True) for m in pairs)
    ctx.check(failed(r) or bool(r) == e, "consonance/imperfect", lambda: "%s: imperfect -> %r for %r" % (where, r, exp))
    return True


def check_history(ctx, ops):
    nc = NoteContainer()
    model = Model()
    flags = set()
    removed = False
    others = []  # [container handed in earlier, its expected content]: must stay independent of nc in both directions
    for k, op in enumerate(ops):
        kind = op[0]
        where = "step %d %r" % (k, op)
        if kind == "add":  # ["add", item] via add_note
            item = op[1]
            if item[0] == "pair":
                if k % 2:
                    ctx.ok("add_note", lambda: nc.add_note(item[1], octave=item[2]))  # keyword form
                else:
                    ctx.ok("add_note", nc.add_note, item[1], item[2])
            else:
                if item[0] == "triple":
                    item = ["pair"] + item[1:]
                    ctx.ok("add_note", nc.add_note, item[1], item[2], {"velocity": 90})
                else:
                    ctx.ok("add_note", nc.add_note, _mk(item))
            added = [item]
        elif kind in ("add_list", "plus_list"):  # list of items, bare names are voiced in order
            arg = [_mk(i) for i in op[1]]
            if kind == "add_list":
                ctx.ok("add_notes", nc.add_notes, arg)
            else:
                r = ctx.ok("plus", nc.__add__, arg)
                ctx.check(failed(r) or r is nc, "plus/returns-self", where)
            added = op[1]
            if len({i[2] for i in added if len(i) > 2}) > 1:
                flags.add("list-mixing-octaves")
        elif kind in ("add_nc", "plus_nc"):  # another container built from explicit notes
            other = NoteContainer(["%s-%d" % (n, o) for (n, o) in op[1]])
            before = [[n.name, n.octave] for n in other.notes]
            if kind == "add_nc":
                ctx.ok("add_notes", nc.add_notes, other)
            else:
                ctx.ok("plus", nc.__add__, other)
            ctx.check([[n.name, n.octave] for n in other.notes] == before, "argument-container-changed", where)
            added = [["obj", n, o] for (n, o) in before]
            others.append([other, before])
        elif kind == "touch_other":  # the caller goes on using a container it handed in earlier
            if not others:
                continue
            other, exp_other = others[op[1] % len(others)]
            ctx.ok("add_note", other.add_note, "A#-7")
            m2 = Model()
            for (n_, o_) in exp_other + [["A#", 7]]:
                m2.add(n_, o_)
            others[op[1] % len(others)][1] = m2.content()
            added = []
        elif kind == "plus":  # single item via +
            item = op[1]
            ctx.ok("plus", nc.__add__, _mk(item) if item[0] != "pair" else [_mk(item)])
            added = [item]
        elif kind == "rm_name":
            ctx.ok("remove_note", nc.remove_note, op[1])
            model.d = {p: v for p, v in model.d.items() if v[0] != op[1]}
            added, removed = [], True
        elif kind == "rm_name_oct":
            if k % 2:
                ctx.ok("remove_note", lambda: nc.remove_note(op[1], octave=op[2]))  # keyword form
            else:
                ctx.ok("remove_note", nc.remove_note, op[1], op[2])
            model.d = {p: v for p, v in model.d.items() if not (v[0] == op[1] and v[1] == op[2])}
            added, removed = [], True
        elif kind == "rm_note":
            ctx.ok("remove_note", nc.remove_note, Note(op[1], op[2]))
            model.d.pop(T.pitch(op[1], op[2]), None)
            added, removed = [], True
        elif kind in ("rm_list", "minus_list"):  # items: ["bare", n] = by name, ["obj", n, o] = by Note
            arg = [_mk(i) for i in op[1]]
            if kind == "rm_list":
                ctx.ok("remove_notes", nc.remove_notes, arg)
            else:
                r = ctx.ok("minus", nc.__sub__, arg)
                ctx.check(failed(r) or r is nc, "minus/returns-self", where)
            for i in op[1]:
                if i[0] == "bare":
                    model.d = {p: v for p, v in model.d.items() if v[0] != i[1]}
                else:
                    model.d.pop(T.pitch(i[1], i[2]), None)
            added, removed = [], True
        elif kind == "minus":  # single item via -
            i = op[1]
            ctx.ok("minus", nc.__sub__, _mk(i))
            if i[0] == "bare":
                model.d = {p: v for p, v in model.d.items() if v[0] != i[1]}
            else:
                model.d.pop(T.pitch(i[1], i[2]), None)
            added, removed = [], True
        elif kind == "rm_own":  # the container's own note list (or the list an earlier call returned) as the removal list
            own = nc.notes if op[1] == 0 else ctx.ok("add_notes", nc.add_notes, [])
            if failed(own):
                break
            if not isinstance(own, list):  # what add_notes returns is not part of the statement; removal "by lists" is
                own = nc.notes
            if op[1] == 2:
                ctx.ok("minus", nc.__sub__, own)
            else:
                ctx.ok("remove_notes", nc.remove_notes, own)
            model.d = {}
            added, removed = [], True
        elif kind == "dedupe":
            ctx.ok("remove_duplicate_notes", nc.remove_duplicate_notes)
            added = []
        elif kind == "sort":
            ctx.ok("sort", nc.sort)
            added = []
        elif kind == "empty":
            ctx.ok("empty", nc.empty)
            model.d = {}
            added = []
        else:
            raise ValueError(kind)
        for item in added:
            if removed:
                flags.add("add-after-remove")
            if item[0] != "bare" and T.pitch(item[1], item[2]) in model.d and model.d[T.pitch(item[1], item[2])][0] != item[1]:
                flags.add("enharmonic-duplicate")
            _model_add_item(ctx, model, nc, item)
        if not _invariants(ctx, nc, model, where):
            break
        for other, exp_other in others:
            ctx.check([[n.name, n.octave] for n in other.notes] == exp_other, "argument-container-changed-later",
                      lambda: "%s: a container handed in earlier now holds %r, expected %r" % (where, [[n.name, n.octave] for n in other.notes], exp_other))
    ctx.note_case(bool(flags) and len(ops) >= 2, ["history:" + f for f in sorted(flags)] or ["history:plain"])


def _voicing(ctx, nc, names, what):
    """container starts on names[0] in octave 4 and ascends through names in order, each < 12 above the previous"""
    got = [[n.name, n.octave] for n in nc.notes]
    # a chord note whose pitch repeats an earlier one is legitimately dropped by the set semantics
    exp = []
    prev = None
    for nm in names:
        if prev is None:
            o = 4
        else:
            o = prev[1] - 1
            while T.pitch(nm, o) < T.pitch(*prev):
                o += 1
        if prev is not None and T.pitch(nm, o) == T.pitch(*prev):
            continue
        exp.append([nm, o])
        prev = [nm, o]
    ctx.check(got == exp, "constructor/voicing", lambda: "%s: container %r, expected %r for chord %r" % (what, got, exp, names))
    ps = [T.pitch(n, o) for (n, o) in got]
    ctx.check(all(0 < b - a < 12 for a, b in zip(ps, ps[1:])), "constructor/ascending-within-octave", lambda: "%s: %r" % (what, got))
    return exp


def check_from_chord(ctx, case):
    sh = case
    names = chords.from_shorthand(sh)
    nc = ctx.ok("from_chord_shorthand", NoteContainer().from_chord_shorthand, sh)
    if failed(nc):
        return
    exp = _voicing(ctx, nc, names, sh)
    nc2 = ctx.ok("from_chord", NoteContainer().from_chord, sh)
    ctx.check(failed(nc2) or [[n.name, n.octave] for n in nc2.notes] == [[n.name, n.octave] for n in nc.notes], "constructor/from_chord-alias", sh)
    nc3 = ctx.ok("constructor", NoteContainer, list(names))
    ctx.check(failed(nc3) or nc3 == nc, "constructor/list-of-bare-names", sh)
    # "Empty the container and add the notes in the shorthand": a container that already holds notes gives the same result
    used = ctx.ok("from_chord_shorthand/used-container", lambda: NoteContainer(["D-2", "F#-6", "A-4"]).from_chord_shorthand(sh))
    ctx.check(failed(used) or [[n.name, n.octave] for n in used.notes] == [[n.name, n.octave] for n in nc.notes], "constructor/used-container",
              lambda: "%r on a container holding D-2, F#-6, A-4 -> %r, on an empty one %r" % (sh, used, nc))
    ctx.note_case(len(exp) >= 4 or any(o > 4 for (_, o) in exp), ["from_chord:%d-notes" % len(exp)])


def check_from_interval(ctx, case):
    name, sh, up = case
    size = T.shorthand_size(sh)
    nc = ctx.ok("from_interval_shorthand", NoteContainer().from_interval_shorthand, name, sh, up)
    if failed(nc):
        return
    got = [[n.name, n.octave, T.pitch(n.name, n.octave)] for n in nc.notes]
    alias = ctx.ok("from_interval", NoteContainer().from_interval, name, sh, up)
    ctx.check(failed(alias) or [[n.name, n.octave] for n in alias.notes] == [g[:2] for g in got], "constructor/from_interval-alias", repr(case))
    used = ctx.ok("from_interval_shorthand/used-container", lambda: NoteContainer(["D-2", "F#-6", "A-4"]).from_interval_shorthand(name, sh, up))
    ctx.check(failed(used) or [[n.name, n.octave] for n in used.notes] == [g[:2] for g in got], "constructor/used-container",
              lambda: "%r on a container holding D-2, F#-6, A-4 -> %r, on an empty one %r" % (case, used, nc))
    start = T.pitch(name, 4)
    other = start + size if up else start - size
    letter = T.letter_up(name[0], (T.shorthand_degree(sh) - 1) * (1 if up else -1))
    exp_p = sorted({start, other})
    ctx.check([g[2] for g in got] == exp_p, "constructor/interval-pitches", lambda: "%r: %r, expected pitches %r" % (case, got, exp_p))
    ctx.check(any(g[0] == name and g[1] == 4 for g in got), "constructor/interval-root", lambda: "%r: %r" % (case, got))
    if size != 0:
        ctx.check(any(g[2] == other and g[0][0] == letter for g in got), "constructor/interval-letter",
                  lambda: "%r: %r, expected letter %s" % (case, got, letter))
    ctx.note_case(size != 0 and (not up or T.pitch(name, 4) + size >= 60), ["from_interval:" + ("up" if up else "down")])


def check_from_progression(ctx, case):
    numeral, key = case
    ch = progressions.to_chords([numeral], key)
    nc = ctx.ok("from_progression_shorthand", NoteContainer().from_progression_shorthand, numeral, key)
    if failed(nc):
        return
    if ch == [] or ch == [[]]:
        ctx.note_case(False, ["from_progression:empty"])
        return
    exp = _voicing(ctx, nc, ch[0], "%s in %s" % (numeral, key))
    alias = ctx.ok("from_progression", NoteContainer().from_progression, numeral, key)
    ctx.check(failed(alias) or alias == nc, "constructor/from_progression-alias", repr(case))
    used = ctx.ok("from_progression_shorthand/used-container", lambda: NoteContainer(["D-2", "F#-6", "A-4"]).from_progression_shorthand(numeral, key))
    ctx.check(failed(used) or [[n.name, n.octave] for n in used.notes] == [[n.name, n.octave] for n in nc.notes], "constructor/used-container",
              lambda: "%r on a container holding D-2, F#-6, A-4 -> %r, on an empty one %r" % (case, used, nc))
    ctx.note_case(len(exp) >= 4 or any(o > 4 for (_, o) in exp), ["from_progression:%d-notes" % len(exp)])


CHECKS = {"history": check_history, "from_chord": check_from_chord, "from_interval": check_from_interval,
          "from_progression": check_from_progression}

ALPHABET = [
    ["add", ["obj", "C#", 4]],
    ["add", ["bare", "E"]],
    ["add", ["bare", "C"]],
    ["add", ["str", "G", 3]],
    ["add", ["pair", "Db", 4]],
    ["add_list", [["pair", "E", 4], ["bare", "G"], ["obj", "B", 4], ["triple", "Fb", 5]]],
    ["plus_nc", [["C#", 4], ["G", 4], ["B#", 3]]],
    ["rm_name", "C"],
    ["rm_name_oct", "E", 4],
    ["rm_note", "Db", 4],
    ["minus_list", [["bare", "G"], ["obj", "B", 4]]],
    ["dedupe"],
]
ALPHABET1 = [["plus_nc", [["C", 4], ["G", 4]]], ["add_nc", [["E", 4]]], ["touch_other", 0], ["add", ["bare", "B"]], ["add", ["obj", "D", 5]],
             ["rm_name", "G"], ["empty"], ["add", ["str", "F", 4]]]
ALPHABET0 = [["add", ["pair", "C", 0]], ["add", ["obj", "E", 0]], ["add", ["str", "C", 4]], ["add", ["bare", "C"]], ["rm_name_oct", "C", 0],
             ["rm_name_oct", "E", 0], ["rm_name", "E"], ["rm_own", 0], ["rm_note", "C", 0]]


def sub_exhaustive(ctx, shard, n):
    depth = 4 if ctx.quick else 5
    seqs = (list(s) for d in range(1, depth + 1) for s in itertools.product(ALPHABET, repeat=d))
    if shard == 0:
        ctx.exhaustive("NoteContainer histories over a 12-operation alphabet", "depth <= %d" % depth,
                       sum(12 ** d for d in range(1, depth + 1)))
    ctx.enumerate("history", check_history, itertools.islice(seqs, shard, None, n), size_key=len)
    # a second small alphabet around octave 0 (where 'no octave given' and 'octave 0' must not be confused)
    seqs0 = (list(s) for d in range(1, 5) for s in itertools.product(ALPHABET0, repeat=d))
    if shard == 0:
        ctx.exhaustive("NoteContainer histories over a 9-operation alphabet around octave 0", "depth <= 4", sum(9 ** d for d in range(1, 5)))
    ctx.enumerate("history", check_history, itertools.islice(seqs0, shard, None, n), size_key=len)
    # a third alphabet around containers handed in as arguments and used again afterwards
    seqs1 = (list(s) for d in range(1, 5) for s in itertools.product(ALPHABET1, repeat=d))
    if shard == 0:
        ctx.exhaustive("NoteContainer histories over an 8-operation alphabet around argument containers", "depth <= 4", sum(8 ** d for d in range(1, 5)))
    ctx.enumerate("history", check_history, itertools.islice(seqs1, shard, None, n), size_key=len)


def _item_st(allow_bare=True, allow_lists=True):
    n = st.sampled_from(NAMES)
    o = st.sampled_from(OCTS)
    forms = [st.tuples(st.just("obj"), n, o), st.tuples(st.just("str"), n, o)]
    if allow_lists:
        forms += [st.tuples(st.just("pair"), n, o), st.tuples(st.just("triple"), n, o)]
    if allow_bare:
        forms += [st.tuples(st.just("bare"), n), st.tuples(st.just("bare"), n)]
    return st.one_of(forms).map(list)


def _ops_st():
    n = st.sampled_from(NAMES)
    o = st.sampled_from(OCTS)
    pairs = st.lists(st.tuples(n, o).map(list), min_size=0, max_size=4)
    rm_items = st.lists(st.one_of(st.tuples(st.just("bare"), n), st.tuples(st.just("obj"), n, o)).map(list), min_size=0, max_size=3)
    return st.one_of(
        st.tuples(st.just("add"), _item_st()).map(list),
        st.tuples(st.just("add"), _item_st()).map(list),
        st.tuples(st.just("add_list"), st.lists(_item_st(), min_size=0, max_size=5)).map(list),
        st.tuples(st.just("plus_list"), st.lists(_item_st(), min_size=0, max_size=5)).map(list),
        st.tuples(st.just("add_nc"), pairs).map(list),
        st.tuples(st.just("plus_nc"), pairs).map(list),
        st.tuples(st.just("plus"), _item_st(allow_lists=False)).map(list),
        st.tuples(st.just("rm_name"), n).map(list),
        st.tuples(st.just("rm_name_oct"), n, o).map(list),
        st.tuples(st.just("rm_note"), n, o).map(list),
        st.tuples(st.just("rm_list"), rm_items).map(list),
        st.tuples(st.just("minus_list"), rm_items).map(list),
        st.tuples(st.just("minus"), st.one_of(st.tuples(st.just("bare"), n), st.tuples(st.just("obj"), n, o)).map(list)).map(list),
        st.just(["dedupe"]), st.just(["sort"]), st.just(["empty"]),
        st.tuples(st.just("rm_own"), st.integers(0, 2)).map(list),
        st.tuples(st.just("touch_other"), st.integers(0, 3)).map(list),
    )


def sub_octave_line(ctx, shard, n):
    """spellings whose octave number and pitch order disagree (Cb-5 sounds below B#-4, Cbb-5 below B-4): every removal form on
    containers holding such neighbours"""
    groups = [[["Cb", 5], ["B#", 4]], [["Cbb", 5], ["B", 4]], [["Cb", 5], ["B#", 4], ["E", 5]], [["B", 3], ["Cbb", 5], ["B", 4]],
              [["Cbb", 6], ["A##", 5]], [["Cb", 1], ["B#", 0], ["C", 1]]]
    cases = []
    for g in groups:
        build = [["add", ["pair", nm, o]] for nm, o in g]
        for nm, o in g:
            cases += [build + [["rm_name_oct", nm, o]], build + [["rm_name", nm]], build + [["rm_note", nm, o]],
                      build[::-1] + [["rm_name_oct", nm, o]], build + [["rm_name_oct", nm, o], ["add", ["pair", nm, o]], ["rm_name_oct", nm, o]]]
    ctx.enumerate("history", check_history, cases)


def sub_random(ctx, shard, n):
    ctx.given("history", check_history, st.lists(_ops_st(), min_size=1, max_size=50), 1200 if ctx.quick else 6000)


def _shorthands():
    return sorted(chords.chord_shorthand.keys())


def sub_constructors(ctx, shard, n):
    roots = T.unmixed_names(2)
    shs = _shorthands()
    cases = [r + s for r in roots for s in shs][shard::n]
    if shard == 0:
        ctx.exhaustive("from_chord_shorthand: shorthands x roots", "%d shorthands x 35 roots" % len(shs), len(shs) * len(roots))
        ctx.exhaustive("from_interval_shorthand: names x shorthands x up/down", "35 x 31 (size 0..11) x 2", 35 * 31 * 2)
    ctx.enumerate("from_chord", check_from_chord, cases)
    # slash chords over each of their own notes (and over a foreign note) and polychords of chords that share notes: a name
    # that occurs twice is voiced twice
    extra = []
    for r in T.unmixed_names(1):
        for s_ in ("", "m", "7", "M7", "m7", "6"):
            try:
                ns = chords.from_shorthand(r + s_)
            except Exception:  # noqa - C06's subject
                continue
            extra += [r + s_ + "/" + b for b in ns] + [r + s_ + "/" + T.spelled(T.letter_up(r[0], 1), 0)]
            extra += [r + s_ + "|" + ns[1] + "m", ns[2] + "|" + r + s_, r + s_ + "|" + r + s_]
    def unambiguous(sh_):
        # two neighbouring chord notes of one pitch class under different names (B# over C) are left out: "at or above the
        # previous top note" and "no two notes of equal pitch" cannot both be met there
        try:
            ns_ = chords.from_shorthand(sh_)
        except Exception:  # noqa - C06's subject
            return False
        return all(a == b or T.pc(a) != T.pc(b) for a, b in zip(ns_, ns_[1:]))
    extra = [x for x in sorted(set(extra)) if unambiguous(x)][shard::n]
    if shard == 0:
        ctx.exhaustive("from_chord_shorthand: slash chords over their own notes, polychords of chords sharing notes", "21 roots x 6 shorthands", len(extra) * n)
    ctx.enumerate("from_chord", check_from_chord, extra)
    ishs = [s for s in T.INTERVAL_SHORTHANDS if 0 <= T.shorthand_size(s) <= 11]
    cases = [[r, s, up] for r in roots for s in ishs for up in (True, False)][shard::n]
    ctx.enumerate("from_interval", check_from_interval, cases)
    numerals = ["I", "II", "III", "IV", "V", "VI", "VII", "i", "iv", "vii"]
    suffixes = ["", "7", "m", "M7", "dim", "m7", "6", "sus4", "9", "dim7"]
    prefixes = ["", "b", "#", "bb"]
    cases = [[p + num + suf, key] for key in T.ALL_KEYS for num in numerals for suf in suffixes for p in prefixes][shard::n]
    if ctx.quick:
        cases = cases[::3]
    ctx.enumerate("from_progression", check_from_progression, cases)


SUBS = [
    Sub("exhaustive", sub_exhaustive, quick=8, thorough=16),
    Sub("octave_line", sub_octave_line),
    Sub("random", sub_random, quick=4, thorough=16),
    Sub("constructors", sub_constructors, quick=4, thorough=8),
]
