"""C14 - Tracks and compositions accumulate music faithfully (containers/track.py, composition.py, instrument.py)."""
import copy
import itertools
from fractions import Fraction as Fr

from hypothesis import strategies as st

from mingus.containers import Bar, Composition, Note, NoteContainer, Track
from mingus.containers.instrument import Guitar, Instrument, MidiInstrument, Piano
from mingus.containers.mt_exceptions import InstrumentRangeError, UnexpectedObjectError

from vlib import mg
from vlib.core import Sub, failed
from vlib.ref import rvalues as RV
from vlib.ref import theory as T
from vlib.ref.barmodel import BarModel, content_model

PROPERTY_ID = "C14"
RULE = ("track histories over add_notes(content form, value) / add_notes(None, value) / track + content / add_bar(empty bar "
        "with key, meter; only when the track is empty or its last bar is full), with no instrument, Instrument, Piano, Guitar "
        "or MidiInstrument attached and notes inside, on the edges of and outside each range; values from the 80-value "
        "vocabulary: every sequence up to a depth bound over a 9-operation alphabet plus seeded Hypothesis histories of up to 40 "
        "steps, compared after every step with a model (list of exact-rational bar models). from_chords over nested chord lists "
        "(depth <= 3, None = rest). Compositions of 1-4 tracks with generated selected_tracks. Non-trivial: a history that opens "
        ">= 2 bars, contains a refusal or a range error, or a rest with an instrument attached; a chord list with nesting or a "
        "split across a bar line; a composition with >= 2 tracks and a partial selection."
        " Also: every single-value fill of a track bar followed by three more items; re-attaching another instrument mid-history; an out-of-range note at every position of every content form (incl. containers edited after they were built); from_chords with a tuning attached; compositions with 'tight' tracks that refuse a quarter. from_chords with every instrument kind and with generic instruments narrowed by set_range (the first out-of-range chord raises the range error and is not placed); objects shared between the tracks of a composition are found by identity. Composition equality follows the contents (equal tracks: equal; one entry different or one track less: unequal). Rests written as empty containers through add_notes and + with every instrument kind; != asked both ways round; trailing empty bars are not counted.")
ASSUMPTIONS = ["composition equality follows the track lists (equal tracks in the same order); repaired in the repository, see KNOWN_FINDINGS.txt",
               "add_bar of a partially filled bar in the middle of a track is not generated",
               "from_chords items may be longer than a bar (they cross several bar lines; repaired in the repository, see KNOWN_FINDINGS.txt)",
               "with an instrument attached, content is given as strings, Notes, lists of those or NoteContainers"]

TOL = 1e-9
RANGES = {"none": None, "generic": (0, 96, 99), "piano": (5, 107, 99), "guitar": (40, 88, 6), "midi": (0, 107, 99)}
EDGE_NOTES = [["C", 0], ["E", 0], ["F", 0], ["Fb", 0], ["Eb", 3], ["E", 3], ["Fb", 3], ["D##", 3], ["E", 7], ["F", 7], ["Fb", 7],
              ["C", 8], ["C#", 8], ["B", 8], ["B#", 8], ["C", 9], ["Cb", 9]]
MID_NOTES = [["C", 4], ["E", 4], ["G", 4], ["Bb", 4], ["D", 5], ["F#", 5], ["A", 3], ["Eb", 5]]
METERS = [[4, 4], [3, 4], [6, 8], [2, 2], [5, 4], [2, 4], [12, 8], [7, 8], [1, 1], [3, 16], [0, 0]]


def _instr(kind):
    if kind == "none":
        return None
    if kind == "generic":
        return Instrument()
    if kind == "piano":
        return Piano()
    if kind == "guitar":
        return Guitar()
    m = MidiInstrument()
    m.instrument_nr = 25
    return m


class TrackModel(object):
    def __init__(self):
        self.bars = []  # [BarModel, key]
        self.accepted = []  # [number, content]
        self.accepted_len = Fr(0)

    def add(self, number, length, content):
        if not self.bars:
            self.bars.append([BarModel([4, 4]), "C"])
        last, key = self.bars[-1]
        if last.is_full():
            self.bars.append([BarModel(list(last.meter)), key])
        ok = self.bars[-1][0].place(number, length, content)
        if ok:
            self.accepted.append([number, content])
            self.accepted_len += length
        return ok

    def can_add_bar(self):
        return not self.bars or self.bars[-1][0].is_full()


def _compare(ctx, track, model, where):
    got = ctx.ok("get_notes", lambda: list(track.get_notes()))
    if failed(got):
        return False
    items = [[e[1], mg.nc_snapshot(e[2])] for e in got]
    if not ctx.check(items == model.accepted, "iteration/items",
                     lambda: "%s: track yields %r, accepted %r" % (where, items[-4:], model.accepted[-4:])):
        return False
    # an empty bar at the end (opened for an item that was then refused) may or may not be kept: "a rejected item changes
    # nothing" and "a new bar is opened when the last one is full" are both satisfied either way; bars that hold entries count
    def used(n_entries):
        k = len(n_entries)
        while k and n_entries[k - 1] == 0:
            k -= 1
        return k
    lib_used = used([len(b.bar) for b in track.bars])
    ctx.check(len(track) == len(track.bars) and lib_used == used([len(bm.entries) for bm, _ in model.bars]) and len(track.bars) <= max(len(model.bars), lib_used),
              "bars/count", lambda: "%s: %d bars (%d up to the last one with entries), model %d" % (where, len(track.bars), lib_used, len(model.bars)))
    total = Fr(0)
    for i, (bm, key) in enumerate(model.bars):
        if i >= len(track.bars):
            break
        b = track.bars[i]
        ctx.check(track[i] is b, "indexing", where)
        ctx.check(tuple(b.meter) == tuple(bm.meter) and b.key.key == key, "bars/key-meter",
                  lambda: "%s: bar %d has %r %r, model %r %r" % (where, i, b.key.key, b.meter, key, bm.meter))
        snap = mg.bar_snapshot(b)
        ctx.check(len(snap) == len(bm.entries), "bars/entries", lambda: "%s: bar %d has %d entries, model %d" % (where, i, len(snap), len(bm.entries)))
        for g, e in zip(snap, bm.entries):
            ctx.check(abs(g[0] - float(e[0])) <= TOL and g[1] == e[1] and g[2] == e[2], "bars/entry",
                      lambda: "%s: bar %d entry %r, model %r" % (where, i, g, e[:3]))
            total += e[3]
        if i < len(model.bars) - 1:
            ctx.check(b.is_full(), "all-but-last-full", lambda: "%s: bar %d of %d is not full" % (where, i, len(model.bars)))
    ctx.check(total == model.accepted_len, "model/self-consistency", where)
    s = sum(1.0 / e[1] for e in got)
    ctx.check(abs(s - float(model.accepted_len)) <= 1e-7, "total-length", lambda: "%s: entries sum to %r, accepted %s" % (where, s, model.accepted_len))
    integ = ctx.ok("test_integrity", track.test_integrity)
    ctx.check(failed(integ) or integ is True, "all-but-last-full/test_integrity", where)
    return True


def _apply(ctx, track, model, state, op, where, flags):
    """apply one op to track and model; returns False when the history must stop"""
    name = op[0]
    if name == "set_instr":  # another instrument is attached to the same track
        track.instrument = _instr(op[1])
        state["kind"] = op[1]
        flags.add("instrument-changed")
        return True
    kind = state["kind"]
    rng = RANGES[kind]
    if name == "add_bar":
        if not model.can_add_bar():
            return True
        key, meter = op[1], op[2]
        r = ctx.ok("add_bar", track.add_bar, Bar(key, (meter[0], meter[1])))
        model.bars.append([BarModel(meter), key])
        return not failed(r)
    if name == "rest":
        v, form, notes, arg, content = op[1], None, None, None, None
        if kind != "none":
            flags.add("rest-with-instrument")
    elif name == "add":
        form, notes, v = op[1], op[2], op[3]
    else:  # plus
        form, notes, v = op[1], op[2], [4, 0, 1, 1]
    if name != "rest":
        arg = mg.build_content(form, notes)
        denoted = mg.form_notes(form, notes)
        content = content_model(denoted)
    number, length = RV.number(v), RV.vlen(v)
    before = mg.track_snapshot(track)
    if name != "rest" and rng is not None:
        ps = [T.pitch(n, o) for (n, o) in denoted]
        if any(p < rng[0] or p > rng[1] for p in ps) or len(denoted) > rng[2]:
            flags.add("range-error")
            f = (lambda: track + arg) if name == "plus" else (lambda: track.add_notes(arg, number))
            ctx.raises("range/out-of-range", (InstrumentRangeError,), f)
            ctx.check(mg.track_snapshot(track) == before, "range/refused-changed-track", where)
            return True
    if name == "plus":
        r = ctx.ok("plus", track.__add__, arg)
    else:
        r = ctx.ok("add_notes", track.add_notes, arg, number)
    if failed(r):
        return False
    nbars = len(model.bars)
    exp = model.add(number, length, content)
    if len(model.bars) > max(nbars, 1):
        flags.add("opens-bar")
    if exp:
        return ctx.check(r is True, "accept/refused-fitting", lambda: "%s returned %r, model accepts" % (where, r))
    flags.add("refusal")
    ok = ctx.check(r is False, "accept/accepted-overflow", lambda: "%s returned %r, model refuses" % (where, r))
    # a refused item changes nothing (a freshly opened empty bar is part of "opening a bar when the last is full", not of the item)
    after = mg.track_snapshot(track)
    ctx.check([b for b in after if b] == [b for b in before if b], "refused-changed-track", where)
    return ok


def _build(kind, ops):
    """rebuild a track from a history without checking anything (for the equality clause)"""
    track = Track(_instr(kind))
    model = TrackModel()
    for op in ops:
        try:
            if op[0] == "set_instr":
                track.instrument = _instr(op[1])
                continue
            if op[0] == "add_bar":
                if model.can_add_bar():
                    track.add_bar(Bar(op[1], (op[2][0], op[2][1])))
                    model.bars.append([BarModel(op[2]), op[1]])
                continue
            if op[0] == "rest":
                arg, v, content = None, op[1], None
            else:
                arg = mg.build_content(op[1], op[2])
                v = op[3] if op[0] == "add" else [4, 0, 1, 1]
                content = content_model(mg.form_notes(op[1], op[2]))
            r = (track + arg) if op[0] == "plus" else track.add_notes(arg, RV.number(v))
            model.add(RV.number(v), RV.vlen(v), content)
        except Exception:  # noqa - range errors etc. are checked in the main run
            pass
    return track


def check_history(ctx, case):
    kind, ops = case["instr"], case["ops"]
    track = Track(_instr(kind))
    model = TrackModel()
    flags = set()
    state = {"kind": kind}
    for k, op in enumerate(ops):
        where = "step %d %r" % (k, op)
        if not _apply(ctx, track, model, state, op, where, flags):
            break
        if not _compare(ctx, track, model, where):
            break
    # equality follows the contents
    twin = _build(kind, ops)
    ctx.check((track == twin) is True and (track != twin) is False, "equality/equal-content", repr(ops[-3:]))
    if model.accepted:
        other = _build(kind, ops)
        [b for b in other.bars if len(b.bar)][-1].bar[-1][2] = NoteContainer("C-1")
        ctx.check((track == other) is False and (track != other) is True, "equality/one-entry-differs", repr(ops[-3:]))
        more = _build(kind, ops + [["add_bar", "C", [0, 0]], ["rest", [4, 0, 1, 1]], ["add", "str", [["C", 4]], [4, 0, 1, 1]]])
        if len(more.bars) != len(track.bars) or len(more.bars[-1]) != len(track.bars[-1]):
            ctx.check((track == more) is False, "equality/longer-track", repr(ops[-3:]))
            # both operators, both ways round: a track whose bars are a prefix of the other's is a different track
            ctx.check((track != more) is True and (more != track) is True and (more == track) is False, "equality/longer-track",
                      lambda: "a track and the same track continued: != gives %r / %r" % (track != more, more != track))
    fresh = Track(_instr(kind))
    if model.accepted:
        ctx.check((track != fresh) is True and (fresh != track) is True and (track == fresh) is False, "equality/empty-track",
                  lambda: "a track with entries against an empty one: != gives %r / %r" % (track != fresh, fresh != track))
    ctx.note_case(bool(flags) and len(ops) >= 2, ["history:" + f for f in sorted(flags)] + ["instr:" + kind])


# ---- range check on every content form ------------------------------------------------------------------

def check_range_forms(ctx, case):
    """one out-of-range note anywhere in the content (first, middle, last; in a list, or in a container whose notes were edited
    or replaced after it was built, so that it is no longer sorted) is refused with the range error and changes nothing"""
    kind, pos, how = case
    lo, hi, _ = RANGES[kind]
    good = [p for p in (hi - 20, hi - 12, hi - 5) if lo <= p <= hi]
    bad_pitch = hi + 7 if how != "low" else lo - 3
    if bad_pitch < 0:
        ctx.note_case(False, ["range-forms:skipped"])
        return
    notes = [Note().from_int(p) for p in good]
    bad = Note().from_int(bad_pitch)
    track = Track(_instr(kind))
    track.add_notes("C-4" if lo <= 48 <= hi else Note().from_int(lo + 1), 4)
    before = mg.track_snapshot(track)
    if how == "voiced":  # a list whose last name has no octave: the container voices it above the note before it - out of the range
        top = Note().from_int(hi - 2)
        arg = ["%s-%d" % (top.name, top.octave), bad.name] if pos % 2 == 0 else [top, bad.name]
        if not ctx.check(int(NoteContainer(list(arg))[-1]) == hi + 7 or int(NoteContainer(list(arg))[-1]) > hi, "range/harness-voicing", repr(arg)):
            return
    elif how == "list":
        arg = notes[:pos] + [bad] + notes[pos:]
    elif how == "setitem":  # a container whose note was replaced afterwards: not sorted any more
        arg = NoteContainer(notes + [Note().from_int(good[-1] + 2)])
        arg[pos] = bad
    elif how == "edited":  # a contained note edited in place
        arg = NoteContainer(notes + [Note().from_int(good[-1] + 2)])
        arg[pos].octave = bad.octave
        arg[pos].name = bad.name
    else:
        arg = NoteContainer(notes + [bad])
    ctx.raises("range/out-of-range", (InstrumentRangeError,), track.add_notes, arg, 4)
    ctx.check(mg.track_snapshot(track) == before, "range/refused-changed-track", repr(case))
    if how not in ("list", "voiced"):  # '+' takes notes, strings, containers and bars, not lists
        ctx.raises("range/out-of-range", (InstrumentRangeError,), track.__add__, arg)
        ctx.check(mg.track_snapshot(track) == before, "range/refused-changed-track", repr(case))
    ctx.note_case(True, ["range-forms:" + how])


# ---- from_chords -------------------------------------------------------------------------------------

def _flatten(x, dur, out):
    if isinstance(x, list):
        for c in x:
            _flatten(c, dur * 2, out)
    else:
        out.append([x, Fr(1) / Fr(dur)])


def _merge(seq):
    res = []
    for c, l in seq:
        if res and res[-1][0] == c:
            res[-1][1] += l
        else:
            res.append([c, l])
    return res


def check_from_chords(ctx, case):
    chordlist, dur, meter = case["chords"], case["duration"], case["meter"]
    instr = case.get("instr") or "none"
    if isinstance(instr, list):  # a generic instrument narrowed with set_range: ["narrow", lowest pitch, highest pitch]
        ins = Instrument()
        ins.set_range((Note().from_int(instr[1]), Note().from_int(instr[2])))
        lo, hi, most = instr[1], instr[2], 99
    else:
        ins = _instr(instr)
        lo, hi, most = RANGES[instr] or (None, None, None)
    track = Track(ins)
    key = case.get("key", "C") if meter is not None else "C"
    if meter is not None:
        track.add_bar(Bar(key, (meter[0], meter[1])))
    req = []
    for c in chordlist:
        _flatten(c, dur, req)
    exp_nc = [None if c is None else NoteContainer().from_chord(c) for c, _ in req]
    first_bad = None
    if lo is not None:
        for i, nc in enumerate(exp_nc):
            if nc is not None and (len(nc) > most or any(not lo <= int(n) <= hi for n in nc)):
                first_bad = i
                break
    if first_bad is not None:
        # "a note outside the attached instrument's range is refused with the range error": the chords before it are on the
        # track, the refused chord and everything after it are not
        ctx.raises("from_chords/out-of-range", (InstrumentRangeError,), track.from_chords, chordlist, dur)
        exp = _merge([[None if nc is None else mg.nc_snapshot(nc), l] for nc, (_, l) in zip(exp_nc[:first_bad], req)])
        got = _merge([[mg.nc_snapshot(e[2]), _exact_len(e[1])] for e in track.get_notes()])
        ok = len(got) == len(exp) and all(g[0] == e[0] and abs(g[1] - e[1]) <= Fr(1, 10 ** 9) for g, e in zip(got, exp))
        ctx.check(ok, "from_chords/out-of-range-chord-placed", lambda: "instrument %r, chords %r dur %r: item %d is out of range, track has %r" % (
            instr, chordlist, dur, first_bad, [(g[0], float(g[1])) for g in got]))
        ctx.note_case(True, ["from_chords:range-error"])
        return
    r = ctx.ok("from_chords", track.from_chords, chordlist, dur)
    if failed(r):
        return
    ctx.check(r is track, "from_chords/returns-track", "")
    # every bar that was opened on the way inherits key and meter of the bar before it
    want_meter = tuple(meter) if meter is not None else (4, 4)
    ctx.check(all(b.key.key == key and tuple(b.meter) == want_meter for b in track.bars), "from_chords/bars-inherit-key-and-meter",
              lambda: "started in %r %r: bars are in %r" % (key, want_meter, [(b.key.key, tuple(b.meter)) for b in track.bars]))
    exp = _merge([[None if c is None else mg.nc_snapshot(NoteContainer().from_chord(c)), l] for c, l in req])
    got = _merge([[mg.nc_snapshot(e[2]), _exact_len(e[1])] for e in track.get_notes()])
    ok = len(got) == len(exp) and all(g[0] == e[0] and abs(g[1] - e[1]) <= Fr(1, 10 ** 9) for g, e in zip(got, exp))
    ctx.check(ok, "from_chords/sequence", lambda: "instrument %r chords %r dur %r meter %r: track has %r, requested %r" % (
        instr, chordlist, dur, meter, [(g[0], float(g[1])) for g in got], [(e[0], float(e[1])) for e in exp]))
    tot = sum((e[1] for e in exp), Fr(0))
    gtot = sum((g[1] for g in got), Fr(0))
    ctx.check(abs(tot - gtot) <= Fr(1, 10 ** 9), "from_chords/total-length", lambda: "total %s, requested %s" % (float(gtot), float(tot)))
    ctx.check(all(b.is_full() for b in track.bars[:-1]), "from_chords/all-but-last-full", "")
    nested = any(isinstance(c, list) for c in chordlist)
    ctx.note_case(nested or len(track.bars) > 1, ["from_chords:nested" if nested else "from_chords:flat",
                                                   "from_chords:rest" if any(c is None for c, _ in req) else "from_chords:no-rest",
                                                   "from_chords:instr:" + (instr if isinstance(instr, str) else "narrowed")])


def check_from_chords_tuned(ctx, case):
    """with a tuning attached, from_chords places a playable fingering of every chord: same pitch classes, same lengths, same order"""
    from mingus.core import chords as _chords
    from mingus.extra import tunings
    chordlist, dur = case["chords"], case["duration"]
    tun = tunings.get_tuning("Guitar", "Standard", 6, 1)
    track = Track()
    if case.get("on_instrument"):
        track = Track(Instrument())  # wide range; the tuning is then stored on the instrument
    track.set_tuning(tun)
    ctx.check(track.get_tuning() is tun, "from_chords/tuning-not-kept", "")
    r = ctx.ok("from_chords", track.from_chords, chordlist, dur)
    if failed(r):
        return
    req = []
    for c in chordlist:
        _flatten(c, dur, req)
    exp = _merge([[None if c is None else sorted({T.pc(n) for n in _chords.from_shorthand(c)}), l] for c, l in req])
    got = _merge([[None if e[2] is None else sorted({T.pc(n.name) for n in e[2]}), _exact_len(e[1])] for e in track.get_notes()])
    ok = len(got) == len(exp) and all(g[0] == e[0] and abs(g[1] - e[1]) <= Fr(1, 10 ** 9) for g, e in zip(got, exp))
    ctx.check(ok, "from_chords/tuned-sequence", lambda: "chords %r dur %r: track has %r, requested %r" % (
        chordlist, dur, [(g[0], float(g[1])) for g in got], [(e[0], float(e[1])) for e in exp]))
    for e in track.get_notes():
        if e[2] is not None:
            ctx.check(1 <= len(e[2]) <= 6, "from_chords/tuned-too-many-notes", lambda: repr(e[2]))
    # every placed chord is an entry of its own: raising the whole track by a semitone raises each entry exactly once
    before = [None if e[2] is None else sorted(int(n) for n in e[2]) for e in track.get_notes()]
    if not failed(ctx.ok("augment", track.augment)):
        after = [None if e[2] is None else sorted(int(n) for n in e[2]) for e in track.get_notes()]
        ctx.check(after == [None if b is None else [p + 1 for p in b] for b in before], "from_chords/tuned-entries-share-notes",
                  lambda: "chords %r: pitches %r, after augmenting the track %r" % (chordlist, before, after))
    ctx.note_case(True, ["from_chords:tuned"])


def _exact_len(value):
    return Fr(1) / Fr(value).limit_denominator(10 ** 6)


# ---- compositions ------------------------------------------------------------------------------------

def check_composition(ctx, case):
    ntracks, ops = case["tracks"], case["ops"]
    comp = Composition()
    tracks = []
    models = []  # per track: TrackModel
    sel = []
    flags = set()
    kept, handed = [], set()  # the caller's own argument objects (kept alive so that identities stay meaningful)
    for k, op in enumerate(ops):
        where = "step %d %r" % (k, op)
        name = op[0]
        if name in ("add_track", "plus_track", "add_tight_track"):
            if len(tracks) >= ntracks:
                continue
            t = Track()
            m = TrackModel()
            if name == "add_tight_track":  # a 3/8 bar holding one quarter: an eighth is free, the bar is not full, a quarter is refused
                b = Bar("C", (3, 8))
                b.place_notes("C-4", 4)
                t.add_bar(b)
                bm = BarModel([3, 8])
                bm.place(4, Fr(1, 4), [["C", 4]])
                m.bars.append([bm, "C"])
                m.accepted.append([4, [["C", 4]]])
                m.accepted_len += Fr(1, 4)
                flags.add("refusing-track")
            r = ctx.ok(name, comp.__add__ if name == "plus_track" else comp.add_track, t)
            if failed(r):
                return
            tracks.append(t)
            models.append(m)
            sel = [len(tracks) - 1]
            ctx.check(list(comp.selected_tracks) == sel, "composition/selects-new-track", where)
        elif name == "select":
            if not tracks:
                continue
            sel = []
            for i in op[1]:  # keep the caller's order, without repeats
                if i % len(tracks) not in sel:
                    sel.append(i % len(tracks))
            # ordinary Python indices: some of them may be written from the end (-1 = the last track)
            neg = op[2] if len(op) > 2 else 0
            comp.selected_tracks = [i - len(tracks) if (neg >> k_) & 1 else i for k_, i in enumerate(sel)]
            if any(x < 0 for x in comp.selected_tracks):
                flags.add("negative-selection-index")
            if 0 < len(sel) < len(tracks):
                flags.add("partial-selection")
        elif name in ("add_note", "plus_note"):
            if not tracks:
                continue
            form, notes = op[1], op[2]
            arg = mg.build_content(form, notes)
            kept.append(arg)
            for o in ([arg] + list(arg) if isinstance(arg, (list, NoteContainer)) else [arg]):
                if isinstance(o, (Note, NoteContainer)):
                    handed.add(id(o))
            before = [mg.track_snapshot(t) for t in tracks]
            r = ctx.ok(name, comp.add_note if name == "add_note" else comp.__add__, arg)
            if failed(r):
                return
            content = content_model(mg.form_notes(form, notes))
            for i, t in enumerate(tracks):
                if i in sel:
                    models[i].add(4, Fr(1, 4), content)
                    got = [[e[1], mg.nc_snapshot(e[2])] for e in t.get_notes()]
                    ctx.check(got == models[i].accepted, "composition/selected-track-missed",
                              lambda: "%s: track %d holds %r, expected %r" % (where, i, got[-3:], models[i].accepted[-3:]))
                else:
                    ctx.check([b for b in mg.track_snapshot(t) if b] == [b for b in before[i] if b], "composition/unselected-track-changed",
                              lambda: "%s: track %d" % (where, i))
        elif name == "bad":
            obj = {"int": 3, "str": "track", "none": None, "note": Note("C", 4), "bar": Bar()}[op[1]]
            n0 = len(comp)
            ctx.raises("composition/non-track", (UnexpectedObjectError,), comp.add_track, obj)
            ctx.check(len(comp) == n0, "composition/non-track-changed", where)
        ctx.check(len(comp) == len(tracks) and len(comp.tracks) == len(tracks), "composition/len", where)
        for i, t in enumerate(tracks):
            ctx.check(comp[i] is t, "composition/indexing", where)
    # what reached several tracks belongs to each of them separately: changing one track's notes leaves the other tracks alone
    # (asserted for notes given as text; a Note / NoteContainer object handed in by the caller is the caller's own object and
    # may legitimately sit in several tracks)
    handed_in = any(op[0] in ("add_note", "plus_note") and op[1] in ("note", "listnote", "nc") for op in ops)
    for i, t in enumerate(tracks if not handed_in else []):
        others = [mg.track_snapshot(x) for j, x in enumerate(tracks) if j != i]
        ctx.ok("augment", t.augment)
        now = [mg.track_snapshot(x) for j, x in enumerate(tracks) if j != i]
        ctx.check(now == others, "composition/tracks-share-notes",
                  lambda: "augmenting track %d changed another track: %r -> %r" % (i, others, now))
    # the same by identity, whatever forms were used: an object that sits in two tracks is one the caller handed in
    seen = {}
    for i, t in enumerate(tracks):
        for e in t.get_notes():
            for o in ([e[2]] + list(e[2]) if e[2] is not None else []):
                j = seen.setdefault(id(o), i)
                if j != i and id(o) not in handed:
                    flags.add("shared")
                    ctx.check(False, "composition/tracks-share-notes",
                              lambda: "tracks %d and %d hold the same %s object %r, which the caller did not hand in (ops %r)" % (
                                  j, i, type(o).__name__, o, ops))
    ctx.check(comp == comp, "composition/equals-itself", "")
    # equality follows the contents: a separately built composition holding equal tracks is equal, one that differs in one
    # entry, or holds one track less, is not
    twin = Composition()
    for t in tracks:
        twin.add_track(copy.deepcopy(t))
    eq, ne = ctx.ok("==", lambda: comp == twin), ctx.ok("!=", lambda: comp != twin)
    ctx.check(eq is True and ne is False, "composition/equality/equal-content",
              lambda: "two compositions with equal tracks: == gives %r, != gives %r" % (eq, ne))
    if tracks:
        other = Composition()
        ctx.check(not (comp == other), "composition/equals-empty", "")
        filled = [t for t in twin.tracks if any(len(b.bar) for b in t.bars)]
        if filled:
            [b for b in filled[-1].bars if len(b.bar)][-1].bar[-1][2] = NoteContainer("C-1")
            ctx.check((comp == twin) is False and (comp != twin) is True, "composition/equality/one-entry-differs", repr(ops[-3:]))
        shorter = Composition()
        for t in tracks[:-1]:
            shorter.add_track(copy.deepcopy(t))
        ctx.check((comp == shorter) is False and (comp != shorter) is True, "composition/equality/one-track-less", repr(ops[-3:]))
    ctx.note_case(len(tracks) >= 2 and bool(flags), ["composition:%d-tracks" % len(tracks)] + ["composition:" + f for f in sorted(flags)])


CHECKS = {"range_forms": check_range_forms, "history": check_history, "from_chords": check_from_chords, "from_chords_tuned": check_from_chords_tuned, "composition": check_composition}

ALPHABET = [
    ["add", "str", [["C", 4]], [4, 0, 1, 1]],
    ["add", "liststr", [["E", 4], ["G", 4]], [2, 0, 1, 1]],
    ["add", "note", [["E", 3]], [4, 1, 1, 1]],
    ["add", "nc", [["Eb", 3], ["G", 4]], [4, 0, 1, 1]],
    ["add", "str", [["C", 9]], [8, 0, 1, 1]],
    ["rest", [4, 0, 1, 1]],
    ["rest", [1, 0, 1, 1]],
    ["plus", "note", [["A", 4]]],
    ["add_bar", "eb", [3, 4]],
]


def sub_exhaustive(ctx, shard, n):
    depth = 4 if ctx.quick else 5
    kinds = ["none", "guitar", "piano"] if ctx.quick else ["none", "guitar", "piano", "generic", "midi"]
    seqs = (list(s) for d in range(1, depth + 1) for s in itertools.product(ALPHABET, repeat=d))
    if shard == 0:
        ctx.exhaustive("track histories over a 9-operation alphabet", "depth <= %d x instruments %r" % (depth, kinds),
                       sum(9 ** d for d in range(1, depth + 1)) * len(kinds))
    cases = ({"instr": k, "ops": s} for s in itertools.islice(seqs, shard, None, n) for k in kinds)
    ctx.enumerate("history", check_history, cases, size_key=lambda c: len(c["ops"]))


def _notes_st(kind):
    pool = MID_NOTES + EDGE_NOTES if kind != "none" else MID_NOTES + EDGE_NOTES[:4]
    return st.lists(st.sampled_from(pool), min_size=1, max_size=3, unique_by=lambda x: T.pitch(x[0], x[1]))


def _history_st():
    def ops(kind):
        forms = ["str", "note", "liststr", "listnote", "nc", "bare"] + ([] if kind != "none" else ["listpair"])
        v = st.sampled_from(RV.VOCAB) | st.sampled_from([x for x in RV.VOCAB if 1 <= x[0] <= 16 and x[1] <= 1])
        op = st.one_of(
            st.tuples(st.just("add"), st.sampled_from(forms), _notes_st(kind), v).map(list),
            st.tuples(st.just("add"), st.sampled_from(forms), st.lists(st.sampled_from(MID_NOTES), min_size=1, max_size=3,
                                                                      unique_by=lambda x: T.pitch(x[0], x[1])), v).map(list),
            st.tuples(st.just("rest"), v).map(list),
            st.tuples(st.just("plus"), st.sampled_from(["str", "note", "nc", "bare"]), _notes_st(kind)).map(list),
            st.tuples(st.just("add_bar"), st.sampled_from(T.ALL_KEYS), st.sampled_from(METERS)).map(list),
            st.tuples(st.just("set_instr"), st.sampled_from(["piano", "guitar", "generic", "midi", "none"] if kind != "none" else ["none"])).map(list),
        )
        return st.fixed_dictionaries({"instr": st.just(kind), "ops": st.lists(op, min_size=1, max_size=40)})
    return st.sampled_from(list(RANGES)).flatmap(ops)


def sub_random(ctx, shard, n):
    ctx.given("history", check_history, _history_st(), 400 if ctx.quick else 6000)


def sub_empty_containers(ctx, shard, n):
    """a rest written as an empty container, through add_notes and through '+', with and without an instrument, alone and between notes"""
    c4 = [["C", 4]]
    cases = []
    for kind in RANGES:
        for how in ("plus", "add"):
            rest = ["plus", "emptync", []] if how == "plus" else ["add", "emptync", [], [4, 0, 1, 1]]
            for ops in ([rest], [rest, ["plus", "str", c4]], [["add", "str", c4, [2, 0, 1, 1]], rest, rest, ["add", "note", c4, [4, 0, 1, 1]], rest],
                        [rest] * 5 + [["plus", "str", c4]]):
                cases.append({"instr": kind, "ops": ops})
    ctx.enumerate("history", check_history, cases)


def sub_long_names(ctx, shard, n):
    """single notes written as text with four to six accidentals (more than six characters): inside the range they are accepted,
    outside refused, with every instrument kind and through both entry points"""
    cases = []
    for kind in RANGES:
        for nm, o in (("Ebbbb", 4), ("C####", 4), ("B#####", 3), ("Abbbbbb", 5), ("Fbbbb", 9), ("C####", 0), ("Gbbbbb", 3)):
            for how in ("add", "plus"):
                op = ["add", "str", [[nm, o]], [4, 0, 1, 1]] if how == "add" else ["plus", "str", [[nm, o]]]
                cases.append({"instr": kind, "ops": [["add", "str", [["A", 4]], [4, 0, 1, 1]], op, ["add", "note", [[nm, o]], [8, 0, 1, 1]]]})
    ctx.enumerate("history", check_history, cases)


def sub_range_forms(ctx, shard, n):
    cases = [[k, pos, how] for k in ("generic", "piano", "guitar", "midi") for pos in (0, 1, 2) for how in ("list", "setitem", "edited", "nc", "low", "voiced")]
    ctx.exhaustive("out-of-range note at every position of every content form", "4 instruments x 3 positions x 6 forms", len(cases))
    ctx.enumerate("range_forms", check_range_forms, cases)


def sub_fills(ctx, shard, n):
    """every single-value fill of a bar to exact capacity, followed by more items: the next item must open a new bar"""
    cases = []
    for m in METERS[:-1] + [[4, 2], [9, 8], [5, 8], [3, 8], [6, 4]]:
        L = Fr(m[0], m[1])
        for v in RV.VOCAB:
            k = L / RV.vlen(v)
            if k.denominator == 1 and 1 <= k <= (100 if ctx.quick else 300):
                ops = [["add_bar", "g", m]] + [["add", "str", [["C", 4]], v]] * int(k) + \
                      [["add", "note", [["E", 4]], v], ["rest", v], ["plus", "str", [["G", 4]]]]
                cases.append({"instr": "none", "ops": ops})
    if shard == 0:
        ctx.exhaustive("track: single-value fills to exact capacity, then three more items", "16 meters x 80 values, k <= %d" % (100 if ctx.quick else 300), len(cases))
    ctx.enumerate("history", check_history, cases[shard::n], size_key=lambda c: len(c["ops"]))


CHORDS = ["C", "Am", "G7", "Dm7", "F#dim", "Ebmaj7", "Bb6", "E7#9", "Asus4", "Db", "Gm7b5", "B"]


def _chordlist_st():
    leaf = st.sampled_from(CHORDS) | st.none()
    nested = st.recursive(leaf, lambda ch: st.lists(ch, min_size=1, max_size=3), max_leaves=6)
    return st.lists(nested, min_size=1, max_size=6)


def sub_from_chords(ctx, shard, n):
    combos = [[1, None], [2, None], [4, None], [1, [4, 4]], [2, [3, 4]], [4, [3, 4]], [2, [6, 8]], [1, [5, 4]], [1, [2, 2]],
              [2, [2, 4]], [4, [2, 4]], [4, [1, 4]], [1, [12, 8]], [2, [2, 2]],
              # items longer than a bar: they cross several bar lines
              [1, [3, 8]], [1, [1, 4]], [1, [2, 4]], [2, [1, 4]], [1, [3, 16]], [0.5, [3, 4]], [1, [3, 4]], [2, [1, 8]]]
    instrs = st.sampled_from(["none", "none", "generic", "piano", "guitar", "midi", ["narrow", 48, 64], ["narrow", 48, 72], ["narrow", 16, 43],
                              ["narrow", 50, 96], ["narrow", 48, 67]])
    strat = st.tuples(_chordlist_st(), st.sampled_from(combos), st.sampled_from(T.ALL_KEYS), instrs).map(
        lambda t: {"chords": t[0], "duration": t[1][0], "meter": t[1][1], "key": t[2], "instr": t[3]})
    ctx.enumerate("from_chords", check_from_chords, [
        {"chords": ["C", None, "G7", None], "duration": 1, "meter": None},
        {"chords": [["C"], None], "duration": 1, "meter": None},
        {"chords": [["C", None], ["G7", [None, "Am"]]], "duration": 1, "meter": None},
        {"chords": ["C", "F", "G"], "duration": 2, "meter": [3, 4]},
        {"chords": [None, None, "C"], "duration": 1, "meter": [5, 4]},
        {"chords": ["C", "F", "G", "C"], "duration": 2, "meter": [3, 4], "key": "eb"},
        {"chords": ["Am", None, "E7"], "duration": 1, "meter": [6, 8], "key": "F#"},
        {"chords": ["C"], "duration": 1, "meter": [3, 8]}, {"chords": ["C", "G"], "duration": 1, "meter": [1, 4]},
        {"chords": [None, "C"], "duration": 1, "meter": [2, 4]}, {"chords": [["C", "G"], "Am"], "duration": 1, "meter": [3, 8], "key": "Bb"},
        {"chords": ["C"], "duration": 1, "meter": [3, 16]}, {"chords": ["C", None], "duration": 0.5, "meter": [1, 4]},
    ] + [{"chords": ch, "duration": d, "meter": m, "instr": i}
         for ch in (["C", "Am", "G7"], [None, "C", ["F", "B"]], ["E7#9"], ["C", None, "Db"])
         for d, m in ((1, None), (2, [3, 4])) for i in ("generic", "piano", "guitar", "midi", ["narrow", 48, 64], ["narrow", 16, 43], ["narrow", 48, 72])])
    ctx.given("from_chords", check_from_chords, strat, 300 if ctx.quick else 10000)
    tuned = st.fixed_dictionaries({"chords": st.lists(st.recursive(st.sampled_from(["C", "Am", "G7", "Em", "D", "F", "Dm7", "E7"]) | st.none(),
                                                                   lambda c: st.lists(c, min_size=1, max_size=2), max_leaves=4), min_size=1, max_size=4),
                                   "duration": st.sampled_from([1, 2, 4]), "on_instrument": st.booleans()})
    ctx.given("from_chords_tuned", check_from_chords_tuned, tuned, 60 if ctx.quick else 600)
    ctx.enumerate("from_chords_tuned", check_from_chords_tuned, [{"chords": ch, "duration": d, "on_instrument": oi} for ch in (["C", "G", "C"], ["Am", "Am"], [["E7", "E7"], "Am"], ["D", None, "D"])
                                                                 for d in (1, 2, 4) for oi in (False, True)])


def _comp_st():
    form = st.sampled_from(["str", "note", "nc", "bare"])
    notes = st.lists(st.sampled_from(MID_NOTES), min_size=1, max_size=3, unique_by=lambda x: T.pitch(x[0], x[1]))
    op = st.one_of(
        st.just(["add_track"]), st.just(["plus_track"]), st.just(["add_tight_track"]),
        st.tuples(st.just("select"), st.lists(st.integers(0, 7), min_size=0, max_size=4), st.sampled_from([0, 0, 1, 2, 3, 15])).map(list),
        st.tuples(st.just("add_note"), form, notes).map(list),
        st.tuples(st.just("plus_note"), form, notes).map(list),
        st.tuples(st.just("add_note"), form, notes).map(list),
        st.tuples(st.just("bad"), st.sampled_from(["int", "str", "none", "note", "bar"])).map(list),
    )
    return st.fixed_dictionaries({"tracks": st.integers(1, 4),
                                  "ops": st.lists(op, min_size=1, max_size=30).map(lambda o: [["add_track"]] + o)})


def sub_composition(ctx, shard, n):
    ctx.enumerate("composition", check_composition, [
        {"tracks": k, "ops": [["add_track"]] * k + [["select", list(range(k)), neg]] + [[how, form, notes]] * reps}
        for k in (2, 3, 4) for neg in (0, 1) for how in ("add_note", "plus_note") for reps in (1, 2)
        for form, notes in (("str", [["C", 4]]), ("bare", [["E", 4]]), ("str", [["Bb", 3]]))])  # '+' takes no lists
    ctx.given("composition", check_composition, _comp_st(), 400 if ctx.quick else 5000)


SUBS = [
    Sub("exhaustive", sub_exhaustive, quick=8, thorough=16),
    Sub("random", sub_random, quick=4, thorough=16),
    Sub("fills", sub_fills, quick=4, thorough=16),
    Sub("range_forms", sub_range_forms),
    Sub("empty_containers", sub_empty_containers),
    Sub("long_names", sub_long_names),
    Sub("from_chords", sub_from_chords, quick=1, thorough=4),
    Sub("composition", sub_composition, quick=1, thorough=4),
]
