"""C18 - sequencer playback emits a balanced, ordered, correctly timed event stream (midi/sequencer.py, sequencer_observer.py)."""
from collections import Counter
from fractions import Fraction as Fr

from hypothesis import strategies as st

from mingus.containers import Note
from mingus.containers.instrument import MidiInstrument
from mingus.midi.sequencer import Sequencer
from mingus.midi.sequencer_observer import SequencerObserver

from vlib import mg
from vlib.core import Sub, failed
from vlib.ref import rvalues as RV
from vlib.ref import scoregen as SG
from vlib.ref import theory as T

PROPERTY_ID = "C18"
RULE = ("R-score notes, containers, bars and tracks played through play_Note/NoteContainer/Bar/Track, and 1-4 parallel bars, tracks "
        "or a composition played through play_Bars/Tracks/Composition, in two generated classes: aligned (all parallel bars share "
        "one rhythm and fill the bar) and free (independent rhythms, possibly short bars); chords, rests, tempo-carrying containers, "
        "channels 0-15, velocities, bpm 30-300, instruments none / generic / MidiInstrument (known and unknown name); observers "
        "attached 0, 1 or 2 times or detached; control changes with control/value in -5..135. A recording Sequencer subclass and a "
        "recording SequencerObserver give the trace; cumulative sleep is mapped back to musical time through the model's tempo "
        "segments and the timed on/off multiset, per-(pitch, channel) balance, on-order (sequential API), total sleep, instrument "
        "announcements, observer trace and return value are compared with the model. Non-trivial: a case with a chord and a rest, "
        "a tempo change, or >= 2 parallel parts; a refused control change."
        ' Also: pitches up to 135 (octaves 0-10), tempo marks on empty containers, twin bars, a second pass of the same music on the same sequencer must emit the same events; chords that are not in ascending order, entries held in a user subclass of NoteContainer and tracks on a user subclass of MidiInstrument; control numbers / values that are no integers and lie just outside 0..128; play_Bar / play_Track called positionally, by keyword and with the documented defaults (120 bpm). Tracks of one-entry bars in every meter; the return value is a dict whose bpm entry is the final tempo.')
ASSUMPTIONS = ["in parallel playback tempo-carrying containers are generated in the first part only (two simultaneous tempo changes "
               "have no stated winner)", "parallel parts have the same number of bars, the same meter per bar index and >= 1 entry per bar",
               "MidiInstrument cases have instrument_nr == names.index(name) (unknown name: instrument_nr 1), so 'the MIDI instrument's "
               "program' is unambiguous", "the order of simultaneous events is constrained only by the per-(pitch, channel) balance "
               "and, for the sequential API, by the order of notes"]

REL = 1e-9


class Rec(Sequencer):
    def init(self):
        self.log = []

    def play_event(self, note, channel, velocity):
        self.log.append(("on", note, channel, velocity))

    def stop_event(self, note, channel):
        self.log.append(("off", note, channel))

    def sleep(self, seconds):
        self.log.append(("sleep", seconds))

    def instr_event(self, channel, instr, bank):
        self.log.append(("instr", channel, instr, bank))

    def cc_event(self, channel, control, value):
        self.log.append(("cc", channel, control, value))


class Obs(SequencerObserver):
    def __init__(self):
        self.log = []
        self.high = Counter()

    def play_int_note_event(self, int_note, channel, velocity):
        self.log.append(("on", int_note, channel, velocity))

    def stop_int_note_event(self, int_note, channel):
        self.log.append(("off", int_note, channel))

    def sleep(self, seconds):
        self.log.append(("sleep", seconds))

    def instr_event(self, channel, instr, bank):
        self.log.append(("instr", channel, instr, bank))

    def cc_event(self, channel, control, value):
        self.log.append(("cc", channel, control, value))

    def play_Note(self, note, channel, velocity):
        self.high["play_Note"] += 1

    def stop_Note(self, note, channel):
        self.high["stop_Note"] += 1


def _setup(mode):
    """observer modes: none | once | twice (same observer attached twice) | detached | two (two observers)"""
    # a second sequencer with an observer of its own exists all along: it plays nothing, so it and its observer must see nothing
    sib = Rec()
    sib_obs = Obs()
    sib.attach(sib_obs)
    s = Rec()
    s.sibling = (sib, sib_obs)
    obs = []
    if mode in ("once", "twice", "detached", "two"):
        o = Obs()
        s.attach(o)
        obs.append(o)
        if mode == "twice":
            s.attach(o)
        if mode == "detached":
            s.detach(o)
        if mode == "two":
            o2 = Obs()
            s.attach(o2)
            obs.append(o2)
    return s, obs


def _check_observers(ctx, s, obs, mode):
    sib, sib_obs = s.sibling
    ctx.check(sib.log == [] and sib_obs.log == [] and not sib_obs.high, "observer/another-sequencer-notified",
              lambda: "a sequencer that played nothing logged %r; its observer received %r" % (sib.log[:4], sib_obs.log[:4]))
    for o in obs:
        if mode == "detached":
            ctx.check(o.log == [] and not o.high, "observer/detached-still-notified", lambda: repr(o.log[:5]))
        else:
            ctx.check(o.log == s.log, "observer/trace-differs", lambda: "hooks %r ... observer %r ..." % (
                s.log[:8], o.log[:8]) if len(o.log) == len(s.log) else "hooks saw %d events, observer %d" % (len(s.log), len(o.log)))
            ons = sum(1 for e in s.log if e[0] == "on")
            offs = sum(1 for e in s.log if e[0] == "off")
            ctx.check(o.high["play_Note"] == ons and o.high["stop_Note"] == offs, "observer/note-callbacks",
                      lambda: "%r for %d on / %d off" % (dict(o.high), ons, offs))


# ---- model -------------------------------------------------------------------------------------------

def _timeline(parts, bpm0, tempo_part=0):
    """parts = list of entry lists laid end to end from time 0.
    -> (events [(time Fr, kind, pitch+12, channel, velocity|None)], tempo segments [(time, bpm)], end time, final bpm, on-order)"""
    evs = []
    segs = [(Fr(0), bpm0)]
    end = Fr(0)
    for k, entries in enumerate(parts):
        t = Fr(0)
        for e in entries:
            ln = RV.vlen(e["v"])
            if e["notes"]:
                for (n, o, c, vel) in e["notes"]:
                    evs.append((t, "on", T.pitch(n, o) + 12, c, vel))
                    evs.append((t + ln, "off", T.pitch(n, o) + 12, c, None))
            if "bpm" in e and k == tempo_part:  # also on an empty container: a tempo mark on a silent beat
                segs.append((t, e["bpm"]))
            t += ln
        end = max(end, t)
    segs.sort(key=lambda x: x[0])
    return evs, segs, end


def _seconds(segs, end):
    total = 0.0
    for (t0, bpm), nxt in zip(segs, segs[1:] + [(end, None)]):
        total += float(nxt[0] - t0) * 240.0 / bpm
    return total


def _validate(ctx, log, sets, bpm0, what, sequential):
    """sets = list of parallel part-sets played one after the other; each set is a list of entry lists"""
    # expected events / tempo segments on one global musical time axis
    evs, segs, offset = [], [], Fr(0)
    bpm = bpm0
    for parts in sets:
        e, s, end = _timeline(parts, bpm)
        evs += [(t + offset,) + tuple(rest) for (t, *rest) in e]
        segs += [(t + offset, b) for (t, b) in s]
        bpm = s[-1][1]
        offset += end
    final_bpm = bpm
    # seconds at which each segment starts
    starts = []
    acc = 0.0
    for (t0, b), nxt in zip(segs, segs[1:] + [(offset, None)]):
        starts.append(acc)
        acc += float(nxt[0] - t0) * 240.0 / b
    total_s = acc

    def to_time(sec):
        k = 0
        while k + 1 < len(segs) and starts[k + 1] <= sec + 1e-10:
            k += 1
        return float(segs[k][0]) + (sec - starts[k]) * segs[k][1] / 240.0

    got = []
    sec = 0.0
    balance = Counter()
    order = []
    for e in log:
        if e[0] == "sleep":
            if not ctx.check(e[1] >= 0, "sleep/negative", lambda: "%s: sleep(%r)" % (what, e[1])):
                return final_bpm
            sec += e[1]
        elif e[0] == "on":
            got.append((_q(to_time(sec)), "on", e[1], e[2], e[3]))
            balance[(e[1], e[2])] += 1
            order.append((e[1], e[2], e[3]))
        elif e[0] == "off":
            got.append((_q(to_time(sec)), "off", e[1], e[2], None))
            balance[(e[1], e[2])] -= 1
            ctx.check(balance[(e[1], e[2])] >= 0, "balance/stop-without-play", lambda: "%s: stop of %r that is not sounding" % (what, e[1:]))
    ctx.check(all(v == 0 for v in balance.values()), "balance/left-sounding", lambda: "%s: %r" % (what, {k: v for k, v in balance.items() if v}))
    exp = sorted((int(t / RV.QUANTUM), k, p, c, v) for (t, k, p, c, v) in evs)
    gs = sorted(got, key=lambda x: (x[0], x[1], x[2], x[3], -1 if x[4] is None else x[4]))
    exp = sorted(exp, key=lambda x: (x[0], x[1], x[2], x[3], -1 if x[4] is None else x[4]))
    if gs != exp:
        cg, ce = Counter(gs), Counter(exp)
        extra = sorted((cg - ce).elements(), key=repr)[:5]
        missing = sorted((ce - cg).elements(), key=repr)[:5]
        kinds = sorted({x[1] for x in extra + missing})
        ctx.fail("events/%s" % "+".join(kinds), "%s: unexpected (time in 1/215040 whole notes, kind, note, channel, velocity) %r, missing %r" % (what, extra, missing))
    ctx.check(abs(sec - total_s) <= REL * max(1.0, total_s) + 1e-9, "sleep/total",
              lambda: "%s: slept %r s, the music lasts %r s" % (what, sec, total_s))
    if sequential:
        exp_order = [(p, c, v) for (t, k, p, c, v) in evs if k == "on"]
        ctx.check(order == exp_order, "order/play-events", lambda: "%s: %r vs %r" % (what, order[:8], exp_order[:8]))
    return final_bpm


def _q(t):
    """musical time in vocabulary quanta (1/215040 whole note); every event time is a whole number of them"""
    return int(round(t * 215040))


def _entries(bd):
    return bd["entries"]


# ---- checks ------------------------------------------------------------------------------------------

def check_sequential(ctx, case):
    kind, bpm, mode = case["kind"], case["bpm"], case["obs"]
    s, obs = _setup(mode)
    if kind == "note":
        n = case["notes"][0]
        note = Note(n[0], n[1], channel=n[2], velocity=n[3])
        r1 = ctx.ok("play_Note", s.play_Note, note, 5, 33)
        r2 = ctx.ok("stop_Note", s.stop_Note, note, 7)
        ctx.check(r1 is True and r2 is True, "return/note", repr((r1, r2)))
        p = T.pitch(n[0], n[1]) + 12
        ctx.check(s.log == [("on", p, n[2], n[3]), ("off", p, n[2])], "events/note", lambda: repr(s.log))
        _check_observers(ctx, s, obs, mode)
        ctx.note_case(True, ["seq:note"])
        return
    if kind == "nc":
        nc = mg.build_nc(case["notes"])
        r1 = ctx.ok("play_NoteContainer", s.play_NoteContainer, nc, 3, 44)
        r2 = ctx.ok("stop_NoteContainer", s.stop_NoteContainer, nc, 9)
        ctx.check(r1 is True and r2 is True, "return/container", repr((r1, r2)))
        exp = [("on", T.pitch(n[0], n[1]) + 12, n[2], n[3]) for n in case["notes"]]
        ons = [e for e in s.log if e[0] == "on"]
        offs = sorted(e for e in s.log if e[0] == "off")
        ctx.check(ons == exp, "events/container-on", lambda: "%r vs %r" % (ons, exp))
        ctx.check(offs == sorted(("off", e[1], e[2]) for e in exp), "events/container-off", lambda: repr(offs))
        ctx.check(s.log[:len(exp)] == exp, "order/container", lambda: repr(s.log))
        _check_observers(ctx, s, obs, mode)
        ctx.note_case(len(exp) > 1, ["seq:nc"])
        return
    form = case.get("form", "pos")
    if form == "default":
        bpm = 120  # channel and tempo left to the documented defaults (channel 1, 120 bpm); notes keep their own channel anyway

    def call(name, obj):
        f_ = getattr(s, name)
        if form == "default":
            return ctx.ok(name, f_, obj)
        if form == "kw":
            return ctx.ok(name, lambda: f_(obj, bpm=bpm, channel=4))
        return ctx.ok(name, f_, obj, 4, bpm)
    if kind == "bar":
        bd = case["bar"]
        r = call("play_Bar", mg.build_bar(bd))
        sets = [[_entries(bd)]]
        f = SG.features({"name": None, "instr": None, "bars": [bd]})
    else:
        td = case["track"]
        r = call("play_Track", mg.build_track(td))
        sets = [[_entries(b)] for b in td["bars"]]
        f = SG.features(td)
    if failed(r):
        return
    final = _validate(ctx, s.log, sets, bpm, kind, True)
    ctx.check(isinstance(r, dict) and r.get("bpm") == final, "return/final-tempo", lambda: "%r, expected bpm %r" % (r, final))
    _check_observers(ctx, s, obs, mode)
    # the same sequencer plays the same music again: the second pass emits the same events
    first = list(s.log)
    if kind == "bar":
        call("play_Bar", mg.build_bar(case["bar"]))
    else:
        call("play_Track", mg.build_track(case["track"]))
    ctx.check(s.log[len(first):] == first, "replay/second-pass-differs", lambda: "first pass %d events, second pass %d" % (len(first), len(s.log) - len(first)))
    ctx.note_case(("chord" in f and "rest" in f) or "tempo-change" in f, ["seq:%s" % kind] + ["seq:" + x for x in sorted(f)] + ["obs:" + mode])


def check_parallel(ctx, case):
    kind, bpm, mode, tracks = case["kind"], case["bpm"], case["obs"], case["tracks"]
    k = len(tracks)
    channels = case["channels"][:k]
    s, obs = _setup(mode)
    nb = len(tracks[0]["bars"])
    sets = [[_entries(t["bars"][i]) for t in tracks] for i in range(nb)]
    if kind == "bars":
        bars = [mg.build_bar(t["bars"][0]) for t in tracks]
        r = ctx.ok("play_Bars", s.play_Bars, bars, channels, bpm)
        sets = sets[:1]
        log = s.log
    else:
        built = [mg.build_track(t) for t in tracks]
        if kind == "tracks":
            r = ctx.ok("play_Tracks", s.play_Tracks, built, channels, bpm)
        else:
            from mingus.containers import Composition
            comp = Composition()
            for t in built:
                comp.add_track(t)
            if case.get("default_channels"):
                channels = [x + 1 for x in range(k)]
                r = ctx.ok("play_Composition", s.play_Composition, comp, None, bpm)
            else:
                r = ctx.ok("play_Composition", s.play_Composition, comp, channels, bpm)
        if failed(r):
            return
        # instrument announcements come first: one per track on its channel
        head = s.log[:k]
        exp = []
        for t, ch in zip(tracks, channels):
            prog = 1
            if t["instr"] and t["instr"]["kind"] == "midi":
                prog = t["instr"]["nr"]
            exp.append((ch, prog))
        got = [(e[1], e[2]) for e in head if e[0] == "instr"]
        ctx.check(got == exp, "instrument/announcement", lambda: "first events %r, expected (channel, program) %r" % (head, exp))
        ctx.check(not any(e[0] == "instr" for e in s.log[k:]), "instrument/extra", "")
        log = [e for e in s.log if e[0] != "instr"]
        # the same tracks played once more after their instruments were renamed: the announcements follow the new names
        n1 = len(s.log)
        exp2 = []
        for j, (tr_, ch) in enumerate(zip(built, channels)):
            ins = tr_.instrument
            if ins is None:
                exp2.append((ch, 1))
                continue
            new = ["Flute", "Kazoo (no such instrument)", "Church Organ", "Acoustic Grand Piano"][(j + k) % 4]
            ins.name = new
            exp2.append((ch, MidiInstrument.names.index(new) if isinstance(ins, MidiInstrument) and new in MidiInstrument.names else 1))
        if kind == "tracks":
            ctx.ok("play_Tracks", s.play_Tracks, built, channels, bpm)
        else:
            ctx.ok("play_Composition", s.play_Composition, comp, None if case.get("default_channels") else channels, bpm)
        got2 = [(e[1], e[2]) for e in s.log[n1:n1 + k] if e[0] == "instr"]
        ctx.check(got2 == exp2, "instrument/announcement-after-renaming", lambda: "second pass announces %r, expected (channel, program) %r" % (s.log[n1:n1 + k], exp2))
        for o in obs:  # observers saw the second pass as well; compare on the first pass only below
            pass
    if failed(r):
        return
    final = _validate(ctx, log, sets, bpm, kind, False)
    ctx.check(isinstance(r, dict) and r.get("bpm") == final, "return/final-tempo", lambda: "%r, expected bpm %r" % (r, final))
    _check_observers(ctx, s, obs, mode)
    if kind == "bars":  # the same sequencer and the same Bar objects once more
        first = list(s.log)
        ctx.ok("play_Bars", s.play_Bars, bars, channels, bpm)
        ctx.check(s.log[len(first):] == first, "replay/second-pass-differs", lambda: "first pass %d events, second pass %d" % (len(first), len(s.log) - len(first)))
    feats = set()
    for t in tracks:
        feats |= SG.features(t)
    labs = ["par:%s" % kind, "par:%d-parts" % k, "par:" + case["cls"]] + ["par:" + x for x in sorted(feats & {"chord", "rest", "tempo-change", "tuplet"})]
    ctx.note_case(k >= 2 or "tempo-change" in feats, labs + ["obs:" + mode])


def check_cc(ctx, case):
    via, ch, control, value, mode = case
    s, obs = _setup(mode)
    if via == "control_change":
        r = ctx.ok("control_change", s.control_change, ch, control, value)
    else:
        control = {"modulation": 1, "main_volume": 7, "pan": 10}[via]
        r = ctx.ok(via, getattr(s, via), ch, value)
    if failed(r):
        return
    refused = control < 0 or control > 128 or value < 0 or value > 128
    if refused:
        ctx.check(r is False and s.log == [], "cc/refused-but-emitted", lambda: "returned %r, events %r" % (r, s.log))
    else:
        ctx.check(r is True and s.log == [("cc", ch, control, value)], "cc/accepted", lambda: "returned %r, events %r" % (r, s.log))
    _check_observers(ctx, s, obs, mode)
    ctx.note_case(refused or control in (0, 128) or value in (0, 128), ["cc:refused" if refused else "cc:accepted"])


CHECKS = {"sequential": check_sequential, "parallel": check_parallel, "cc": check_cc}

OBS = ["none", "once", "twice", "detached", "two"]


def _cfg(**kw):
    base = dict(groups=SG.plain_groups(bases=(1, 2, 4, 8, 16, 32), max_dots=2), min_pitch=0, max_pitch=135, octaves=list(range(0, 11)), bpm_p=5, bpms=st.integers(30, 300),
                max_bars=3, max_groups=5, max_chord=4, rest_p=4, partial_last=True, instruments=["none"], twin_p=5, subclass_p=8, unsorted_p=6, twin_entry_p=6, reuse_p=6, same_bar_p=6, empty_containers=True, bpm_on_empty=True,
                meters=[[4, 4], [3, 4], [6, 8], [2, 2], [5, 4], [2, 4], [7, 8], [3, 8]])
    base.update(kw)
    return SG.Cfg(**base)


def sub_sequential(ctx, shard, n):
    cfg = _cfg()
    notes = st.lists(SG.note_st(cfg), min_size=1, max_size=4, unique_by=lambda x: T.pitch(x[0], x[1])).map(
        lambda ns: sorted(ns, key=lambda x: T.pitch(x[0], x[1])))
    common = {"bpm": st.integers(30, 300), "obs": st.sampled_from(OBS), "form": st.sampled_from(["pos", "pos", "kw", "default"])}
    strat = st.one_of(
        st.fixed_dictionaries(dict(common, kind=st.just("note"), notes=notes)),
        st.fixed_dictionaries(dict(common, kind=st.just("nc"), notes=notes)),
        st.fixed_dictionaries(dict(common, kind=st.just("bar"), bar=SG.bar_st(cfg) | SG.bar_st(cfg, fill=False))),
        st.fixed_dictionaries(dict(common, kind=st.just("track"), track=SG.track_st(cfg))),
        st.fixed_dictionaries(dict(common, kind=st.just("track"), track=SG.track_st(cfg))),
    )
    ctx.given("sequential", check_sequential, strat, 250 if ctx.quick else 2000)
    if shard == 0:
        # bars holding one entry (a rest, an empty container or a note of value 1, 2, 4 or the beat unit) in every meter
        lone = SG.lone_entry_tracks([m for m in SG.ALL_METERS if m[0] in (1, 2, 3, 5, 6, 12)] if ctx.quick else None)
        ctx.enumerate("sequential", check_sequential, [{"bpm": 240, "obs": OBS[i % len(OBS)], "form": "pos", "kind": "track", "track": t} for i, t in enumerate(lone)])


@st.composite
def _parallel_st(draw, aligned):
    k = draw(st.integers(1, 4))
    nb = draw(st.integers(1, 3))
    cfg0 = _cfg()
    cfgn = _cfg(bpm_p=0)
    tracks = [{"name": None, "instr": None, "bars": []} for _ in range(k)]
    for i in range(nb):
        meter = draw(st.sampled_from(cfg0.meters))
        first = draw(SG.bar_st(cfg0, meter=meter, fill=True if aligned else None))
        if not first["entries"]:
            first["entries"] = [{"v": [meter[1], 0, 1, 1], "notes": [["C", 4, 1, 90]]}]
        tracks[0]["bars"].append(first)
        for j in range(1, k):
            if aligned:
                content = SG.content_st(cfgn)
                b = {"key": first["key"], "meter": meter, "entries": [{"v": e["v"], "notes": draw(content)} for e in first["entries"]]}
            else:
                b = draw(SG.bar_st(cfgn, meter=meter, fill=draw(st.booleans())))
                if not b["entries"]:
                    b["entries"] = [{"v": [meter[1], 0, 1, 1], "notes": None}]
            tracks[j]["bars"].append(b)
    for t in tracks:
        kind = draw(st.sampled_from(["none", "generic", "midi", "midi-unknown", "midi-sub"]))
        if kind == "generic":
            # not a MIDI instrument, whatever it is called: program 1
            t["instr"] = {"kind": "generic", "name": draw(st.sampled_from(["Some instrument", "Violin", "Flute", "Acoustic Grand Piano", "Church Organ", ""]))}
        elif kind in ("midi", "midi-sub"):
            nr = draw(st.integers(0, len(MidiInstrument.names) - 1))
            # a name that occurs twice in the table would make index() ambiguous: take the first occurrence
            nr = MidiInstrument.names.index(MidiInstrument.names[nr])
            t["instr"] = {"kind": "midi", "nr": nr, "name": MidiInstrument.names[nr]}
            if kind == "midi-sub":  # the user's own subclass of MidiInstrument
                t["instr"]["sub"] = True
        elif kind == "midi-unknown":
            t["instr"] = {"kind": "midi", "nr": 1, "name": "No such instrument"}
    return {"tracks": tracks, "cls": "aligned" if aligned else "free", "kind": draw(st.sampled_from(["bars", "tracks", "tracks", "composition"])),
            "bpm": draw(st.integers(30, 300)), "obs": draw(st.sampled_from(OBS)),
            "channels": draw(st.lists(st.integers(0, 15), min_size=4, max_size=4)), "default_channels": draw(st.booleans())}


def sub_aligned(ctx, shard, n):
    ctx.given("parallel", check_parallel, _parallel_st(True), 150 if ctx.quick else 1500)


def sub_free(ctx, shard, n):
    ctx.given("parallel", check_parallel, _parallel_st(False), 200 if ctx.quick else 2000)


def sub_cc(ctx, shard, n):
    cases = [["control_change", ch, c, v, m] for ch in (0, 9, 15) for c in list(range(-5, 4)) + list(range(124, 136)) + [64]
             for v in list(range(-5, 4)) + list(range(124, 136)) + [64] for m in ("none", "once")]
    cases += [[via, 3, 0, v, m] for via in ("modulation", "main_volume", "pan") for v in (-1, 0, 1, 64, 127, 128, 129) for m in ("once", "twice", "detached")]
    # numbers and values that are no integers, just outside the accepted range (and far outside): refused like the integers
    outside = [-0.5, -0.001, -1e-9, 128.5, 128.001, 128.0000001, -1.5, 129.5, 1e9, -1e9]
    cases += [["control_change", ch, c, v, m] for ch in (0, 9) for m in ("none", "once") for o in outside for (c, v) in ((o, 64), (64, o), (o, o), (0, o), (o, 128))]
    cases += [[via, 3, 0, o, "once"] for via in ("modulation", "main_volume", "pan") for o in outside]
    ctx.exhaustive("control changes", "3 channels x 22 controls x 22 values x 2 observer modes + wrappers + 10 non-integers outside the range", len(cases))
    ctx.enumerate("cc", check_cc, cases)
    strat = st.tuples(st.just("control_change"), st.integers(0, 15), st.integers(-5, 135), st.integers(-5, 135), st.sampled_from(OBS)).map(list)
    ctx.given("cc", check_cc, strat, 300 if ctx.quick else 3000)
    out = st.floats(-2.0, 0.0, exclude_max=True) | st.floats(128.0, 130.0, exclude_min=True)
    inside = st.integers(0, 128)
    strat = st.tuples(st.just("control_change"), st.integers(0, 15), out | inside, out, st.sampled_from(OBS)).map(list) | \
        st.tuples(st.just("control_change"), st.integers(0, 15), out, out | inside, st.sampled_from(OBS)).map(list)
    ctx.given("cc", check_cc, strat, 300 if ctx.quick else 3000)


SUBS = [
    Sub("sequential", sub_sequential, quick=4, thorough=16),
    Sub("aligned", sub_aligned, quick=4, thorough=16),
    Sub("free", sub_free, quick=6, thorough=16),
    Sub("cc", sub_cc),
]
