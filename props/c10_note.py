"""C10 - a Note is a totally ordered pitch number with lossless text and Hz forms (mingus/containers/note.py)."""
import ast
import operator

from hypothesis import strategies as st

from mingus.containers import Note
from mingus.containers.mt_exceptions import NoteFormatError

from vlib import fuzz
from vlib.core import Sub, failed
from vlib.ref import theory as T

PROPERTY_ID = "C10"
RULE = ("notes = names (7 letters x every '#'/'b' string up to length 4 in all orders, which contains the 35 unmixed names "
        "with <= 2 accidentals; thorough: up to length 6) x octaves 0..9, enumerated: integer value, the four ways of "
        "setting (int, 'Name-octave', printed form, copy), octave doubling of the frequency, Helmholtz round trip "
        "(unmixed names), copy independence; all ints 0..127; ordered pairs of the 350 (35 names x 10 octaves) notes x six "
        "operators (quick: two enumerated octave blocks + 5000 Hypothesis pairs, thorough: all 122 500) and Hypothesis "
        "lists for sorting; Hz round trip: ints 0..127 x standard pitches {440, 415.3, 432, 442, 466.16} x detune "
        "{-40,-20,0,20,40} cents enumerated + Hypothesis floats 300..500 Hz x [-40, 40] cents; velocities -3..130 and "
        "channels -3..18 through every setter; malformed names from Hypothesis text and the C01 near-miss grammar, bare "
        "and with an octave suffix. Non-trivial: name with an accidental (incl. spellings that cross the octave "
        "boundary, Cb / B#), pair of different letters, detune != 0, bound value outside the range, malformed string "
        "sharing a valid prefix."
        " Also: the same Note object reused across Hz conversions with different standard pitches; velocity / channel bounds together with the 'Name-octave' text form; a coverage-guided atheris campaign over name-like text; comparisons between notes that differ in velocity and channel (half of them of equal pitch); the frequency of every spelling against the pitch-number formula at three standard pitches; direct assignment to .name / .octave after the number has been read; one frequency read under four standard pitches in a row; one Note object reading a walk of detuned neighbouring pitches. One attribute given twice in a call (dict and keyword); the integer constructor with legal dynamics keeps its pitch.")
ASSUMPTIONS = [
    "'printed form' is repr(note), a quoted Python string literal; it is unquoted with ast.literal_eval before being fed back",
    "malformed names are non-empty strings without '-' that do not match [A-G][#b]*, alone or followed by '-<int>' "
    "(a malformed octave or an empty name is outside the statement)",
    "float tolerances: octave doubling and A-4 relative 1e-12; Hz round trip must give exactly the same pitch",
    "Note(int) is exercised for pitches >= 0 only",
    "oracle: own letter/semitone arithmetic in vlib/ref/theory.py",
]

OPS = [("<", operator.lt), ("<=", operator.le), ("==", operator.eq), ("!=", operator.ne), (">=", operator.ge), (">", operator.gt)]
NAMES35 = T.unmixed_names(2)
NOTES350 = [[n, o] for n in NAMES35 for o in range(10)]
STANDARD_PITCHES = [440, 415.3, 432, 442, 466.16]


def _fields(x):
    return (x.name, x.octave)


def _same(ctx, y, name, octave, p, sig, how):
    """y must be a note with the given name, octave and pitch"""
    if failed(y):
        return
    ctx.check(_fields(y) == (name, octave) and int(y) == p, sig,
              lambda: "%s gives name %r octave %r int %r, expected %r %r %r" % (how, y.name, y.octave, int(y), name, octave, p))


def check_note(ctx, case):
    name, octave = case
    p = T.pitch(name, octave)
    labels = ["note:acc%d" % min(len(name) - 1, 4)]
    x = ctx.ok("construct", Note, name, octave)
    if failed(x):
        return ctx.note_case(False, labels)
    i = ctx.ok("int", int, x)
    ctx.check(failed(i) or (i == p and type(i) is int), "int/value", lambda: "int(Note(%r, %d)) -> %r, expected %d" % (name, octave, i, p))
    # the four ways of setting a note
    text = "%s-%d" % (name, octave)
    _same(ctx, ctx.ok("set/text", Note, text), name, octave, p, "set/text", "Note(%r)" % text)
    _same(ctx, ctx.ok("set/text", lambda: Note("E", 7).set_note(text)), name, octave, p, "set/text", "set_note(%r)" % text)
    printed = ctx.ok("repr", repr, x)
    if not failed(printed):
        try:
            lit = ast.literal_eval(printed)
            printed_text = lit if isinstance(lit, str) else printed
        except (ValueError, SyntaxError):
            printed_text = printed
        _same(ctx, ctx.ok("set/printed", Note, printed_text), name, octave, p, "set/printed", "Note(%r) [printed form]" % printed_text)
    y = ctx.ok("set/copy", Note, x)
    _same(ctx, y, name, octave, p, "set/copy", "Note(Note(%r, %d))" % (name, octave))
    if p >= 0:
        for how, mk in (("Note(%d)" % p, lambda: Note(p)), ("Note().from_int(%d)" % p, lambda: Note().from_int(p))):
            z = ctx.ok("set/int", mk)
            if not failed(z):
                ctx.check(T.valid(z.name) and T.pitch(z.name, z.octave) == p and int(z) == p, "set/int",
                          lambda: "%s gives %r-%r (int %r)" % (how, z.name, z.octave, int(z)))
    # frequency doubles per octave
    f0 = ctx.ok("to_hertz", x.to_hertz)
    f1 = ctx.ok("to_hertz", lambda: Note(name, octave + 1).to_hertz())
    if not failed(f0) and not failed(f1):
        ctx.check(f0 > 0 and abs(f1 / f0 - 2.0) <= 2e-12, "hertz/octave-doubling",
                  lambda: "%s-%d: %r Hz, one octave up %r Hz" % (name, octave, f0, f1))
    # ... and follows the pitch number: A-4 (number 57) at the standard pitch, a factor 2^(1/12) per semitone, whatever the spelling
    for std in (440, 415.3, 466):
        f = ctx.ok("to_hertz", (lambda: x.to_hertz()) if std == 440 else (lambda: x.to_hertz(std)))
        if not failed(f):
            want = std * 2.0 ** ((p - 57) / 12.0)
            ctx.check(abs(f - want) <= 1e-9 * want, "hertz/value",
                      lambda: "Note(%r, %d).to_hertz(%r) -> %r, pitch number %d gives %r" % (name, octave, std, f, p, want))
    # name and octave are plain attributes (the library's own modules assign them): a note that has already been asked for its
    # number follows a direct assignment
    w = ctx.ok("construct", Note, name, octave)
    if not failed(w):
        ctx.ok("int", int, w)
        ctx.ok("compare", lambda: w == x)
        o2 = (octave + 3) % 10
        w.octave = o2
        i2 = ctx.ok("int", int, w)
        ctx.check(failed(i2) or i2 == T.pitch(name, o2), "int/after-octave-assignment",
                  lambda: "Note(%r, %d), octave set to %d: int -> %r, expected %d" % (name, octave, o2, i2, T.pitch(name, o2)))
        n2 = "G" if name[0] != "G" else "Db"
        w.name = n2
        i3 = ctx.ok("int", int, w)
        ctx.check(failed(i3) or i3 == T.pitch(n2, o2), "int/after-name-assignment",
                  lambda: "Note(%r, %d), then .octave = %d, .name = %r: int -> %r, expected %d" % (name, octave, o2, n2, i3, T.pitch(n2, o2)))
        c = ctx.ok("compare", lambda: (w == Note(n2, o2), w < Note(n2, o2), Note(w) == w))
        ctx.check(failed(c) or c == (True, False, True), "compare/after-assignment", lambda: "%r-%r after direct assignment: ==, <, copy== give %r" % (n2, o2, c))
        fz = ctx.ok("to_hertz", w.to_hertz)
        if not failed(fz):
            want = 440 * 2.0 ** ((T.pitch(n2, o2) - 57) / 12.0)
            ctx.check(abs(fz - want) <= 1e-9 * want, "hertz/after-assignment", lambda: "%r-%r: %r Hz, expected %r" % (n2, o2, fz, want))
    # Helmholtz shorthand
    if T.unmixed(name):
        sh = ctx.ok("to_shorthand", x.to_shorthand)
        if not failed(sh):
            z = ctx.ok("helmholtz/read", lambda: Note().from_shorthand(sh))
            if not failed(z):
                ctx.check(_fields(z) == (name, octave), "helmholtz/round-trip",
                          lambda: "Note(%r, %d).to_shorthand() = %r reads back as %r-%r" % (name, octave, sh, z.name, z.octave))
        labels.append("helmholtz:" + ("flat" if "b" in name else "sharp" if "#" in name else "natural"))
    # a copy is an independent object
    if not failed(y):
        ctx.check(y is not x, "copy/independent", "Note(x) is x")
        before = (x.name, x.octave, x.velocity, x.channel)
        y.augment()
        y.octave_up()
        y.set_velocity(1)
        y.set_channel(2)
        ctx.check((x.name, x.octave, x.velocity, x.channel) == before, "copy/independent",
                  lambda: "changing the copy changed the original %r -> %r" % (before, (x.name, x.octave, x.velocity, x.channel)))
        w = Note(x)
        wb = (w.name, w.octave, w.velocity, w.channel)
        x.diminish()
        x.change_octave(2)
        x.set_velocity(99)
        x.set_channel(9)
        ctx.check((w.name, w.octave, w.velocity, w.channel) == wb, "copy/independent",
                  lambda: "changing the original changed the copy %r -> %r" % (wb, (w.name, w.octave, w.velocity, w.channel)))
    crossing = p // 12 != octave
    if crossing:
        labels.append("note:spelled-across-octave")
    ctx.note_case(len(name) > 1, labels)


def check_int(ctx, i):
    for how, mk in (("Note(%d)" % i, lambda: Note(i)), ("Note().from_int(%d)" % i, lambda: Note().from_int(i))):
        z = ctx.ok("set/int", mk)
        if not failed(z):
            ctx.check(T.valid(z.name) and T.pitch(z.name, z.octave) == i and int(z) == i, "set/int",
                      lambda: "%s gives %r-%r (int %r)" % (how, z.name, z.octave, int(z)))
    ctx.note_case(i % 12 in (1, 3, 6, 8, 10), ["int:0..127"])


def check_pair(ctx, case):
    (n1, o1), (n2, o2) = case[0], case[1]
    if len(case) == 3:  # loudness and channel differ between the two notes: comparisons are by pitch alone
        (v1, c1), (v2, c2) = case[2]
        a = ctx.ok("construct", lambda: Note(n1, o1, velocity=v1, channel=c1))
        b = ctx.ok("construct", lambda: Note(n2, o2, velocity=v2, channel=c2))
    else:
        a, b = ctx.ok("construct", Note, n1, o1), ctx.ok("construct", Note, n2, o2)
    if failed(a) or failed(b):
        return ctx.note_case(False, ["pair:construct-failed"])
    pa, pb = T.pitch(n1, o1), T.pitch(n2, o2)
    for sym, op in OPS:
        r = ctx.ok("compare/" + sym, op, a, b)
        if not failed(r):
            ctx.check(isinstance(r, bool) and r == op(pa, pb), "compare/" + sym,
                      lambda: "Note(%r,%d) %s Note(%r,%d) -> %r; pitches %d, %d%s" % (
                          n1, o1, sym, n2, o2, r, pa, pb, "; (velocity, channel) %r" % (case[2],) if len(case) == 3 else ""))
    ctx.note_case(n1[0] != n2[0] and (len(n1) > 1 or len(n2) > 1),
                  (["pair:velocity/channel-differ"] if len(case) == 3 else []) + ["pair:" + ("enharmonic" if pa == pb and (n1, o1) != (n2, o2) else "identical" if pa == pb else "less" if pa < pb else "greater")])


def check_sort(ctx, case):
    objs = [ctx.ok("construct", Note, n, o) for (n, o) in case]
    if any(failed(x) for x in objs):
        return ctx.note_case(False, ["sort:construct-failed"])
    r = ctx.ok("sort", sorted, objs)
    if not failed(r):
        got = [T.pitch(x.name, x.octave) for x in r]
        ctx.check(got == sorted(T.pitch(n, o) for (n, o) in case) and sorted(map(id, r)) == sorted(map(id, objs)), "sort/by-pitch",
                  lambda: "sorted(%r) -> %r" % (case, r))
    ps = [T.pitch(n, o) for (n, o) in case]
    ctx.note_case(len(set(ps)) >= 3 and ps != sorted(ps), ["sort:len%d" % min(len(case), 9)])


def check_hz(ctx, case):
    i, std, cents = case
    x = ctx.ok("construct", Note, i)
    if failed(x):
        return ctx.note_case(False, ["hz:construct-failed"])
    f = ctx.ok("to_hertz", x.to_hertz, std)
    a4 = ctx.ok("to_hertz", lambda: Note("A", 4).to_hertz(std))
    if not failed(a4):
        ctx.check(abs(a4 - std) <= 1e-12 * std, "hertz/a4", lambda: "Note('A',4).to_hertz(%r) -> %r" % (std, a4))
    up = ctx.ok("to_hertz", lambda: Note(i + 12).to_hertz(std))
    if not failed(f) and not failed(up):
        ctx.check(f > 0 and abs(up / f - 2.0) <= 2e-12, "hertz/octave-doubling",
                  lambda: "Note(%d).to_hertz(%r) = %r, Note(%d) = %r" % (i, std, f, i + 12, up))
    if not failed(f):
        hz = f * 2.0 ** (cents / 1200.0)
        back = ctx.ok("from_hertz", lambda: Note().from_hertz(hz, std))
        if not failed(back):
            ctx.check(T.valid(back.name) and T.pitch(back.name, back.octave) == i and int(back) == i, "hertz/round-trip",
                      lambda: "Note(%d).to_hertz(%r) detuned %r cents = %r Hz reads back as %r-%r" % (i, std, cents, hz, back.name, back.octave))
        if std == 440:
            d0 = ctx.ok("to_hertz", x.to_hertz)
            ctx.check(failed(d0) or d0 == f, "hertz/default-standard-pitch", lambda: "to_hertz() %r != to_hertz(440) %r" % (d0, f))
            if not failed(back):
                b0 = ctx.ok("from_hertz", lambda: Note().from_hertz(hz))
                ctx.check(failed(b0) or _fields(b0) == _fields(back), "hertz/default-standard-pitch", "from_hertz(hz) != from_hertz(hz, 440)")
    # the very same frequency read under other standard pitches right afterwards: each reading follows its own standard pitch
    if not failed(f):
        import math
        hz = f * 2.0 ** (cents / 1200.0)
        for std2 in (440, 415.3, 466.16, 432):
            pos = 57 + 12 * math.log(hz / std2, 2)
            if abs(pos - round(pos)) > 0.4 or round(pos) < 0:
                continue  # too close to the border between two semitones for a verdict
            b2 = ctx.ok("from_hertz", lambda: Note().from_hertz(hz, std2))
            if not failed(b2):
                ctx.check(T.valid(b2.name) and T.pitch(b2.name, b2.octave) == int(round(pos)), "hertz/same-frequency-other-standard-pitch",
                          lambda: "%r Hz under standard pitch %r reads as %r-%r, expected pitch number %d" % (hz, std2, b2.name, b2.octave, int(round(pos))))
    # the same Note object used again: an explicit standard pitch in one call must not leak into later calls
    if not failed(f):
        y = Note("D", 2)
        ctx.ok("from_hertz", y.from_hertz, f * 2.0 ** (cents / 1200.0), std)
        d1 = ctx.ok("to_hertz", y.to_hertz)
        e1 = ctx.ok("to_hertz", lambda: Note(i).to_hertz(440))
        ctx.check(failed(d1) or failed(e1) or d1 == e1, "hertz/reused-object/default-standard-pitch",
                  lambda: "after from_hertz(.., %r) the same note's to_hertz() gives %r, a fresh Note(%d).to_hertz(440) %r" % (std, d1, i, e1))
        a = ctx.ok("from_hertz", y.from_hertz, 440.0 * 2.0 ** ((i - 57) / 12.0))
        ctx.check(failed(a) or int(y) == i, "hertz/reused-object/round-trip", lambda: "reused note reads %r Hz as pitch %r, expected %d" % (
            440.0 * 2.0 ** ((i - 57) / 12.0), int(y), i))
        z = Note(i)
        ctx.ok("to_hertz", z.to_hertz, std)
        d2 = ctx.ok("to_hertz", z.to_hertz)
        ctx.check(failed(d2) or failed(e1) or d2 == e1, "hertz/reused-object/default-standard-pitch", "to_hertz(std) changed a later to_hertz()")
    ctx.note_case(cents != 0, ["hz:" + ("flat" if cents < 0 else "sharp" if cents > 0 else "in-tune"),
                               "hz:std440" if std == 440 else "hz:other-std"])


def check_bound(ctx, case):
    kind, v = case
    lo, hi = (0, 127) if kind == "velocity" else (0, 15)
    inside = lo <= v <= hi
    attr = kind
    makers = [
        ("setter", lambda x: getattr(x, "set_" + kind)(v)),
        ("set_note-keyword", lambda x: x.set_note("D", 5, **{kind: v})),
        ("set_note-dynamics", lambda x: x.set_note("D", 5, {kind: v})),
        ("set_note-text-keyword", lambda x: x.set_note("D-5", **{kind: v})),  # 'Name-octave' text together with a dynamics value
        ("set_note-text-dynamics", lambda x: x.set_note("D-5", 4, {kind: v})),
    ]
    for how, f in makers:
        x = Note("E", 3, velocity=11, channel=3)
        before = (x.name, x.octave, x.velocity, x.channel)
        if inside:
            r = ctx.ok("bounds/%s/in-range" % kind, f, x)
            ctx.check(failed(r) or getattr(x, attr) == v, "bounds/%s/in-range" % kind, lambda: "%s %s=%r not stored" % (how, kind, v))
        else:
            ctx.raises("bounds/%s" % kind, (ValueError,), f, x)
            ctx.check((x.name, x.octave, x.velocity, x.channel) == before, "bounds/%s/changed-after-rejection" % kind,
                      lambda: "%s %s=%r: %r -> %r" % (how, kind, v, before, (x.name, x.octave, x.velocity, x.channel)))
    ctors = [("constructor-keyword", lambda: Note("D", 5, **{kind: v})), ("constructor-dynamics", lambda: Note("D", 5, {kind: v})),
             ("constructor-text-keyword", lambda: Note("D-5", **{kind: v})), ("constructor-text-dynamics", lambda: Note("D-5", 4, {kind: v}))]
    for how, f in ctors:
        if inside:
            x = ctx.ok("bounds/%s/in-range" % kind, f)
            ctx.check(failed(x) or getattr(x, attr) == v, "bounds/%s/in-range" % kind, lambda: "%s %s=%r not stored" % (how, kind, v))
        else:
            ctx.raises("bounds/%s" % kind, (ValueError,), f)
    # one attribute in the dynamics dict, the other as a keyword, in one call (both orders): each is judged on its own
    other, ov = ("channel", 5) if kind == "velocity" else ("velocity", 77)
    both = [("constructor-dict+keyword", lambda: Note("D", 5, {kind: v}, **{other: ov})), ("constructor-keyword+dict", lambda: Note("D", 5, {other: ov}, **{kind: v})),
            ("set_note-dict+keyword", lambda: Note("A", 2).set_note("D", 5, {kind: v}, **{other: ov})),
            ("set_note-keyword+dict", lambda: Note("A", 2).set_note("D", 5, {other: ov}, **{kind: v}))]
    for how, f in both:
        if inside:
            x = ctx.ok("bounds/%s/in-range" % kind, f)
            if not failed(x):
                x = x if isinstance(x, Note) else None
            ctx.check(x is None or failed(x) or (getattr(x, attr) == v and getattr(x, other) == ov), "bounds/%s/dict-and-keyword" % kind,
                      lambda: "%s %s=%r %s=%r gives %s=%r %s=%r" % (how, kind, v, other, ov, kind, getattr(x, attr), other, getattr(x, other)))
        else:
            ctx.raises("bounds/%s" % kind, (ValueError,), f)
    # the same attribute twice in one call - a legal value in the dict and this one as the keyword, and the other way round: an
    # out-of-range value is rejected wherever it stands
    if not inside:
        legal = 3 if kind == "channel" else 70
        for how, f in (("set_note-dict-legal+keyword", lambda: Note("A", 2).set_note("D", 5, {kind: legal}, **{kind: v})),
                       ("constructor-dict-legal+keyword", lambda: Note("D", 5, {kind: legal}, **{kind: v}))):
            ctx.raises("bounds/%s" % kind, (ValueError,), f)  # the documented keyword carries the illegal value
        # the other way round the keyword may simply replace the entry of the (deprecated) dict, which is then never used: the
        # call is rejected or the note carries the legal value - no note carrying the illegal one may come out
        for how, f in (("Note('D', 5, {%s: bad}, %s=legal)" % (kind, kind), lambda: Note("D", 5, {kind: v}, **{kind: legal})),
                       ("set_note('D', 5, {%s: bad}, %s=legal)" % (kind, kind), lambda: Note("A", 2).set_note("D", 5, {kind: v}, **{kind: legal}))):
            try:
                x = f()
            except ValueError:
                continue
            if isinstance(x, Note):
                ctx.check(getattr(x, attr) == legal, "bounds/%s/out-of-range-value-on-a-note" % kind,
                          lambda: "%s with bad = %r carries %s %r" % (how, v, kind, getattr(x, attr)))
    else:
        # a note made from an integer together with a legal value keeps the integer's pitch (and takes the value or leaves the default)
        for i in (0, 11, 36, 47, 48, 59, 60, 61, 100, 127):
            for how, f in (("Note(%d, %s=)" % (i, kind), lambda: Note(i, **{kind: v})), ("Note(%d, 4, {%s})" % (i, kind), lambda: Note(i, 4, {kind: v}))):
                x = ctx.ok("int-constructor", f)
                ctx.check(failed(x) or int(x) == i, "int-constructor/pitch-with-dynamics", lambda: "%s with %r gives pitch %r" % (how, v, int(x)))
    # a note made from an integer (or copied from another note) together with such a value: an out-of-range value is either
    # rejected or not taken over - a note carrying it must never come out
    if not inside:
        for how, f in (("Note(60, %s=)" % kind, lambda: Note(60, **{kind: v})), ("Note(60, 4, {%s})" % kind, lambda: Note(60, 4, {kind: v})),
                       ("Note(Note(), %s=)" % kind, lambda: Note(Note("G", 3), **{kind: v}))):
            try:
                x = f()
            except Exception:  # noqa - rejected
                continue
            ctx.check(lo <= getattr(x, attr) <= hi, "bounds/%s/out-of-range-value-on-a-note" % kind,
                      lambda: "%s with %r gives a note whose %s is %r" % (how, v, kind, getattr(x, attr)))
    ctx.note_case(not inside or v in (lo, hi), ["bound:%s:%s" % (kind, "inside" if inside else "below" if v < lo else "above")])


def check_malformed(ctx, s):
    if s == "" or "-" in s:
        return
    if T.valid(s):
        return
    for text in (s, s + "-4", s + "-0", s + "-11"):
        ctx.raises("malformed-name", (NoteFormatError,), Note, text)
        ctx.raises("malformed-name", (NoteFormatError,), Note, text, 5)
        x = Note("E", 3)
        ctx.raises("malformed-name", (NoteFormatError,), x.set_note, text)
        ctx.check(_fields(x) == ("E", 3), "malformed-name/changed-after-rejection", lambda: "set_note(%r) left %r" % (text, x))
    ctx.note_case(s[0] in "ABCDEFG" or s[1:2] in ("#", "b"), ["malformed"])


CHECKS = {"note": check_note, "int": check_int, "pair": check_pair, "sort": check_sort, "hz": check_hz, "bound": check_bound,
          "malformed": check_malformed}


# ---- domains -------------------------------------------------------------------------------------------
def sub_notes(ctx, shard, n):
    k = 4 if ctx.quick else 6
    names = T.all_names(k)
    cases = [[nm, o] for nm in names for o in range(10)]
    if shard == 0:
        ctx.exhaustive("notes: letter x all accidental strings (all orders) x octaves 0..9", "length <= %d" % k, len(cases))
        ctx.exhaustive("Note(int)", "0..127", 128)
        ctx.enumerate("int", check_int, list(range(128)))
    ctx.enumerate("note", check_note, cases[shard::n], size_key=lambda c: (len(c[0]), c[1]))


def _attr_pairs():
    """pairs of notes with their own velocity and channel; half of them of equal pitch (identical or enharmonic spelling)"""
    vc = st.tuples(st.integers(0, 127), st.integers(0, 15)).map(list)
    by_pitch = {}
    for nm, o in NOTES350:
        by_pitch.setdefault(T.pitch(nm, o), []).append([nm, o])
    same = st.sampled_from(sorted(by_pitch)).flatmap(lambda p: st.tuples(st.sampled_from(by_pitch[p]), st.sampled_from(by_pitch[p])))
    anyp = st.tuples(st.sampled_from(NOTES350), st.sampled_from(NOTES350))
    return st.tuples(same | anyp, st.tuples(vc, vc).map(list)).map(lambda t: [t[0][0], t[0][1], t[1]])


def sub_pairs(ctx, shard, n):
    if ctx.quick:
        if shard == 0:
            block = [[[a, 4], [b, o]] for a in NAMES35 for b in NAMES35 for o in (4, 5)] + \
                    [[[a, 5], [b, 4]] for a in NAMES35 for b in NAMES35]
            ctx.exhaustive("comparisons: 35 x 35 names at octaves (4,4), (4,5), (5,4) x six operators", "names <= 2 accidentals", len(block))
            ctx.enumerate("pair", check_pair, block)
        pair = st.tuples(st.sampled_from(NOTES350), st.sampled_from(NOTES350)).map(list)
        ctx.given("pair", check_pair, pair, 5000 // n)
        ctx.given("pair", check_pair, _attr_pairs(), 3000 // n)
    else:
        if shard == 0:
            ctx.exhaustive("comparisons: all ordered pairs of 35 names x octaves 0..9 x six operators", "350 notes", len(NOTES350) ** 2)
        ctx.enumerate("pair", check_pair, ([a, b] for a in NOTES350[shard::n] for b in NOTES350))
        ctx.given("pair", check_pair, _attr_pairs(), 40000 // n)


def sub_sort(ctx, shard, n):
    ctx.given("sort", check_sort, st.lists(st.sampled_from(NOTES350), min_size=0, max_size=12), 600 if ctx.quick else 10000)


def check_hz_sequence(ctx, case):
    """one Note object reads a sequence of (detuned) frequencies one after the other, under one standard pitch: every reading
    gives the pitch it was made from, whatever was read before"""
    std, seq = case
    x = Note("C", 4)
    for k, (i, cents) in enumerate(seq):
        hz = std * 2.0 ** ((i - 57) / 12.0) * 2.0 ** (cents / 1200.0)
        r = ctx.ok("from_hertz", x.from_hertz, hz, std)
        if failed(r):
            return
        ctx.check(T.valid(x.name) and T.pitch(x.name, x.octave) == i, "hertz/sequence-on-one-note",
                  lambda: "reading %d of %r under %r Hz: %r Hz (pitch %d detuned by %r cents) reads as %r-%r" % (k, seq, std, hz, i, cents, x.name, x.octave))
    ctx.note_case(len(seq) >= 2, ["hz-sequence:%d" % min(len(seq), 6)])


CHECKS["hz_sequence"] = check_hz_sequence


def check_hz_multiple(ctx, case):
    """a frequency that is an exact whole multiple of the standard pitch (a harmonic of A-4): the nearest note, not always an A"""
    import math
    std, k = case
    pos = 57 + 12 * math.log(k, 2)
    cents = (pos - round(pos)) * 100
    if abs(cents) > 40:
        return ctx.note_case(False, ["hz-multiple:beyond-40-cents"])
    r = ctx.ok("from_hertz", lambda: Note().from_hertz(std * k, std))
    if not failed(r):
        ctx.check(T.valid(r.name) and T.pitch(r.name, r.octave) == int(round(pos)), "hertz/multiple-of-standard-pitch",
                  lambda: "%r x %d = %r Hz reads as %r-%r, expected pitch number %d" % (std, k, std * k, r.name, r.octave, int(round(pos))))
    if std == 440:
        r0 = ctx.ok("from_hertz", lambda: Note().from_hertz(440 * k))
        ctx.check(failed(r0) or failed(r) or (r0.name, r0.octave) == (r.name, r.octave), "hertz/default-standard-pitch", "from_hertz(440*k)")
    ctx.note_case(k & (k - 1) != 0, ["hz-multiple:%d" % k])


CHECKS["hz_multiple"] = check_hz_multiple


def sub_hz(ctx, shard, n):
    if shard == 0:
        ctx.enumerate("hz_multiple", check_hz_multiple, [[s_, k] for s_ in (440, 415, 432, 442, 466, 440.0, 415.3) for k in range(1, 17)])
        # neighbouring semitones detuned towards and away from each other, read by one and the same Note object
        fixed = [[440, [[i, c1], [i + d, c2]]] for i in (12, 57, 60, 100) for d in (1, -1, 0, 2) for c1 in (-40, -30, 30, 40) for c2 in (-40, -30, 30, 40)]
        ctx.enumerate("hz_sequence", check_hz_sequence, fixed)
    step = st.tuples(st.integers(-2, 2), st.floats(-40.0, 40.0) | st.sampled_from([-40.0, -30.0, 30.0, 40.0]))
    walk = st.tuples(st.sampled_from(STANDARD_PITCHES), st.integers(5, 120), st.lists(step, min_size=1, max_size=8)).map(
        lambda t: [t[0], [[max(0, min(127, t[1] + sum(s[0] for s in t[2][:k + 1]))), t[2][k][1]] for k in range(len(t[2]))]])
    ctx.given("hz_sequence", check_hz_sequence, walk, 500 if ctx.quick else 5000)
    grid = [[i, s, c] for i in range(128) for s in STANDARD_PITCHES for c in (-40, -20, 0, 20, 40)]
    if shard == 0:
        ctx.exhaustive("Hz round trip: ints 0..127 x 5 standard pitches x 5 detunings", "listed", len(grid))
    ctx.enumerate("hz", check_hz, grid[shard::n])
    std = st.sampled_from(STANDARD_PITCHES) | st.floats(300.0, 500.0)
    cents = st.floats(-40.0, 40.0) | st.sampled_from([-40.0, 40.0, -39.999, 39.999, 0.0])
    strat = st.tuples(st.integers(0, 127), std, cents).map(list)
    ctx.given("hz", check_hz, strat, 1500 if ctx.quick else 15000)


NEAR = ["c", "H", " C", "C ", "#C", "bC", "C♯", "C#x", "C4", "Cb4", "c#", "Bb\n", "C\n", "E#b ", "Ab1", "I", "Cis", "CC", "C#C",
        "A#b#B", "\x00", "Ｃ", "C♭", "b", "#", "bb", "G##♭", "eb", "a", "Do", "C,", "c'", "C_4", "C 4", "4", "C.", "Bb5"]


def sub_bounds_malformed(ctx, shard, n):
    bounds = [["velocity", v] for v in range(-3, 131)] + [["channel", c] for c in range(-3, 19)]
    ctx.exhaustive("velocity -3..130 and channel -3..18 through every setter", "listed", len(bounds))
    ctx.enumerate("bound", check_bound, bounds)
    big = st.tuples(st.sampled_from(["velocity", "channel"]), st.integers(-10 ** 6, 10 ** 6)).map(list)
    ctx.given("bound", check_bound, big, 100 if ctx.quick else 2000)
    ctx.enumerate("malformed", check_malformed, NEAR)
    nodash = st.characters(exclude_characters="-")
    near = st.builds(lambda nm, pos, ch: nm[:pos % (len(nm) + 1)] + ch + nm[pos % (len(nm) + 1):],
                     st.sampled_from(T.all_names(3)), st.integers(0, 5), st.sampled_from(list("cHh xB4♯♭\n\t/|,'")) | nodash)
    ctx.given("malformed", check_malformed, st.text(alphabet=nodash, min_size=1, max_size=8) | near, 1500 if ctx.quick else 20000)



# ---- coverage-guided fuzz target (atheris): bytes -> text biased towards the relevant alphabet ------------------
_FUZZ_ALPHABET = list("ABCDEFG#b#bcHh x4'")


def _fuzz_text(fdp):
    raw = fdp.ConsumeBytes(fdp.ConsumeIntInRange(1, 10))
    s = "".join(_FUZZ_ALPHABET[b] if b < len(_FUZZ_ALPHABET) else chr(b if b < 128 else 0x100 + b) for b in raw)
    return s or None


FUZZ = {"names": (_fuzz_text, "malformed")}

def sub_fuzz(ctx, shard, n):
    fuzz.run(ctx, __name__, "names", 15000 if ctx.quick else 200000, max_len=12)


SUBS = [
    Sub("fuzz", sub_fuzz, quick=1, thorough=4),
    Sub("notes", sub_notes, quick=2, thorough=16),
    Sub("pairs", sub_pairs, quick=2, thorough=16),
    Sub("sort", sub_sort),
    Sub("hz", sub_hz, quick=2, thorough=16),
    Sub("bounds_malformed", sub_bounds_malformed),
]
