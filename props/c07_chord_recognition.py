"""C07 - chord recognition inverts construction (mingus/core/chords.py: determine*)."""
from hypothesis import strategies as st

from mingus.core import chords

from vlib.core import Sub, failed
from vlib.ref import chords_ref as R
from vlib.ref import theory as T

PROPERTY_ID = "C07"
RULE = ("every library shorthand with >= 3 notes x every root (letter + 0..2 sharps/flats quick, 0..3 thorough) x every "
        "rotation, enumerated, recognised in shorthand and long form; all 21^3 three-note inputs over names with <= 1 "
        "accidental (enumerated); 0-, 1- and 2-note inputs (all 35^2 ordered pairs inside the interval-naming domain); "
        "Hypothesis 4..9-note inputs (random names; shorthand chord + extra note; two shorthand chords concatenated, "
        "truncated, rotated) x no_inversions x no_polychords; root-position polychords X|Y of two shorthand chords. "
        "Non-trivial: rotation k >= 1, or >= 5 notes, or an input whose answer list is non-empty."
        ' Also: the no_inversions forms are asked before the plain question; all seven notes of every key stacked in thirds from every degree in every rotation (and their six-note prefixes) for the never-raises / same-length clauses; invert / first_ / second_ / third_inversion give the same rotations as plain list slicing.')
ASSUMPTIONS = [
    "the chord to recognise is built with from_shorthand itself (round-trip oracle); long names are formed with "
    "the wording of the library meaning table (an own pinned copy is the fall-back) and own ordinals",
    "position correspondence of the two forms: a polychord entry is a polychord entry in both forms; any other entry "
    "i has long form root + meaning(suffix of shorthand entry i) + an inversion ordinal",
    "2-note inputs: pairs whose letter-wise ascending size is 0..11 semitones (the interval-naming domain of C03); the "
    "'accepted by chord construction' clause applies to inputs of >= 3 notes (smaller inputs return a note / an "
    "interval name, not a chord shorthand)",
    "a root-position polychord X|Y (both halves >= 3 notes, no note skipped as duplicate, <= 14 notes) is a chord "
    "'built from shorthand' and must come back under a name that rebuilds it; rotated polychords are not in the domain",
]


def _split_root(name):
    i = 1
    while i < len(name) and name[i] in "#b":
        i += 1
    return name[:i], name[i:]


def _forms(ctx, chord, no_inv=False, no_poly=False, accept=True):
    """the clauses that hold for every input: neither form raises, same length and order, names constructible.
    returns (shorthand answers, long answers, {shorthand name: rebuilt chord}) or None"""
    s = ctx.ok("determine/shorthand-form", chords.determine, list(chord), True, no_inv, no_poly)
    l = ctx.ok("determine/long-form", chords.determine, list(chord), False, no_inv, no_poly)
    if failed(s) or failed(l):
        return None
    ok = isinstance(s, list) and isinstance(l, list) and all(isinstance(x, str) for x in s + l)
    if not ctx.check(ok, "forms/type", lambda: "%r -> %r / %r" % (chord, s, l)):
        return None
    if not ctx.check(len(s) == len(l), "forms/length", lambda: "%r -> %r / %r" % (chord, s, l)):
        return None
    built = {}
    if not accept:
        return s, l, built
    for si, li in zip(s, l):
        if "|" in si:
            ctx.check("|" in li, "forms/order", lambda: "%r: %r vs %r" % (chord, si, li))
        else:
            root, suffix = _split_root(si)
            # the text that names a chord type is the library's own table of meanings (its wording is not part of the statement;
            # that the table matches what is constructible is C06's subject); the reference table is the fall-back
            meaning = getattr(chords, "chord_shorthand_meaning", {}).get(suffix, R.MEANING.get(suffix))
            if meaning is not None:
                head = root + meaning
                good = li.startswith(head) and li[len(head):] in R.ORDINALS
            else:
                good = li.startswith(root + " ")
            ctx.check(good, "forms/order", lambda: "%r: %r vs %r" % (chord, si, li))
        if si not in built:
            for part in ([si] + si.split("|")) if "|" in si else [si]:
                b = ctx.ok("name-not-constructible", chords.from_shorthand, part)
                if part == si:
                    built[si] = b
    return s, l, built


def check_rotation(ctx, case):
    sh, root, k = case
    try:
        c = chords.from_shorthand(root + sh)
    except Exception:  # noqa  (not a chord that can be built: outside this property)
        return ctx.note_case(False, ["unbuildable"])
    if not isinstance(c, list) or len(c) < 3:
        return ctx.note_case(False, ["size<3"])
    k %= len(c)
    rot = c[k:] + c[:k]
    # the library's own inversion helpers produce exactly these rotations (for chords of every size)
    for hname, turns in (("invert", 1), ("first_inversion", 1), ("second_inversion", 2), ("third_inversion", 3)):
        if turns % len(c) != k:
            continue
        h = ctx.ok("inversion-helper/" + hname, getattr(chords, hname), list(c))
        if not failed(h):
            ctx.check(h == rot, "inversion-helper/" + hname, lambda: "%s(%r) -> %r, rotation %d is %r" % (hname, c, h, k, rot))
    # the same notes asked with other flags first: the plain question afterwards must still get the full answer
    ctx.ok("determine/no_inversions", chords.determine, list(rot), True, True)
    ctx.ok("determine/no_inversions", chords.determine, list(rot), False, True, True)
    r = _forms(ctx, rot)
    if r is not None:
        s, l, built = r
        found = [i for i, n in enumerate(s) if "|" not in n and built.get(n) == c]
        if ctx.check(found, "recognise/" + sh, lambda: "%r (%s%s, rotation %d) -> %r" % (rot, root, sh, k, s)):
            def long_ok(i):
                r_, suffix = _split_root(s[i])
                meaning = getattr(chords, "chord_shorthand_meaning", {}).get(suffix, R.MEANING.get(suffix))
                if meaning is not None:
                    return l[i] == root + meaning + R.ORDINALS[k]
                return l[i].startswith(root + " ") and l[i].endswith(R.ORDINALS[k]) and (k > 0 or "inversion" not in l[i])
            ctx.check(any(long_ok(i) for i in found), "long-name/inv%d" % k,
                      lambda: "%r (%s%s, rotation %d) -> %r / %r" % (rot, root, sh, k, s, l))
    ctx.note_case(True if (k >= 1 or len(c) >= 5 or (r and r[0])) else False, ["size%d" % len(c), "inversion%d" % k])


def check_triad(ctx, t):
    r = _forms(ctx, t)
    nonempty = False
    if r is not None:
        s, l, built = r
        nonempty = bool(s)
        for n in s:
            b = built.get(n)
            if not failed(b):
                ctx.check(isinstance(b, list) and set(t) <= set(b), "triad/containment",
                          lambda: "%r -> %r = %r" % (t, n, b))
    ctx.note_case(nonempty, ["triad:%d-names" % (len(r[0]) if r else -1)])


def check_small(ctx, chord):
    n = len(chord)
    got = ctx.ok("small/%d" % n, chords.determine, list(chord))
    if not failed(got):
        if n == 0:
            exp = []
        elif n == 1:
            exp = list(chord)
        else:
            q, number, _size = T.interval_long_name(chord[0], chord[1])
            exp = ["%s %s" % (q, number)]
        ctx.check(got == exp, "small/%d" % n, lambda: "%r -> %r, expected %r" % (chord, got, exp))
    for flags in ((False, False), (True, False), (False, True), (True, True)):
        _forms(ctx, chord, flags[0], flags[1], accept=False)
    ctx.note_case(n == 2 and chord[0] != chord[1], ["small:%d" % n])


def check_random(ctx, case):
    notes_, no_inv, no_poly = case
    r = _forms(ctx, notes_, bool(no_inv), bool(no_poly))
    nonempty = bool(r and r[0])
    ctx.note_case(len(notes_) >= 5 or nonempty,
                  ["random:size%d" % len(notes_), "random:answers" if nonempty else "random:no-answer",
                   "flags:%d%d" % (bool(no_inv), bool(no_poly))])


def check_stack(ctx, case):
    """all seven notes of a key stacked in thirds from one degree, in one rotation: both forms answer, same length"""
    key, d, k = case
    ns = T.key_notes(key)
    stack = [ns[(d + 2 * i) % 7] for i in range(7)]
    rot = stack[k:] + stack[:k]
    r = _forms(ctx, rot)
    r2 = _forms(ctx, rot[:6])
    ctx.note_case(True, ["stack7:%s" % ("answers" if r and r[0] else "no-answer"), "stack6:%s" % ("answers" if r2 and r2[0] else "no-answer")])


def check_polychord(ctx, case):
    xr, xs, yr, ys = case
    try:
        x, y = chords.from_shorthand(xr + xs), chords.from_shorthand(yr + ys)
        c = chords.from_shorthand(xr + xs + "|" + yr + ys)
    except Exception:  # noqa  (construction is C06's subject)
        return ctx.note_case(False, ["unbuildable"])
    r = _forms(ctx, c)
    whole = len(x) >= 3 and len(y) >= 3 and len(c) == len(x) + len(y) and len(c) <= 14
    if r is not None and whole:
        s, l, built = r
        ctx.check(any(built.get(n) == c for n in s), "recognise/polychord",
                  lambda: "%s%s|%s%s = %r -> %r" % (xr, xs, yr, ys, c, s))
    ctx.note_case(True, ["polychord:whole" if whole else "polychord:note-skipped", "size%d" % min(len(c), 8)])


CHECKS = {"stack": check_stack, "rotation": check_rotation, "triad": check_triad, "small": check_small, "random": check_random,
          "polychord": check_polychord}


# ---- generators --------------------------------------------------------------------------------------
def _shard(seq, shard, nshards):
    return seq[shard::nshards]


NAMES21 = T.unmixed_names(1)
NAMES35 = T.unmixed_names(2)


def _shorthands():
    """library shorthands whose chord has >= 3 notes (size taken from the reference formula when there is one)"""
    return [sh for sh in sorted(chords.chord_shorthand) if len(R.FORMULAS.get(sh, [0, 0])) >= 2]


def _size(sh):
    return len(R.FORMULAS[sh]) + 1 if sh in R.FORMULAS else 7


def sub_rotations(ctx, shard, n):
    k = 2 if ctx.quick else 3
    roots = T.unmixed_names(k)
    cases = [[sh, r, i] for sh in _shorthands() for r in roots for i in range(_size(sh))]
    if shard == 0:
        ctx.exhaustive("recognition: shorthand x root x rotation, both forms", "roots with <= %d accidentals" % k, len(cases))
    ctx.enumerate("rotation", check_rotation, _shard(cases, shard, n))


def sub_triads(ctx, shard, n):
    if shard == 0:
        ctx.exhaustive("all three-note inputs", "names with <= 1 accidental (21^3)", 21 ** 3)
    mine = _shard(NAMES21, shard, n)
    ctx.enumerate("triad", check_triad, ([a, b, c] for a in mine for b in NAMES21 for c in NAMES21))


def sub_small(ctx, shard, n):
    pairs = [[a, b] for a in NAMES35 for b in NAMES35 if 0 <= T.interval_long_name(a, b)[2] <= 11]
    ctx.exhaustive("0-, 1-, 2-note inputs", "35 names; ordered pairs of size 0..11", 1 + 35 + len(pairs))
    ctx.enumerate("small", check_small, [[]] + [[a] for a in NAMES35] + pairs)


def _st_chord():
    """a reference-built shorthand chord (>= 3 notes)"""
    shs = [sh for sh in sorted(R.FORMULAS) if len(R.FORMULAS[sh]) >= 2]
    return st.builds(R.build, st.sampled_from(NAMES21) | st.sampled_from(NAMES35), st.sampled_from(shs))


def _rot(c, k):
    k %= max(len(c), 1)
    return c[k:] + c[:k]


def _st_random():
    name = st.sampled_from(NAMES21) | st.sampled_from(NAMES35)
    plain = st.lists(name, min_size=4, max_size=9)
    extra = st.builds(lambda c, x, pos, k: _rot(c[:pos % (len(c) + 1)] + [x] + c[pos % (len(c) + 1):], k),
                      _st_chord(), name, st.integers(0, 7), st.integers(0, 7) | st.just(0))
    concat = st.builds(lambda a, b, cut, k: _rot((a + b)[:min(9, max(4, len(a) + len(b) - cut))], k),
                       _st_chord(), _st_chord(), st.integers(0, 5), st.integers(0, 9) | st.just(0))
    notes_ = plain | extra | concat
    return st.tuples(notes_, st.booleans(), st.booleans()).map(list)


def sub_stacks(ctx, shard, n):
    cases = [[key, d, k] for key in T.ALL_KEYS for d in range(7) for k in range(7)]
    if shard == 0:
        ctx.exhaustive("seven-note stacks of thirds: key x degree x rotation", "30 keys x 7 x 7", len(cases))
    ctx.enumerate("stack", check_stack, cases[shard::n])


def sub_random(ctx, shard, n):
    ctx.given("random", check_random, _st_random(), 3000 if ctx.quick else 10000)


def sub_polychords(ctx, shard, n):
    shs = _shorthands()
    strat = st.tuples(st.sampled_from(NAMES21), st.sampled_from(shs), st.sampled_from(NAMES21), st.sampled_from(shs)).map(list)
    ctx.given("polychord", check_polychord, strat, 1500 if ctx.quick else 10000)


SUBS = [
    Sub("rotations", sub_rotations, quick=4, thorough=8),
    Sub("triads", sub_triads, quick=3, thorough=7),
    Sub("small", sub_small),
    Sub("stacks", sub_stacks, quick=2, thorough=4),
    Sub("random", sub_random, quick=3, thorough=16),
    Sub("polychords", sub_polychords, quick=2, thorough=8),
]
