"""C06 - chord construction from shorthand (mingus/core/chords.py: from_shorthand, builder functions, tables)."""
from hypothesis import strategies as st

from mingus.core import chords
from mingus.core.mt_exceptions import FormatError, NoteFormatError

from vlib import fuzz
from vlib.core import Sub, failed
from vlib.ref import chords_ref as R
from vlib.ref import theory as T

PROPERTY_ID = "C06"
RULE = ("every key of chord_shorthand / chord_shorthand_meaning x every root (letter + 0..2 sharps or flats, thorough "
        "0..3) enumerated against an own (degree, semitones) formula table, same for the named builder functions; "
        "every m/M alias spelling (each occurrence replaced independently) x roots; slash chords shorthand x alias x "
        "root x bass (quick Hypothesis-sampled, thorough enumerated over 35 x 35); polychords X|Y from Hypothesis "
        "pairs (half of them built so that the duplicate-skipping rule fires); lists of mixed forms; NC; malformed: "
        "Hypothesis text, valid root + unknown suffix, bad root + valid suffix, bad slash bass; table agreement. "
        "Non-trivial: a root with an accidental, or an alias/slash/polychord form, or a chord containing a "
        "double-accidental note; for malformed input a string that starts with a valid root or ends in a known "
        "shorthand."
        " Also: three- and four-part polychords, slash chords as upper / lower part of a polychord, any valid name (mixed / many accidentals) as slash bass, 'X|NC', and a coverage-guided atheris campaign over shorthand-like text. The empty string and empty slash / polychord parts are enumerated and generated as malformed text.")
ASSUMPTIONS = [
    "the empty string and empty slash/polychord parts ('', 'C/', 'C|', 'C//G') are malformed input like any other text: built or "
    "rejected with FormatError/NoteFormatError (they raised IndexError on the pinned tree; repaired, see KNOWN_FINDINGS.txt)",
    "notes are compared on letter + pitch class + unmixed + <= 6 accidentals, the root and a slash bass exactly",
    "the three shorthands that contain '/' (m/M7, 6/9, 6/7) are not combined with a slash bass",
    "'N.C.' may build the empty chord or be rejected; 'NC' must build the empty chord",
    "arbitrary text must build a list or raise FormatError/NoteFormatError; the specific class is asserted only for "
    "the constructed malformed classes (unknown suffix -> FormatError, bad root / bad bass -> NoteFormatError)",
    "oracle: own formula table in vlib/ref/chords_ref.py",
]

ERR = (FormatError, NoteFormatError)


def _lib_shorthands():
    return sorted(set(chords.chord_shorthand) | set(chords.chord_shorthand_meaning))


def _known():
    return set(chords.chord_shorthand) | set(chords.chord_shorthand_meaning) | set(R.FORMULAS)


def _double(got):
    return isinstance(got, list) and any(isinstance(n, str) and abs(T.acc(n)) >= 2 for n in got)


# ---- formula -----------------------------------------------------------------------------------------
def check_formula(ctx, case):
    sh, root = case
    got = ctx.ok("formula/" + sh, chords.from_shorthand, root + sh)
    if failed(got):
        return ctx.note_case(len(root) > 1, ["formula:rejected"])
    ctx.check(isinstance(got, list) and len(got) >= 1 and got[0] == root, "root-first/" + sh,
              lambda: "%s%s -> %r" % (root, sh, got))
    if sh in R.FORMULAS:
        exp = R.items(root, sh)
        ctx.check(R.chord_ok(got, exp), "formula/" + sh, lambda: "%s%s -> %r, expected %r" % (root, sh, got, exp))
        for fname in R.BUILDERS_OF.get(sh, ()):
            f = getattr(chords, fname, None)
            if not ctx.check(callable(f), "builder/%s/missing" % fname, fname):
                continue
            b = ctx.ok("builder/" + fname, f, root)
            if not failed(b):
                ctx.check(R.chord_ok(b, exp), "builder/" + fname, lambda: "%s(%r) -> %r, expected %r" % (fname, root, b, exp))
        ctx.label("formula:checked")
    else:
        ctx.check(all(T.valid(n) for n in got), "formula/invalid-note/" + sh, lambda: repr(got))
        ctx.label("formula:no-reference-formula")
    ctx.note_case(len(root) > 1 or _double(got), ["root:acc%d" % (len(root) - 1)])


# ---- one spec language for plain / alias / slash / polychord / NC forms ------------------------------
#   ["plain", root, spelling, sh]            spelling = sh or an alias spelling of it
#   ["slash", root, spelling, sh, bass]
#   ["poly", X, Y]                           X, Y plain specs
#   ["nc", text]
def spec_text(spec):
    kind = spec[0]
    if kind == "plain":
        return spec[1] + spec[2]
    if kind == "slash":
        return spec[1] + spec[2] + "/" + spec[4]
    if kind == "poly":
        return spec_text(spec[1]) + "|" + spec_text(spec[2])
    return spec[1]


def spec_items(spec):
    kind = spec[0]
    if kind == "plain":
        return R.items(spec[1], spec[3])
    if kind == "slash":
        return [spec[4]] + R.items(spec[1], spec[3])
    if kind == "poly":
        return R.poly_items(spec_items(spec[1]), spec_items(spec[2]))
    return []


def spec_sig(spec):
    kind = spec[0]
    if kind == "plain":
        if spec[2] == spec[3]:
            return "formula/" + spec[3]
        tag = [t for v, t in R.alias_variants(spec[3]) if v == spec[2]]
        return "alias/" + (tag[0] if tag else "other")
    return {"slash": "slash", "poly": "poly", "nc": "NC"}[kind]


def _verify_spec(ctx, spec, got, sig):
    if spec[0] == "nc" and spec[1] != "NC":
        return  # 'N.C.': building [] or rejecting are both fine, checked by the caller
    exp = spec_items(spec)
    ctx.check(R.chord_ok(got, exp), sig, lambda: "%r -> %r, expected %r" % (spec_text(spec), got, exp))


def check_chord(ctx, spec):
    text = spec_text(spec)
    sig = spec_sig(spec)
    labels = ["form:" + spec[0]]
    if spec[0] == "nc" and spec[1] != "NC":
        try:
            got = chords.from_shorthand(text)
        except ERR:
            got = []
        ctx.check(got == [], "NC/alternative", lambda: "%r -> %r" % (text, got))
        return ctx.note_case(False, labels)
    got = ctx.ok(sig, chords.from_shorthand, text)
    if not failed(got):
        _verify_spec(ctx, spec, got, sig)
    if spec[0] == "poly":
        x, y = spec_items(spec[1]), spec_items(spec[2])
        if len(R.poly_items(x, y)) < len(x) + len(y):
            labels.append("poly:duplicate-skipped")
        if spec[2][0] == "poly":
            labels.append("poly:three-or-more-parts")
    if spec[0] == "plain" and spec[2] != spec[3]:
        labels.append("alias")
    ctx.note_case(spec[0] != "nc", labels)


def check_list(ctx, specs):
    texts = [spec_text(s) for s in specs]
    before = list(texts)
    got = ctx.ok("list", chords.from_shorthand, texts)
    if not failed(got):
        if ctx.check(isinstance(got, list) and len(got) == len(specs), "list/length", lambda: "%r -> %r" % (texts, got)):
            for s, g in zip(specs, got):
                _verify_spec(ctx, s, g, "list/element")
        ctx.check(texts == before, "list/caller-list-modified", lambda: "%r -> %r" % (before, texts))
    ctx.note_case(len(specs) >= 2, ["list:len%d" % min(len(specs), 6)])


# ---- malformed ---------------------------------------------------------------------------------------
def _empty_half(s):
    """'', 'C/', 'C|', '|C', 'C//G' ..."""
    parts = s.split("|")
    return s == "" or any(seg == "" for part in parts for seg in part.split("/"))


def check_poly_nc(ctx, case):
    """a polychord whose second half is the empty chord is just the first chord ('Y's notes followed by X's notes')"""
    plain = chords.from_shorthand(case)
    r = ctx.ok("poly-nc", chords.from_shorthand, case + "|NC")
    ctx.check(failed(r) or list(r) == list(plain), "poly-nc/value", lambda: "%r|NC -> %r, expected %r" % (case, r, plain))
    ctx.note_case(len(case) > 1, ["poly:nc-half"])


def check_malformed(ctx, case):
    kind, s = case
    if not isinstance(s, str) or s in ("NC", "N.C."):
        return
    if kind != "text" and _empty_half(s):  # the constructed classes assume a root, a suffix and a bass; empty parts are judged as text
        kind = "text"
    if kind == "unknown-suffix":
        # s = root + suffix; the suffix is unknown under every alias reading and does not extend the root
        ctx.raises("malformed/unknown-suffix", (FormatError,), chords.from_shorthand, s)
        nt = True
    elif kind == "bad-root":
        ctx.raises("malformed/bad-root", (NoteFormatError,), chords.from_shorthand, s)
        nt = True
    elif kind == "bad-bass":
        ctx.raises("malformed/bad-bass", (NoteFormatError,), chords.from_shorthand, s)
        nt = True
    elif kind.endswith("-in-polychord"):
        ctx.raises("malformed/" + kind, {"unknown-suffix": (FormatError,), "bad-root": (NoteFormatError,), "bad-bass": (NoteFormatError,)}[kind[:-13]],
                   chords.from_shorthand, s)
        nt = True
    else:
        try:
            r = chords.from_shorthand(s)
            ctx.check(isinstance(r, list), "malformed/text/non-list", lambda: "%r -> %r" % (s, r))
            ctx.label("text:built")
        except ERR:
            ctx.label("text:rejected")
        except Exception as e:  # noqa
            ctx.fail("malformed/text/wrong-error/" + type(e).__name__, "from_shorthand(%r) raised %r" % (s, e))
        nt = s[:1] in tuple("ABCDEFG")
    ctx.note_case(nt, ["malformed:" + kind])


# ---- table agreement ---------------------------------------------------------------------------------
def check_tables(ctx, root):
    a, b = set(chords.chord_shorthand), set(chords.chord_shorthand_meaning)
    ctx.check(a == b, "tables/keysets", lambda: "constructible only: %r; meaning only: %r" % (sorted(a - b), sorted(b - a)))
    groups = {}
    for sh, meaning in chords.chord_shorthand_meaning.items():
        groups.setdefault(meaning, []).append(sh)
    for meaning, shs in sorted(groups.items()):
        built = []
        for sh in sorted(shs):
            g = ctx.ok("tables/constructible/" + sh, chords.from_shorthand, root + sh)
            if not failed(g):
                built.append((sh, g))
        for sh, g in built[1:]:
            ctx.check(g == built[0][1], "tables/same-meaning/" + meaning.strip().replace(" ", "-"),
                      lambda: "%s%s -> %r but %s%s -> %r" % (root, built[0][0], built[0][1], root, sh, g))
    ctx.note_case(len(root) > 1, ["tables"])


CHECKS = {"formula": check_formula, "chord": check_chord, "list": check_list, "malformed": check_malformed, "poly_nc": check_poly_nc,
          "tables": check_tables}


# ---- generators --------------------------------------------------------------------------------------
def _shard(seq, shard, nshards):
    return seq[shard::nshards]


def _roots(ctx):
    return T.unmixed_names(2 if ctx.quick else 3)


ROOTS35 = T.unmixed_names(2)


def _ref_shorthands():
    """library shorthands for which the reference has a formula (the others are covered by check_formula only)"""
    return [sh for sh in _lib_shorthands() if sh in R.FORMULAS]


def sub_formula(ctx, shard, n):
    shs, roots = _lib_shorthands(), _roots(ctx)
    cases = [[sh, r] for sh in shs for r in roots]
    if shard == 0:
        ctx.exhaustive("formula: library shorthand x root", "%d shorthands x roots with <= %d accidentals" % (
            len(shs), 2 if ctx.quick else 3), len(cases))
    ctx.enumerate("formula", check_formula, _shard(cases, shard, n))
    if shard == 0:
        ctx.enumerate("tables", check_tables, roots)
        ctx.enumerate("chord", check_chord, [["nc", "NC"], ["nc", "N.C."]])
        ctx.enumerate("poly_nc", check_poly_nc, [r + s for r in ("C", "F#", "Bbb") for s in ("", "m7", "dim7", "13", "sus4")])


def sub_alias(ctx, shard, n):
    roots = _roots(ctx)
    cases = [["plain", r, v, sh] for sh in _ref_shorthands() for v, _t in R.alias_variants(sh) for r in roots]
    if shard == 0:
        ctx.exhaustive("alias spellings: every m/M occurrence replaced independently x root", "roots as above", len(cases))
    ctx.enumerate("chord", check_chord, _shard(cases, shard, n))


def _st_plain(shs, roots=ROOTS35):
    def mk(sh, root, vi):
        vs = [sh] + [v for v, _t in R.alias_variants(sh)]
        return ["plain", root, vs[vi % len(vs)], sh]
    return st.builds(mk, st.sampled_from(shs), st.sampled_from(roots), st.integers(0, 11) | st.just(0))


def _st_slash(shs, any_bass=True):
    # basses: the usual spellings, and any valid name (mixed or many accidentals) - the bass is kept as written.  Inside polychords
    # only the usual spellings are used: "a note equal to the one just before it" is unambiguous for them only.
    bass = st.sampled_from(ROOTS35) | st.sampled_from(ROOTS35) | st.sampled_from(T.all_names(4)) if any_bass else st.sampled_from(ROOTS35)
    return st.builds(lambda p, b: ["slash", p[1], p[2], p[3], b], _st_plain(shs), bass)


def _st_poly(shs):
    def mk(x, y, dup):
        if dup:  # put X on the last note of Y so that the duplicate-skipping rule fires
            letter, pclass = R.item_key(R.items(y[1], y[3])[-1])
            x = ["plain", T.canonical(letter, pclass), x[2], x[3]]
        return ["poly", x, y]
    two = st.builds(mk, _st_plain(shs), _st_plain(shs), st.booleans())
    # 'X|Y|Z' is X on top of the polychord 'Y|Z' (the first '|' splits); also four parts
    three = st.builds(lambda x, yz: ["poly", x, yz], _st_plain(shs), two)
    four = st.builds(lambda x, yzw: ["poly", x, yzw], _st_plain(shs), three)
    # slash chords as the upper and / or the lower part
    noslash = [sh for sh in shs if "/" not in sh]
    # ... also a slash chord over its own root (the bass is then "equal to the note just before" the chord's first note)
    own = st.builds(lambda p_: ["slash", p_[1], p_[2], p_[3], p_[1]], _st_plain(noslash))
    part = _st_slash(noslash, False) | own | _st_plain(shs)
    withslash = st.builds(lambda x, y: ["poly", x, y], part, part)
    # the empty chord as the lower part: the upper part alone remains, with the same no-repeat rule
    nc_lower = st.builds(lambda x, nc: ["poly", x, ["nc", nc]], part | own, st.sampled_from(["NC", "N.C."]))
    return st.one_of(two, two, three, four, withslash, nc_lower)


def sub_slash(ctx, shard, n):
    shs = [sh for sh in _ref_shorthands() if "/" not in sh]
    if ctx.quick:
        ctx.given("chord", check_chord, _st_slash(shs), 2500)
    else:
        cases = [["slash", r, sh, sh, b] for sh in shs for r in ROOTS35 for b in ROOTS35]
        if shard == 0:
            ctx.exhaustive("slash chords: shorthand x root x bass", "35 roots x 35 basses", len(cases))
        ctx.enumerate("chord", check_chord, _shard(cases, shard, n))
        ctx.given("chord", check_chord, _st_slash(shs), 5000)


def sub_poly(ctx, shard, n):
    shs = _ref_shorthands()
    ctx.given("chord", check_chord, _st_poly(shs), 2500 if ctx.quick else 15000)


def sub_lists(ctx, shard, n):
    shs = _ref_shorthands()
    noslash = [sh for sh in shs if "/" not in sh]
    el = _st_plain(shs) | _st_slash(noslash) | _st_poly(shs) | st.just(["nc", "NC"])
    ctx.enumerate("list", check_list, [[]])
    ctx.given("list", check_list, st.lists(el, min_size=0, max_size=6), 600 if ctx.quick else 10000)


JUNK = "xXyzqQkKhHtT0123489()+ #b.suдko?!*\n"
NEAR = ["H", "Hm7", "Cfoo", "C#xyz", "cm", "Cm7/H", "Cm7/c", "/C", "|C", "Xm|C", "C7b13", "C ", " C", "Cmaj7#", "C##q",
        "Cm7|H", "Cm7|Dq", "C/G/", "CM77", "C min", "Csus3", "C♯m", "Cdim77", "C5/Gx", "N", "NCm", "C|D|Eq", "Cb/b"]


def _st_malformed():
    known = _known()
    shs = sorted(known)
    root = st.sampled_from(ROOTS35)
    raw = st.text(alphabet=JUNK, min_size=1, max_size=5) | st.builds(
        lambda sh, j, pos: sh[:pos % (len(sh) + 1)] + j + sh[pos % (len(sh) + 1):],
        st.sampled_from(shs), st.text(alphabet=JUNK, min_size=1, max_size=2), st.integers(0, 7))
    # an unknown suffix: not absorbed by the root scan, no slash/polychord syntax, unknown under the alias rewriting
    suffix = raw.filter(lambda s: s[0] not in "#b" and "/" not in s and "|" not in s and R.normalise(s) not in known)
    unknown = st.builds(lambda r, s: ["unknown-suffix", r + s], root, suffix)
    badchar = st.characters(blacklist_characters="ABCDEFG|/") | st.sampled_from(list("abcdefghHIJNXmM-#b 1♯"))
    badroot = st.builds(lambda c, acc, sh: ["bad-root", c + acc + sh], badchar, st.sampled_from(["", "#", "b"]),
                        st.sampled_from(shs)).filter(lambda c: c[1] not in ("NC", "N.C."))
    bass = (st.text(alphabet=JUNK + "abcgGAm", min_size=1, max_size=3) | st.builds(
        lambda r, j: r + j, root, st.text(alphabet="xX1 hH?mM", min_size=1, max_size=2)) | st.builds(
        lambda r: r.lower(), root)).filter(lambda b: not T.valid(b) and "/" not in b and "|" not in b)
    badbass = st.builds(lambda r, sh, b: [sh, r, b], root, st.sampled_from([s for s in shs if "/" not in s]), bass).filter(
        lambda t: R.normalise(t[0] + "/" + t[2]) not in known).map(lambda t: ["bad-bass", t[1] + t[0] + "/" + t[2]])
    # a malformed part inside a polychord (first, middle or last): the whole string is rejected with the error of that part
    good = st.builds(lambda r, sh: r + sh, root, st.sampled_from(["", "m", "7", "M7", "dim", "m7", "6"]))
    def embed(kind_err):
        return st.tuples(kind_err, st.lists(good, min_size=1, max_size=2), st.integers(0, 2)).map(
            lambda t: [t[0][0] + "-in-polychord", "|".join(t[1][:t[2]] + [t[0][1]] + t[1][t[2]:])])
    return unknown | badroot | badbass | embed(badbass) | embed(unknown) | embed(badroot)


def _st_text():
    shs = _ref_shorthands()
    noslash = [sh for sh in shs if "/" not in sh]
    valid = (_st_plain(shs) | _st_slash(noslash) | _st_poly(shs)).map(spec_text)

    def mutate(s, pos, ch, mode):
        pos %= len(s) + 1
        if mode == 0:
            return s[:pos] + ch + s[pos:]
        if mode == 1:
            return s[:pos] + ch + s[pos + 1:]
        return s[:pos] + s[pos + 1:]
    near = st.builds(mutate, valid, st.integers(0, 30), st.sampled_from(list("ABGHabm#/|-M7 x9")) | st.characters(),
                     st.integers(0, 2))
    raw = st.text(max_size=8) | st.text(alphabet="ABCDEFG#b/|mM7965+-susdimajNC. ", max_size=10)
    return (raw | near | near).map(lambda s: ["text", s])


def sub_malformed(ctx, shard, n):
    ctx.enumerate("malformed", check_malformed, [["text", s] for s in NEAR])
    ctx.enumerate("malformed", check_malformed,
                  [["unknown-suffix", "Cfoo"], ["unknown-suffix", "C#xyz"], ["unknown-suffix", "Ebm7x"],
                   ["unknown-suffix", "C7b13"], ["bad-root", "Hm7"], ["bad-root", "cm"], ["bad-root", "bm7"],
                   ["bad-root", "#C"], ["bad-bass", "Cm7/H"], ["bad-bass", "C/g"], ["bad-bass", "F#dim/Gx"],
                   ["bad-bass-in-polychord", "Am/H|C"], ["bad-bass-in-polychord", "C|Am/H"], ["bad-bass-in-polychord", "C/Gm|F"],
                   ["bad-bass-in-polychord", "G|Dm7/e|C"], ["unknown-suffix-in-polychord", "Cfoo|G"], ["unknown-suffix-in-polychord", "G|Cfoo"],
                   ["bad-root-in-polychord", "Hm|C"], ["bad-root-in-polychord", "C|Hm"]])
    # the empty string and empty parts of slash chords / polychords are strings like any other: built or rejected with the format errors
    ctx.enumerate("malformed", check_malformed, [["text", s] for s in (
        "", "C/", "C|", "|C", "|", "/", "||", "//", "Am7/", "C/G|", "C//G", "/C", "|/", "C|/", "C|G|", "C||G", "NC/", "NC|", "|NC", "m7", "7", " ")])
    ctx.given("malformed", check_malformed, _st_malformed(), 2000 if ctx.quick else 10000)
    ctx.given("malformed", check_malformed, _st_text(), 2000 if ctx.quick else 10000)



# ---- coverage-guided fuzz target (atheris): bytes -> text biased towards the relevant alphabet ------------------
_FUZZ_ALPHABET = list('ABCDEFG#b/|mM7965+-susdimajNC.hdx1234 o')


def _fuzz_text(fdp):
    raw = fdp.ConsumeBytes(fdp.ConsumeIntInRange(1, 14))
    s = "".join(_FUZZ_ALPHABET[b] if b < len(_FUZZ_ALPHABET) else chr(b if b < 128 else 0x100 + b) for b in raw)
    return s or None


FUZZ = {"shorthand": (lambda fdp: (lambda s: None if s is None else ["text", s])(_fuzz_text(fdp)), "malformed")}

def sub_fuzz(ctx, shard, n):
    """any text either builds a list or is rejected with FormatError / NoteFormatError (coverage-guided over the shorthand parser)"""
    fuzz.run(ctx, __name__, "shorthand", 30000 if ctx.quick else 400000, max_len=16)


SUBS = [
    Sub("fuzz", sub_fuzz, quick=1, thorough=4),
    Sub("formula", sub_formula, quick=2, thorough=4),
    Sub("alias", sub_alias, quick=2, thorough=4),
    Sub("slash", sub_slash, quick=2, thorough=8),
    Sub("poly", sub_poly, quick=2, thorough=4),
    Sub("lists", sub_lists, quick=1, thorough=2),
    Sub("malformed", sub_malformed, quick=2, thorough=4),
]
