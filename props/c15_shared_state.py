"""C15 - no hidden shared state: results, arguments, caches and instances are independent."""
import bisect
import copy
import json
import math
import os
import subprocess
import sys

from hypothesis import strategies as st

from vlib.core import REPO, VERIF_DIR, HarnessError, Sub, failed
from vlib.ref import theory as T

PROPERTY_ID = "C15"
RULE = ("(a) a battery of several hundred queries over notes, intervals, keys, chords, progressions, scales, value and meter is answered "
        "once by a cold interpreter (fresh subprocess); in process, Hypothesis draws a history of 0-40 calls from the same pool, every "
        "returned list/dict is mutated (append, delete, overwrite, recursively), then a drawn part (thorough: all) of the battery is "
        "asked again, twice, and compared with the cold answers; frequency-table index lookups in drawn sequences are compared with a "
        "bisect reference and with a memory-less lookup. (b) every list/dict argument handed to the theory modules, containers, MIDI "
        "writer and tunings is deep-copied before the call and compared after it (also when the call raises). (c) for every container, "
        "MIDI-writer and sequencer class two instances are created, a drawn operation script runs on one and the sibling and the "
        "class defaults must be unchanged; copies of notes and containers are operated on in both directions. Non-trivial: a history "
        "that mutates a returned list and later queries the same function; a call with a non-empty mutable argument; a script with "
        ">= 2 mutating operations."
        ' Also: the battery contains every public function of the theory modules (introspection), confusable neighbours and keyword forms; histories repeat a query before modifying its last answer; every memo table that is empty at import is cleared per case; a systematic pass modifies the answer of each battery query and re-asks its neighbourhood; fft.find_notes call sequences whose returned notes are modified between calls; in-place edits of the lists / dictionaries that instances hold (incl. the percussion key map); frequency lookups at and above the top of the table; nested [name, octave(, dynamics)] items as arguments, compared deeply; notes handed out by registered tunings are modified. One text note given to 2-3 selected tracks of a composition, then eight kinds of in-place edit of one track (the other tracks must not move). One scale object asked twelve kinds of question in several orders must answer like a fresh object; entries of one from_chords call share no objects.')
ASSUMPTIONS = ["known memo tables are cleared at the start of every case so that a failing history replays from a cold start",
               "intervals.invert may reverse in place and back: the argument must be unchanged after the call",
               "chords.from_shorthand's internal second parameter is outside the battery",
               "frequency-table reference = bisect over fft._log_cache (the data, not the lookup algorithm)"]


# ---- the battery ---------------------------------------------------------------------------------------

def battery():
    q = []
    keys30 = T.ALL_KEYS
    maj = T.MAJOR_KEYS
    for k in keys30:
        q.append(["f", "keys", "get_notes", [k]])
        q.append(["f", "keys", "get_key_signature", [k]])
        q.append(["f", "keys", "get_key_signature_accidentals", [k]])
        q.append(["f", "chords", "triads", [k]])
        q.append(["f", "chords", "sevenths", [k]])
        q.append(["key", k])
    for i, k in enumerate(keys30):
        fn = ["tonic", "supertonic", "mediant", "subdominant", "dominant", "submediant", "subtonic", "tonic7", "dominant7", "subtonic7",
              "I", "ii", "III", "IV7", "V7", "vi", "VII7"][i % 17]
        q.append(["f", "chords", fn, [k]])
        q.append(["f", "progressions", "to_chords", [["I", "IV", "V7", "bVIIm7", "#ii"][: 2 + i % 4], k]])
        q.append(["f", "chords", "triad", [T.key_tonic(k), k]])
        q.append(["f", "chords", "seventh", [T.key_tonic(k), k]])
        q.append(["f", "intervals", ["second", "third", "fourth", "fifth", "sixth", "seventh"][i % 6], [T.key_tonic(k), k]])
    for k in maj:
        q.append(["f", "keys", "relative_minor", [k]])
        q.append(["f", "progressions", "determine", [["C", "E", "G"], k, True]])
        q.append(["f", "progressions", "determine", [[T.key_tonic(k)] + [], k, False]])
        q.append(["scale", "Major", [k], "ascending", []])
        q.append(["scale", "HarmonicMajor", [k], "descending", []])
    for k in T.MINOR_KEYS:
        q.append(["f", "keys", "relative_major", [k]])
        q.append(["scale", "NaturalMinor", [T.key_tonic(k)], "ascending", []])
        q.append(["scale", "MelodicMinor", [T.key_tonic(k)], "descending", []])
    for n in ["C", "F#", "Bb", "E##", "Gbb", "B"]:
        for c in ["minor_second", "major_third", "perfect_fourth", "minor_fifth", "major_sixth", "minor_seventh", "augmented_unison"]:
            q.append(["f", "intervals", c, [n]])
        for sh in ["m7", "M7", "dim7", "13", "sus4", "7#9", "m/M7", "6/9"]:
            q.append(["f", "chords", "from_shorthand", [n + sh]])
        q.append(["f", "intervals", "from_shorthand", [n, "b3", True]])
        q.append(["f", "intervals", "from_shorthand", [n, "#4", False]])
        q.append(["f", "notes", "reduce_accidentals", [n]])
        q.append(["f", "notes", "note_to_int", [n]])
        q.append(["scale", "Dorian", [n], "ascending", []])
        q.append(["scale", "WholeTone", [n], "descending", []])
        q.append(["scale", "Chromatic", ["C"], "ascending", []])
    for a, b in [["C", "G"], ["E", "Ab"], ["B", "F"], ["D#", "Gb"]]:
        q.append(["f", "intervals", "determine", [a, b]])
        q.append(["f", "intervals", "determine", [a, b, True]])
        q.append(["f", "intervals", "measure", [a, b]])
        q.append(["f", "intervals", "is_consonant", [a, b]])
    for ch in [["C", "E", "G"], ["E", "G", "C"], ["A", "C", "E", "G"], ["C", "E", "G", "B", "D"], ["D", "F#", "A", "C", "E", "G"], ["F", "A", "C", "E", "G", "B", "D"]]:
        q.append(["f", "chords", "determine", [ch]])
        q.append(["f", "chords", "determine", [ch, True]])
        q.append(["f", "scales", "determine", [ch]])
    for p in [["I", "IV", "V", "I"], ["ii", "V7", "I"], ["VI", "bII7", "IIIm7"]]:
        for i in range(len(p)):
            q.append(["f", "progressions", "substitute", [p, i, 1]])
            q.append(["f", "progressions", "substitute_harmonic", [p, i]])
        q.append(["f", "progressions", "parse_string", [p[0]]])
    q.append(["f", "intervals", "invert", [["C", "E", "G"]]])
    for v in [4, 8, 6, 2.6666666666666665, 0.25, 224]:
        q.append(["f", "value", "determine", [v]])
        q.append(["f", "value", "dots", [v]])
        q.append(["f", "value", "add", [v, 8]])
    for m in [[4, 4], [6, 8], [7, 8], [3, 5], [0, 4]]:
        for fn in ["is_valid", "is_compound", "is_simple", "is_asymmetrical"]:
            q.append(["f", "meter", fn, [m]])
    for i in range(12):
        q.append(["f", "notes", "int_to_note", [i, "b" if i % 2 else "#"]])
    # neighbours that a coarse cache key would confuse: same notes with other flags, reversed pairs, near-identical floats,
    # repeated degrees, upper/lower-case keys
    for ch in [["E", "G", "Bb", "D", "C"], ["G", "B", "D", "F", "A", "C"], ["A", "C", "E", "G", "Bb", "D", "F"], ["C", "E", "G", "Bb", "F#"]]:
        for flags in ([True, True], [True, False, True], [False, True], [False, False, True], [True], [False]):
            q.append(["f", "chords", "determine", [ch] + flags])
    for a, b in [["C", "Dbb"], ["Dbb", "C"], ["B#", "C"], ["C", "B#"], ["C#", "Db"], ["Db", "C#"], ["E", "F"], ["F", "E"]]:
        q.append(["f", "intervals", "determine", [a, b]])
        q.append(["f", "intervals", "determine", [a, b, True]])
        q.append(["f", "intervals", "measure", [a, b]])
    for n in ["E", "Bb", "C##"]:
        for sh in ["2", "b7", "#5"]:
            q.append(["f", "intervals", "from_shorthand", [n, sh]])
            q.append(["f", "intervals", "from_shorthand", [n, sh, False]])
            q.append(["f", "intervals", "from_shorthand", [n, sh, True]])
            q.append(["fk", "intervals", "from_shorthand", [n, sh], {"up": False}])
            q.append(["fk", "intervals", "from_shorthand", [n, sh], {"up": True}])
    for ch in [["E", "G", "Bb", "D", "C"], ["C", "E", "G"]]:
        q.append(["fk", "chords", "determine", [ch], {"shorthand": True, "no_inversions": True}])
        q.append(["fk", "chords", "determine", [ch], {"shorthand": True}])
        q.append(["fk", "chords", "determine", [ch], {"no_polychords": True}])
    q.append(["fk", "progressions", "to_chords", [["I", "V7"]], {"key": "G"}])
    q.append(["fk", "progressions", "to_chords", [["I", "V7"]], {}])
    q.append(["fk", "notes", "int_to_note", [3], {"accidentals": "b"}])
    q.append(["fk", "notes", "int_to_note", [3], {}])
    for v in [4.571428571428571, 4.571428571428572, 4.5714285714285705, 2.2857142857142856, 2.285714285714286, 10.666666666666666, 10.666666666666668,
              3.0, 3.0000000000000004, 0.26666666666666666]:
        q.append(["f", "value", "determine", [v]])
    for k in ["C", "c", "A", "a", "Eb", "eb"]:
        q.append(["f", "progressions", "to_chords", [["II7", "bII7", "I7", "II"], k]])
        q.append(["f", "progressions", "to_chords", [["bII", "IIm7", "II"], k]])
        q.append(["scale", "Chromatic", [k], "ascending", []])
        q.append(["scale", "Chromatic", [k], "descending", []])
    q += _every_public_function()
    for n in ["C" + "b" * 12, "C" + "#" * 11 + "b", "E" + "#" * 24, "F" + "b" * 22]:
        q.append(["f", "notes", "note_to_int", [n]])
        q.append(["f", "intervals", "major_third", [n]])
        q.append(["f", "notes", "remove_redundant_accidentals", [n]])
    return q


def _every_public_function():
    """at least one query for every public function of the theory modules (found by introspection, so new entry points are
    picked up too): one-parameter functions by parameter name, the rest from a table of representative arguments"""
    import inspect
    table = {
        ("notes", "is_enharmonic"): [["C#", "Db"], ["C", "D"]], ("notes", "is_valid_note"): [["C#"], ["H"]],
        ("intervals", "interval"): [["C", "E", 2], ["eb", "G", 4]], ("intervals", "unison"): [["C"], ["C", "G"]],
        ("intervals", "get_interval"): [["C", 4], ["C", 4, "G"], ["E", 7, "Eb"], ["B", 11, "F#"], ["C", 4, "C"]],
        ("intervals", "is_perfect_consonant"): [["C", "G"], ["C", "F", False]], ("intervals", "is_imperfect_consonant"): [["C", "E"]],
        ("intervals", "is_dissonant"): [["C", "F"], ["C", "F", True]], ("keys", "is_valid_key"): [["C"], ["x"]], ("keys", "get_key"): [[0], [-3], [6]],
        ("chords", "invert"): [[["C", "E", "G"]]], ("chords", "first_inversion"): [[["C", "E", "G"]]], ("chords", "second_inversion"): [[["C", "E", "G"]]],
        ("chords", "third_inversion"): [[["C", "E", "G", "B"]]],
        ("chords", "determine_triad"): [[["C", "E", "G"]], [["C", "E", "G"], True, True], [["E", "G", "C"], True, True], [["G", "B", "D"], True, True],
                                        [["A", "C", "E"], True], [["D", "F", "A"], False, True]],
        ("chords", "determine_seventh"): [[["G", "B", "D", "F"]], [["G", "B", "D", "F"], True, True, True], [["D", "F", "A", "C"], True]],
        ("chords", "determine_extended_chord5"): [[["C", "E", "G", "Bb", "D"]], [["C", "E", "G", "Bb", "D"], True, True, True]],
        ("chords", "determine_extended_chord6"): [[["C", "E", "G", "Bb", "D", "F#"]], [["C", "E", "G", "Bb", "D", "A"], True]],
        ("chords", "determine_extended_chord7"): [[["C", "E", "G", "Bb", "D", "F", "A"]], [["C", "E", "G", "Bb", "D", "F", "A"], True, True, True]],
        ("chords", "int_desc"): [[1], [3], [6]], ("chords", "determine_polychords"): [[["C", "E", "G", "B", "D", "F#"]], [["C", "E", "G", "D", "F#", "A"], True]],
        ("chords", "triad"): [["E", "C"]], ("chords", "seventh"): [["E", "C"]],
        ("progressions", "tuple_to_string"): [[["III", -1, "m7"]], [["V", 2, ""]]], ("progressions", "interval_diff"): [["I", "V", 7], ["II", "VII", 9]],
        ("progressions", "skip"): [["I"], ["VI", 3]], ("progressions", "substitute_minor_for_major"): [[["I", "IV"], 0], [["IM7"], 0, True]],
        ("progressions", "substitute_major_for_minor"): [[["VIm"], 0], [["IIm7", "V"], 0]],
        ("progressions", "substitute_diminished_for_diminished"): [[["VIIdim"], 0], [["IIdim7"], 0]],
        ("progressions", "substitute_diminished_for_dominant"): [[["VIIdim"], 0], [["V7", "I"], 0]],
        ("value", "subtract"): [[4, 8], [2, 6]], ("value", "tuplet"): [[8, 3, 2], [4, 5, 4]], ("meter", "valid_beat_duration"): [[4], [6], [0.5]],
    }
    single = {"note": ["C", "F#", "Bb"], "key": ["C", "eb", "F#"], "value": [4, 8, 3], "chord": [["C", "E", "G"]], "meter": [[6, 8], [5, 4]]}
    res = []
    for name, mod in sorted(_mods().items()):
        for f, o in sorted(vars(mod).items()):
            if not inspect.isfunction(o) or o.__module__ != mod.__name__ or f.startswith("_") or f == "augment_or_diminish_until_the_interval_is_right":
                continue
            if (name, f) in table:
                res += [["f", name, f, a] for a in table[(name, f)]]
                continue
            params = [p for p in inspect.signature(o).parameters.values()]
            required = [p.name for p in params if p.default is inspect.Parameter.empty]
            if len(required) == 1 and required[0] in single:
                res += [["f", name, f, [a]] for a in single[required[0]]]
    return res


def _qname(q):
    return "%s.%s" % (q[1], q[2]) if q[0] in ("f", "fk") else ("scales.%s.%s" % (q[1], q[3]) if q[0] == "scale" else "keys.Key")


def _mods():
    from mingus.core import chords, intervals, keys, meter, notes, progressions, scales, value
    return {"chords": chords, "intervals": intervals, "keys": keys, "meter": meter, "notes": notes, "progressions": progressions,
            "scales": scales, "value": value}


def run_query(q, mods=None):
    """-> (raw result, normalised JSON-able result)"""
    mods = mods or _mods()
    args = copy.deepcopy(q[3] if q[0] in ("f", "fk") else None)
    try:
        if q[0] == "fk":
            r = getattr(mods[q[1]], q[2])(*args, **copy.deepcopy(q[4]))
        elif q[0] == "f":
            a = [tuple(x) if q[1] == "meter" and isinstance(x, list) else x for x in args]
            r = getattr(mods[q[1]], q[2])(*a)
        elif q[0] == "scale":
            s = getattr(mods["scales"], q[1])(*copy.deepcopy(q[2]))
            r = getattr(s, q[3])(*copy.deepcopy(q[4]))
        else:
            k = mods["keys"].Key(q[1])
            r = [k.key, k.name, k.mode, k.signature]
    except Exception as e:  # noqa - an exception is an answer too; it must be the same one cold and warm
        return None, ["raises", type(e).__name__]
    return r, json.loads(json.dumps(r, default=repr))


_COLD = None


def cold_answers():
    """answers of a fresh interpreter (computed once per process)"""
    global _COLD
    if _COLD is None:
        env = dict(os.environ, PYTHONPATH=os.pathsep.join([REPO, VERIF_DIR]), PYTHONHASHSEED="0", PYTHONDONTWRITEBYTECODE="1", VERIF_REPO=REPO)
        code = ("import json,sys\nfrom props import c15_shared_state as m\nqs=m.battery()\nmods=m._mods()\n"
                "sys.stdout.write('COLD'+json.dumps([m.run_query(q,mods)[1] for q in qs]))")
        p = subprocess.run([sys.executable, "-W", "ignore", "-c", code], capture_output=True, text=True, env=env, cwd=VERIF_DIR)
        if p.returncode != 0 or "COLD" not in p.stdout:
            raise HarnessError("cold interpreter failed: %s" % p.stderr[-800:])
        _COLD = json.loads(p.stdout.split("COLD", 1)[1])
    return _COLD


_EMPTY_AT_IMPORT = None


def _memo_tables():
    """private module-level dicts / lists / sets of the theory modules (and fft) that are EMPTY in a fresh interpreter: these
    are memo tables, not constants.  Found by introspection the first time, i.e. before this process has asked anything."""
    global _EMPTY_AT_IMPORT
    if _EMPTY_AT_IMPORT is None:
        from mingus.extra import fft
        found = []
        for mod in list(_mods().values()) + [fft]:
            for name, val in vars(mod).items():
                if name.startswith("_") and not name.startswith("__") and isinstance(val, (dict, list, set)) and len(val) == 0:
                    found.append((mod, name))
        _EMPTY_AT_IMPORT = found
    return _EMPTY_AT_IMPORT


def _reset():
    """every case starts from cold memo tables, so that a failing history replays from a fresh interpreter"""
    from mingus.extra import fft
    for mod, name in _memo_tables():
        val = getattr(mod, name, None)
        if isinstance(val, (dict, list, set)):
            val.clear()
    if hasattr(fft, "_last_asked"):
        fft._last_asked = None


def _mutate(r, code):
    """edit a returned object in place (lists of lists recursively)"""
    if isinstance(r, dict):
        r["__verif__"] = code
        return True
    if not isinstance(r, list):
        return False
    if r and isinstance(r[code % len(r)], list):
        _mutate(r[code % len(r)], code // 3)
    k = code % 3
    if k == 0:
        r.append("ZZ")
    elif k == 1 and r:
        r.pop()
    elif r:
        r[0] = "QQ"
    else:
        r.append("ZZ")
    return True


def check_history(ctx, case):
    _memo_tables()
    B = battery()
    cold = cold_answers()
    if len(cold) != len(B):
        raise HarnessError("battery size mismatch")
    mods = _mods()
    _reset()
    mutated = set()
    flag = False
    for h in case["history"]:
        qi, code = h[0], h[1]
        q = B[qi % len(B)]
        for _ in range(h[2] - 1 if len(h) > 2 else 0):  # the same question asked several times in a row; the last answer is modified
            run_query(q, mods)
        raw, norm = run_query(q, mods)
        if _qname(q) in mutated:
            flag = True
        if _mutate(raw, code):
            mutated.add(_qname(q))
    probes = range(len(B)) if case["probe"] is None else [i % len(B) for i in case["probe"]]
    for i in probes:
        q = B[i]
        raw1, n1 = run_query(q, mods)
        raw2, n2 = run_query(q, mods)
        ctx.check(n1 == cold[i], "history/differs-from-cold/%s" % _qname(q),
                  lambda: "%r after history %r: %r, cold interpreter says %r" % (q, [_qname(B[h[0] % len(B)]) for h in case["history"]][-6:], n1, cold[i]))
        ctx.check(n1 == n2, "history/twice-in-a-row/%s" % _qname(q), lambda: "%r: %r then %r" % (q, n1, n2))
    ctx.note_case(flag or bool(mutated), ["history:%d-calls" % min(40, len(case["history"]) // 10 * 10), "history:answer-modified" if mutated else "history:nothing-modified"])


def check_fft(ctx, freqs):
    from mingus.extra import fft
    table = list(fft._log_cache)
    fft._last_asked = None
    out = []
    for f in freqs:
        if isinstance(f, list) and len(f) == 3:  # ["b", bucket, fraction]: a point inside a table bucket
            k = f[1] % 128
            lo = table[k - 1] if k > 0 else 0.0
            f = lo + (table[k] - lo) * f[2]
        elif isinstance(f, list):  # [table index, ulp offset]
            x = table[f[0] % len(table)]
            for _ in range(abs(f[1])):
                x = math.nextafter(x, math.inf if f[1] > 0 else -math.inf)
            f = x
        r = ctx.ok("_find_log_index", fft._find_log_index, f)
        if failed(r):
            return
        exp = 128 if (f <= 0 or f > table[127]) else bisect.bisect_left(table, f, 0, 128)
        ctx.check(r == exp, "fft/index", lambda: "lookup(%r) -> %r, table says %r (previous lookups %r)" % (f, r, exp, out[-3:]))
        saved = fft._last_asked
        fft._last_asked = None
        r0 = fft._find_log_index(f)
        fft._last_asked = saved
        ctx.check(r == r0, "fft/history-dependent", lambda: "lookup(%r) -> %r with memory, %r without" % (f, r, r0))
        out.append(f)
    ctx.note_case(len(freqs) >= 3, ["fft:%d" % min(20, len(freqs))])


def check_find_notes(ctx, calls):
    """a sequence of fft.find_notes calls (different tables and maxNote values): each answer depends on its own arguments only"""
    from mingus.extra import fft
    table = list(fft._log_cache)
    for k, (ft, max_note) in enumerate(calls):
        arg = [(float(f), float(a)) for (f, a) in ft]
        r = ctx.ok("find_notes", fft.find_notes, list(arg), max_note) if max_note is not None else ctx.ok("find_notes", fft.find_notes, list(arg))
        if failed(r):
            return
        mn = 100 if max_note is None else max_note
        exp = [0.0] * 129
        for (f, a) in arg:
            if f > 0 and a > 0:
                i = 128 if f > table[127] else bisect.bisect_left(table, f, 0, 128)
                exp[i if i < mn else 128] += a
        ok = isinstance(r, list) and len(r) == 129
        if ok:
            for x, (note, amp) in enumerate(r):
                ok = ok and abs(amp - exp[x]) <= 1e-9 * max(1.0, abs(exp[x])) and ((note is None) if x == 128 else (note is not None and int(note) == x))
        ctx.check(ok, "fft/find_notes", lambda: "call %d of %r: amplitudes %r, expected %r" % (
            k, calls, [(i, a) for i, (n_, a) in enumerate(r) if a][:6] if isinstance(r, list) else r, [(i, a) for i, a in enumerate(exp) if a][:6]))
        if ok:  # the returned notes belong to the caller: changing them must not show in the next answer
            for x, (note, amp) in enumerate(r):
                if note is not None and (amp or x % 16 == k % 16):
                    [note.octave_up, note.augment, lambda note=note: note.from_int(5), note.diminish][(x + k) % 4]()
    ctx.note_case(len(calls) >= 2, ["find_notes:%d-calls" % min(len(calls), 6)])


# ---- (b) arguments are not modified ----------------------------------------------------------------------

def _play_tracks(channels, as_composition=False, bars=False):
    """one track per given channel, on instruments of every kind (percussion included), played with the caller's channel list"""
    from mingus.containers import Bar, Composition, Track
    from mingus.containers.instrument import Instrument, MidiInstrument, MidiPercussionInstrument, Piano
    from mingus.midi.sequencer import Sequencer
    s = Sequencer()
    s.sleep = lambda seconds: None
    tracks = []
    for k in range(len(channels)):
        t = Track([MidiPercussionInstrument(), None, MidiInstrument("Violin"), Piano(), Instrument()][k % 5])
        b = Bar("C", (2, 4))
        b.place_notes("C-4", 4)
        b.place_rest(4)
        t.add_bar(b)
        tracks.append(t)
    if bars:
        return s.play_Bars([t.bars[0] for t in tracks], channels, 240)
    if as_composition:
        c = Composition()
        for t in tracks:
            c.add_track(t)
        return s.play_Composition(c, channels, 240)
    return s.play_Tracks(tracks, channels, 240)


def _arg_calls():
    from mingus.containers import Bar, Note, NoteContainer, Track
    from mingus.containers.instrument import Guitar, Piano
    from mingus.core import chords, intervals, progressions, scales
    from mingus.extra import tunings
    from mingus.midi.midi_file_out import MidiFile
    from mingus.midi.midi_track import MidiTrack
    tun = tunings.get_tuning("Guitar", "Standard", 6, 1)
    return {
        "intervals.invert": lambda a: intervals.invert(a),
        "chords.determine": lambda a: chords.determine(a),
        "chords.determine/short": lambda a: chords.determine(a, True, True, True),
        "chords.determine_triad": lambda a: chords.determine_triad(a[:3]) if len(a) >= 3 else None,
        "chords.determine_seventh": lambda a: chords.determine_seventh(a[:4]) if len(a) >= 4 else None,
        "chords.determine_extended_chord5": lambda a: chords.determine_extended_chord5(a[:5]) if len(a) >= 5 else None,
        "chords.determine_polychords": lambda a: chords.determine_polychords(a),
        "scales.determine": lambda a: scales.determine(a),
        "progressions.determine": lambda a: progressions.determine(a, "C"),
        "progressions.determine/nested": lambda a: progressions.determine([a, a], "G", True),
        "NoteContainer": lambda a: NoteContainer(a),
        "NoteContainer.add_notes": lambda a: NoteContainer("C-2").add_notes(a),
        "NoteContainer.remove_notes": lambda a: NoteContainer(["C", "E", "G"]).remove_notes(a),
        "NoteContainer+": lambda a: NoteContainer() + a,
        "Bar.place_notes": lambda a: Bar().place_notes(a, 4),
        "Bar+": lambda a: Bar() + a,
        "Track.add_notes": lambda a: Track().add_notes(a, 2),
        "Track(Piano).add_notes": lambda a: Track(Piano()).add_notes(a, 2),
        "Piano.can_play_notes": lambda a: Piano().can_play_notes(a),
        "Instrument.set_range": lambda a: Piano().set_range(a),
        "Sequencer.play_Tracks/channels": lambda a: _play_tracks(a),
        "Sequencer.play_Composition/channels": lambda a: _play_tracks(a, True),
        "Sequencer.play_Bars/channels": lambda a: _play_tracks(a, bars=True),
        "Guitar.notes_in_range": lambda a: Guitar().notes_in_range(a),
        "tuning.find_fingering": lambda a: tun.find_fingering(a),
        "tuning.find_chord_fingering": lambda a: tun.find_chord_fingering(a),
        "tuning.find_note_names": lambda a: tun.find_note_names(a, 1),
        "to_chords": lambda a: progressions.to_chords(a, "C"),
        "substitute": lambda a: progressions.substitute(a, 0, 2),
        "substitute_harmonic": lambda a: progressions.substitute_harmonic(a, len(a) - 1),
        "substitute_minor_for_major": lambda a: progressions.substitute_minor_for_major(a, 0),
        "substitute_major_for_minor": lambda a: progressions.substitute_major_for_minor(a, 0, True),
        "substitute_diminished_for_diminished": lambda a: progressions.substitute_diminished_for_diminished(a, 0),
        "substitute_diminished_for_dominant": lambda a: progressions.substitute_diminished_for_dominant(a, 0),
        "Track.from_chords": lambda a: Track().from_chords(a, 1),
        "chords.from_shorthand/list": lambda a: chords.from_shorthand(a),
        "Note/dynamics": lambda a: Note("C", 4, a, velocity=90, channel=3),
        "Note/dynamics-only": lambda a: Note("C", 4, a),
        "Note.set_note/dynamics": lambda a: Note().set_note("D", 3, a),
        "NoteContainer.add_note/dynamics": lambda a: NoteContainer().add_note("C", 4, a),
        "MidiFile": lambda a: MidiFile([MidiTrack(120) for _ in a]).get_midi_data(),
        "fft.analyze_chunks": lambda a: __import__("mingus.extra.fft", fromlist=["x"]).analyze_chunks(a, 44100, 16, 64),
        "fft.find_frequencies": lambda a: __import__("mingus.extra.fft", fromlist=["x"]).find_frequencies(a, 44100, 16),
        "fft.find_Note": lambda a: __import__("mingus.extra.fft", fromlist=["x"]).find_Note(a, 44100, 16),
        "fft.find_notes": lambda a: __import__("mingus.extra.fft", fromlist=["x"]).find_notes(a, 110),
    }


KIND = {"notes": ["intervals.invert", "chords.determine", "chords.determine/short", "chords.determine_triad", "chords.determine_seventh",
                  "chords.determine_extended_chord5", "chords.determine_polychords", "scales.determine", "progressions.determine",
                  "progressions.determine/nested", "NoteContainer", "NoteContainer.add_notes", "NoteContainer.remove_notes", "NoteContainer+",
                  "Bar.place_notes", "Bar+", "Track.add_notes", "Track(Piano).add_notes", "Piano.can_play_notes", "Guitar.notes_in_range",
                  "tuning.find_fingering", "tuning.find_chord_fingering", "tuning.find_note_names"],
        "numerals": ["to_chords", "substitute", "substitute_harmonic", "substitute_minor_for_major", "substitute_major_for_minor",
                     "substitute_diminished_for_diminished", "substitute_diminished_for_dominant"],
        "chordlist": ["Track.from_chords", "chords.from_shorthand/list"],
        "dynamics": ["Note/dynamics", "Note/dynamics-only", "Note.set_note/dynamics", "NoteContainer.add_note/dynamics"],
        "any": ["MidiFile"],
        "range": ["Instrument.set_range"],
        "channels": ["Sequencer.play_Tracks/channels", "Sequencer.play_Composition/channels", "Sequencer.play_Bars/channels"],
        "samples": ["fft.analyze_chunks", "fft.find_frequencies", "fft.find_Note"],
        "freqtable": ["fft.find_notes"]}


def _deep_same(a, b):
    """equality that never asks a library object to compare itself with a plain value"""
    if type(a) is not type(b):
        return False
    if isinstance(a, (list, tuple)):
        return len(a) == len(b) and all(_deep_same(x, y) for x, y in zip(a, b))
    if isinstance(a, dict):
        return set(a) == set(b) and all(_deep_same(a[k], b[k]) for k in a)
    return a == b


def check_args(ctx, case):
    name, arg = case
    f = _arg_calls()[name]
    before = copy.deepcopy(arg)
    raised = None
    try:
        f(arg)
    except Exception as e:  # noqa - rejected input is fine; the argument must still be untouched
        raised = type(e).__name__
    ctx.check(_deep_same(arg, before), "argument-modified/%s" % name, lambda: "%s(%r) left its argument as %r%s" % (
        name, before, arg, " (raised %s)" % raised if raised else ""))
    ctx.note_case(bool(arg), ["args:" + name.split(".")[0], "args:raised" if raised else "args:returned"])


# ---- (c) instances are independent -------------------------------------------------------------------------

def _observe(obj):
    """observable state of an instance, as plain data"""
    from mingus.containers import Bar, Composition, Note, NoteContainer, Suite, Track
    from mingus.containers.instrument import Instrument
    from mingus.midi.midi_file_out import MidiFile
    from mingus.midi.midi_track import MidiTrack
    from mingus.midi.sequencer import Sequencer
    if obj is None or isinstance(obj, (int, float, str, bytes, bool)):
        return obj
    if isinstance(obj, (list, tuple)):
        return [_observe(x) for x in obj]
    if isinstance(obj, dict):
        return {str(k): _observe(v) for k, v in obj.items()}
    if isinstance(obj, Note):
        return ["Note", obj.name, obj.octave, obj.channel, obj.velocity]
    if isinstance(obj, NoteContainer):
        return ["NC", [_observe(n) for n in obj.notes]]
    if isinstance(obj, Bar):
        return ["Bar", obj.key.key, list(obj.meter), obj.length, obj.current_beat, [[e[0], e[1], _observe(e[2])] for e in obj.bar]]
    if isinstance(obj, Track):
        return ["Track", obj.name, _observe(obj.instrument), [_observe(b) for b in obj.bars], _observe(getattr(obj, "tuning", None) and "tuning")]
    if isinstance(obj, Composition):
        return ["Comp", obj.title, obj.subtitle, obj.author, obj.email, [_observe(t) for t in obj.tracks], list(obj.selected_tracks)]
    if isinstance(obj, Suite):
        return ["Suite", obj.title, obj.subtitle, obj.author, obj.email, obj.description, [_observe(c) for c in obj.compositions]]
    if isinstance(obj, Instrument):
        return ["Instr", type(obj).__name__, obj.name, [_observe(obj.range[0]), _observe(obj.range[1])], obj.clef, getattr(obj, "instrument_nr", None),
                _observe(getattr(obj, "mapping", None))]
    if isinstance(obj, MidiTrack):
        return ["MidiTrack", obj.track_data, obj.delta_time, obj.delay, obj.bpm, obj.change_instrument, obj.instrument]
    if isinstance(obj, MidiFile):
        return ["MidiFile", [_observe(t) for t in obj.tracks], obj.time_division]
    if isinstance(obj, Sequencer):
        return ["Sequencer", len(obj.listeners), _observe(getattr(obj, "log", None))]
    return repr(type(obj))


def _class_defaults(cls):
    return {k: _observe(v) for k, v in vars(cls).items() if not k.startswith("__") and not callable(v) and not isinstance(v, (property, staticmethod, classmethod))}


def _factories():
    from mingus.containers import Bar, Composition, Note, NoteContainer, Suite, Track
    from mingus.containers.instrument import Guitar, Instrument, MidiInstrument, MidiPercussionInstrument, Piano
    from mingus.midi.midi_file_out import MidiFile
    from mingus.midi.midi_track import MidiTrack
    from mingus.midi.sequencer import Sequencer

    def bar_with():
        b = Bar("G", (3, 4))
        b.place_notes("D-4", 4)
        return b

    def track_with():
        t = Track()
        t.add_notes(["C-4", "E-4"], 2)
        return t
    return {
        "Note": (Note, lambda: Note(), [
            lambda o: o.set_note("F#", 2, velocity=33, channel=9), lambda o: o.augment(), lambda o: o.transpose("5"), lambda o: o.from_int(30),
            lambda o: o.set_velocity(1), lambda o: o.set_channel(15), lambda o: o.change_octave(-2), lambda o: o.from_hertz(880), lambda o: o.empty()]),
        "NoteContainer": (NoteContainer, lambda: NoteContainer(), [
            lambda o: o.add_note("C"), lambda o: o.add_notes(["E", "G-5"]), lambda o: o + Note("B", 3), lambda o: o.from_chord("Am7"),
            lambda o: o.remove_note("C"), lambda o: o.augment(), lambda o: o.transpose("3"), lambda o: o.from_progression("V7", "D"), lambda o: o.empty(),
            lambda o: o.notes.append(Note("D", 6))]),
        "Bar": (Bar, lambda: Bar(), [
            lambda o: o.place_notes("C-4", 4), lambda o: o.place_rest(8), lambda o: o + ["E-4", "G-4"], lambda o: o.set_meter((6, 8)),
            lambda o: o.transpose("2") if o.bar else None, lambda o: o.remove_last_entry() if o.bar else None, lambda o: o.empty(),
            lambda o: o.__setitem__(0, "A-3") if o.bar else None, lambda o: o.bar.append([0.0, 4, None])]),
        "Track": (Track, lambda: Track(), [
            lambda o: o.add_notes("C-4", 4), lambda o: o.add_notes(None, 2), lambda o: o + "E-4", lambda o: o.add_bar(bar_with()),
            lambda o: o.from_chords(["C", "G7"], 2), lambda o: o.augment(), lambda o: setattr(o, "name", "changed"),
            lambda o: o.set_tuning("x"), lambda o: o.transpose("4", False), lambda o: o.bars.append(bar_with())]),
        "Composition": (Composition, lambda: Composition(), [
            lambda o: o.add_track(track_with()), lambda o: o + Track(), lambda o: o.set_title("T", "S"), lambda o: o.set_author("A", "e@x"),
            lambda o: o.add_note("C-5") if o.tracks else None, lambda o: setattr(o, "selected_tracks", [0]) if o.tracks else None, lambda o: o.empty(),
            lambda o: o.tracks.append(track_with()), lambda o: o.selected_tracks.append(0)]),
        "Suite": (Suite, lambda: Suite(), [
            lambda o: o.add_composition(Composition()), lambda o: o + Composition(), lambda o: o.set_title("T", "S"), lambda o: o.set_author("A", "m"),
            lambda o: o.__setitem__(0, Composition()) if len(o) else None, lambda o: o.compositions.append(Composition())]),
        "Instrument": (Instrument, lambda: Instrument(), [
            lambda o: o.set_range((Note("C", 2), Note("C", 5))), lambda o: setattr(o, "name", "other"), lambda o: setattr(o, "clef", "tenor"),
            lambda o: o.can_play_notes(["C-4"]), lambda o: o.set_range(["D-2", "D-5"]), lambda o: o.set_range(("E-2", "E-5"))]),
        "Piano": (Piano, lambda: Piano(), [lambda o: o.set_range((Note("A", 0), Note("C", 8))), lambda o: setattr(o, "name", "Upright"),
                                           lambda o: o.set_range(["D-2", "D-5"]), lambda o: o.set_range(("E-2", "E-5"))]),
        "Guitar": (Guitar, lambda: Guitar(), [lambda o: o.set_range((Note("E", 2), Note("E", 6))), lambda o: setattr(o, "tuning", "x"),
                                              lambda o: o.set_range(["D-2", "D-5"])]),
        "MidiInstrument": (MidiInstrument, lambda: MidiInstrument(), [lambda o: setattr(o, "instrument_nr", 40), lambda o: setattr(o, "name", "Violin"),
                                                                      lambda o: o.set_range((Note("G", 3), Note("C", 8))), lambda o: o.set_range(["D-2", "D-5"])]),
        "MidiPercussionInstrument": (MidiPercussionInstrument, lambda: MidiPercussionInstrument(), [
            lambda o: o.mapping.__setitem__(35, "Kick"), lambda o: o.mapping.pop(81), lambda o: o.mapping.clear(), lambda o: setattr(o, "name", "Kit"),
            lambda o: o.set_range((Note("C", 2), Note("C", 5)))]),
        "MidiTrack": (MidiTrack, lambda: MidiTrack(100), [
            lambda o: o.play_Note(Note("C", 4)), lambda o: o.play_Bar(bar_with()), lambda o: o.play_Track(track_with()), lambda o: o.set_tempo(90),
            lambda o: o.set_deltatime(5), lambda o: o.set_instrument(2, 30), lambda o: o.set_key("Eb"), lambda o: o.reset()]),
        "MidiFile": (MidiFile, lambda: MidiFile(), [
            lambda o: o.tracks.append(MidiTrack(120)), lambda o: o.get_midi_data(), lambda o: o.reset(), lambda o: setattr(o, "time_division", b"\x00\x60")]),
        "Sequencer": (Sequencer, lambda: Sequencer(), [
            lambda o: o.attach(object()), lambda o: o.play_Note(Note("C", 4)), lambda o: o.play_Bar(bar_with()), lambda o: o.control_change(1, 7, 100),
            lambda o: o.set_instrument(1, 5), lambda o: o.detach(o.listeners[0]) if o.listeners else None, lambda o: o.listeners.append(object())]),
    }


def check_siblings(ctx, case):
    name, script = case
    cls, make, ops = _factories()[name]
    defaults = _class_defaults(cls)
    a, b = make(), make()
    sib = _observe(b)
    fresh0 = _observe(make())
    n = 0
    for k in script:
        try:
            ops[k % len(ops)](a)
            n += 1
        except Exception:  # noqa - a rejected operation is fine
            pass
        ctx.check(_observe(b) == sib, "instances/sibling-changed/%s" % name, lambda: "op %d on one %s changed another: %r -> %r" % (k % len(ops), name, sib, _observe(b)))
    ctx.check(_class_defaults(cls) == defaults, "instances/class-defaults-changed/%s" % name,
              lambda: "%r -> %r" % (defaults, _class_defaults(cls)))
    ctx.check(_observe(make()) == fresh0, "instances/new-instance-inherits-state/%s" % name, lambda: "%r vs %r" % (_observe(make()), fresh0))
    ctx.note_case(n >= 2, ["siblings:" + name])


def check_copies(ctx, case):
    from mingus.containers import Note, NoteContainer
    kind, notes, script, on_copy = case
    if kind == "note":
        n = notes[0]
        orig = Note(n[0], n[1], channel=n[2], velocity=n[3])
        cp = Note(orig)
        ops = [lambda o: o.augment(), lambda o: o.transpose("3"), lambda o: o.set_velocity(5), lambda o: o.set_channel(2), lambda o: o.change_octave(1),
               lambda o: o.from_int(17), lambda o: o.diminish()]
    else:
        orig = NoteContainer([Note(n[0], n[1], channel=n[2], velocity=n[3]) for n in notes])
        cp = NoteContainer(orig)
        ops = [lambda o: o.augment(), lambda o: o.transpose("5"), lambda o: o.add_note("C-7"), lambda o: o.remove_note(o.notes[0]) if o.notes else None,
               lambda o: [x.set_velocity(3) for x in o.notes], lambda o: o.diminish(), lambda o: o.notes[0].change_octave(1) if o.notes else None,
               lambda o: o.empty()]
    ctx.check(_observe(cp) == _observe(orig), "copy/not-equal-to-original", lambda: "%r vs %r" % (_observe(cp), _observe(orig)))
    target, other = (cp, orig) if on_copy else (orig, cp)
    snap = _observe(other)
    for k in script:
        try:
            ops[k % len(ops)](target)
        except Exception:  # noqa
            pass
        ctx.check(_observe(other) == snap, "copy/%s-changed-with-%s" % (("original", "copy") if on_copy else ("copy", "original")),
                  lambda: "%s op %d: %r -> %r" % (kind, k % len(ops), snap, _observe(other)))
    ctx.note_case(len(script) >= 2, ["copies:" + kind])


def check_returned_objects(ctx, case):
    """objects handed out by registries / containers belong to the caller: changing them does not change later answers"""
    from mingus.extra import tunings
    ti, string, script = case
    ts = sorted(tunings.get_tunings(), key=lambda t: (t.instrument, t.description))
    t = ts[ti % len(ts)]
    n = len(t.tuning)
    before = [[(x.name, x.octave) for x in (s_ if isinstance(s_, list) else [s_])] for s_ in t.tuning]
    first = [(lambda r: (r.name, r.octave))(t.get_Note(s_, 0)) for s_ in range(n)]
    for k in script:
        r = t.get_Note(string % n, [0, 0, 5, 12][k % 4])
        [r.octave_up, r.augment, lambda: r.transpose("3"), lambda: r.from_int(1), r.diminish][k % 5]()
        nc = t.frets_to_NoteContainer([0 if (i + k) % 2 else None for i in range(n)])
        nc.augment()
    after = [[(x.name, x.octave) for x in (s_ if isinstance(s_, list) else [s_])] for s_ in t.tuning]
    again = [(lambda r: (r.name, r.octave))(t.get_Note(s_, 0)) for s_ in range(n)]
    ctx.check(after == before and again == first, "returned-object/tuning-changed", lambda: "%s / %s: strings %r -> %r" % (t.instrument, t.description, before, after))
    t2 = tunings.get_tuning(t.instrument, t.description)
    ctx.check(t2 is None or [[(x.name, x.octave) for x in (s_ if isinstance(s_, list) else [s_])] for s_ in t2.tuning] == before or t2 is not t,
              "returned-object/registry-changed", "")
    ctx.note_case(len(script) >= 2, ["returned:tuning"])


def check_fanout(ctx, case):
    """one call that writes into several separately created objects (a note given as text to a composition with several selected
    tracks): afterwards the tracks are as independent as before - editing one in place leaves the others alone"""
    from mingus.containers import Composition, Track
    k, how, text, reps, victim, edit = case
    comp = Composition()
    tracks = [Track() for _ in range(k)]
    for t in tracks:
        comp.add_track(t)
    comp.selected_tracks = list(range(k))
    for _ in range(reps):
        if failed(ctx.ok("Composition." + how, comp.add_note if how == "add_note" else comp.__add__, text)):
            return
    snap = [_observe(t) for t in tracks]
    v = tracks[victim % k]
    edits = [lambda: v.augment(), lambda: v.transpose("3"), lambda: v.bars[0].transpose("5", False), lambda: v.bars[0][0][2].augment(),
             lambda: v.bars[0][0][2][0].octave_up(), lambda: v.bars[0][0][2][0].set_velocity(3), lambda: v.bars[-1][-1][2].add_note("B-6"),
             lambda: v.bars[0].empty()]
    if failed(ctx.ok("edit", edits[edit % len(edits)])):
        return
    for i, t in enumerate(tracks):
        if i != victim % k:
            ctx.check(_observe(t) == snap[i], "instances/sibling-changed/tracks-of-a-composition",
                      lambda: "%r given to %d selected tracks with %s; editing track %d in place (edit %d) changed track %d: %r -> %r" % (
                          text, k, how, victim % k, edit % len(edits), i, snap[i], _observe(t)))
    ctx.note_case(True, ["fanout:composition"])


def check_built_entries(ctx, case):
    """entries that one builder call places on a track (from_chords, with or without a tuning, with repeated chord names) are
    separately created containers: no container or note object sits in two entries, and editing one entry in place leaves
    every other entry alone"""
    from mingus.containers import Track
    from mingus.extra import tunings
    chordlist, dur, tuned, victim, edit = case
    t = Track()
    if tuned:
        t.set_tuning(tunings.get_tuning("Guitar", "Standard", 6, 1))
    if failed(ctx.ok("Track.from_chords", t.from_chords, chordlist, dur)):
        return
    entries = [e[2] for e in t.get_notes() if e[2] is not None]
    seen = {}
    for i, nc in enumerate(entries):
        for o in [nc] + list(nc):
            j = seen.setdefault(id(o), i)
            ctx.check(j == i, "instances/entries-of-one-builder-call-share-objects",
                      lambda: "from_chords(%r, %r)%s: entries %d and %d hold the same %s object" % (
                          chordlist, dur, " with a tuning" if tuned else "", j, i, type(o).__name__))
    if len(entries) >= 2:
        v = entries[victim % len(entries)]
        snap = [_observe(x) for x in entries]
        edits = [lambda: v.augment(), lambda: v.transpose("3"), lambda: v[0].octave_up(), lambda: v.add_note("B-7"), lambda: v.remove_note(v[0])]
        if not failed(ctx.ok("edit", edits[edit % len(edits)])):
            for i, x in enumerate(entries):
                if i != victim % len(entries):
                    ctx.check(_observe(x) == snap[i], "instances/sibling-changed/entries-of-one-builder-call",
                              lambda: "from_chords(%r, %r)%s: editing entry %d in place (edit %d) changed entry %d: %r -> %r" % (
                                  chordlist, dur, " with a tuning" if tuned else "", victim % len(entries), edit % len(edits), i, snap[i], _observe(x)))
    ctx.note_case(len(entries) >= 2, ["built-entries:" + ("tuned" if tuned else "plain")])


def check_scale_object(ctx, case):
    """one scale object asked several questions in a drawn order answers each like a fresh object does: no answer depends on
    what the same object was asked before (directions, degrees, lists, len, str in any order)"""
    from mingus.core import scales
    cls_name, tonic, octs, script = case
    cls = getattr(scales, cls_name)
    qs = [lambda o: o.ascending(), lambda o: o.descending(), lambda o: o.degree(1, "a"), lambda o: o.degree(1, "d"), lambda o: o.degree(6, "a"),
          lambda o: o.degree(6, "d"), lambda o: o.degree(2), lambda o: o.degree(7, "d"), lambda o: len(o), lambda o: str(o), lambda o: o.degree(3, "d"),
          lambda o: o.degree(3, "a")]

    def ask(o, k):
        try:
            return ["ok", qs[k % len(qs)](o)]
        except Exception as e:  # noqa - the same exception class is the same answer
            return ["raises", type(e).__name__]
    try:
        obj = cls(tonic, octs)
    except Exception:  # noqa - C05's subject
        return ctx.note_case(False, [])
    for i, k in enumerate(script):
        got = ask(obj, k)
        want = ask(cls(tonic, octs), k)
        ctx.check(got == want, "history/scale-object-remembers-earlier-questions",
                  lambda: "%s(%r, %d): question %d asked after %r gives %r, a fresh object gives %r" % (cls_name, tonic, octs, k % len(qs), [x % len(qs) for x in script[:i]], got, want))
    ctx.note_case(len(script) >= 2, ["scale-object:" + cls_name])


CHECKS = {"scale_object": check_scale_object, "built_entries": check_built_entries, "fanout": check_fanout, "returned": check_returned_objects, "history": check_history, "fft": check_fft, "find_notes": check_find_notes, "args": check_args, "siblings": check_siblings, "copies": check_copies}


# ---- generators ----------------------------------------------------------------------------------------

def sub_history(ctx, shard, n):
    nb = len(battery())
    rep = st.sampled_from([1, 1, 2, 3])
    hist = st.lists(st.tuples(st.integers(0, nb - 1), st.integers(0, 26), rep).map(list), min_size=10, max_size=40) | st.just([])
    # focused histories: hammer one region of the battery (same key / same function family) so cache rows are reused
    focus = st.integers(0, nb - 1).flatmap(lambda c: st.lists(st.tuples(st.integers(max(0, c - 8), min(nb - 1, c + 8)), st.integers(0, 26), rep).map(list),
                                                               min_size=6, max_size=25))
    if ctx.quick:
        probe = st.lists(st.integers(0, nb - 1), min_size=20, max_size=60)
        strat = st.fixed_dictionaries({"history": hist | focus, "probe": probe})
        # always probe the neighbourhood of what the history touched as well
        strat = strat.map(lambda c: {"history": c["history"], "probe": c["probe"] + [h[0] for h in c["history"]] + [h[0] + d for h in c["history"][:12] for d in range(-8, 9)]})
        ctx.given("history", check_history, strat, 250)
    else:
        strat = st.fixed_dictionaries({"history": hist | focus, "probe": st.none()})
        ctx.given("history", check_history, strat, 600)


def sub_mutate_each(ctx, shard, n):
    """systematic: for every battery query, from cold memo tables: ask it (once or twice), modify the answer in place in three
    ways, then ask it and its neighbourhood again"""
    nb = len(battery())
    cases = [{"history": [[i, code, rep]], "probe": [i + d for d in range(-10, 11)]} for i in range(nb) for code in (0, 1, 2) for rep in (1, 2)]
    if shard == 0:
        ctx.exhaustive("modify the answer of each battery query, then re-ask its neighbourhood", "%d queries x 3 modifications x {once, twice}" % nb, len(cases))
    ctx.enumerate("history", check_history, cases[shard::n], size_key=lambda c: c["history"][0][0])


def sub_fft(ctx, shard, n):
    f = st.one_of(st.tuples(st.integers(0, 128), st.integers(-2, 2)).map(list), st.floats(min_value=1.0, max_value=14000.0),
                  st.floats(min_value=20000.0, max_value=60000.0), st.sampled_from([1e9, math.inf]),
                  st.floats(min_value=-5.0, max_value=9.0), st.floats(min_value=12000.0, max_value=20000.0),
                  st.floats(min_value=0.0, max_value=1.0).map(lambda u: 8.0 * 2 ** (u * 10.7)))
    # local walks: lookups that wander over a few neighbouring buckets (this is where position memory can go stale)
    walk = st.integers(1, 125).flatmap(lambda n: st.lists(
        st.tuples(st.just("b"), st.integers(n - 1, n + 2), st.floats(min_value=0.001, max_value=1.0)).map(list), min_size=3, max_size=20))
    # the top of the table: the last two entries and everything above them (position memory must not walk off the end)
    top = st.lists(st.tuples(st.integers(126, 128), st.integers(-2, 2)).map(list) | st.floats(min_value=23000.0, max_value=40000.0), min_size=2, max_size=8)
    ctx.given("fft", check_fft, st.lists(f, min_size=1, max_size=25) | walk | walk | top, 500 if ctx.quick else 5000)
    pair = st.tuples(st.floats(min_value=-10.0, max_value=15000.0) | st.floats(min_value=20.0, max_value=500.0), st.floats(min_value=-1.0, max_value=10.0)).map(list)
    call = st.tuples(st.lists(pair, min_size=0, max_size=6), st.none() | st.sampled_from([100, 128, 60, 0, 129, 127, 101])).map(list)
    ctx.given("find_notes", check_find_notes, st.lists(call, min_size=1, max_size=6), 200 if ctx.quick else 3000)


def sub_args(ctx, shard, n):
    names = st.sampled_from(T.unmixed_names(1) + ["C-4", "G#-3", "Bb-5"])
    notes = st.lists(names, min_size=0, max_size=7)
    # the documented nested forms: [name, octave] and [name, octave, dynamics] items (compared deeply afterwards)
    bare = st.sampled_from(T.unmixed_names(1))
    item = names | st.tuples(bare, st.integers(0, 8)).map(list) | st.tuples(bare, st.integers(0, 8), st.fixed_dictionaries({"velocity": st.integers(0, 127)})).map(list)
    nested = st.lists(item, min_size=1, max_size=5)
    container_calls = ["NoteContainer", "NoteContainer.add_notes", "NoteContainer.remove_notes", "NoteContainer+", "Bar.place_notes", "Bar+", "Track.add_notes",
                       "Track(Piano).add_notes", "Piano.can_play_notes", "Guitar.notes_in_range"]
    numerals = st.lists(st.sampled_from(["I", "ii", "III", "IV", "V7", "vi", "VII", "bII", "#IVdim", "Im7", "VIIdim7", "IM7", "viidim", "X"]), min_size=1, max_size=5)
    chord = st.sampled_from(["C", "Am", "G7", "F#dim", "Bbmaj7"]) | st.none()
    chordlist = st.lists(st.recursive(chord, lambda c: st.lists(c, min_size=1, max_size=3), max_leaves=5), min_size=1, max_size=4)
    dyn = st.dictionaries(st.sampled_from(["velocity", "channel", "volume", "x"]), st.integers(0, 15), max_size=3)
    strat = st.one_of(
        st.tuples(st.sampled_from(KIND["notes"]), notes), st.tuples(st.sampled_from(KIND["notes"]), notes),
        st.tuples(st.sampled_from(container_calls), nested), st.tuples(st.sampled_from(KIND["notes"]), nested),
        st.tuples(st.sampled_from(KIND["numerals"]), numerals), st.tuples(st.sampled_from(KIND["chordlist"]), chordlist),
        st.tuples(st.sampled_from(KIND["dynamics"]), dyn), st.tuples(st.sampled_from(KIND["any"]), notes),
        st.tuples(st.sampled_from(KIND["channels"]), st.lists(st.integers(0, 15), min_size=1, max_size=5)),
        st.tuples(st.sampled_from(KIND["range"]), st.lists(st.sampled_from(["C-2", "A-0", "E-3", "C-5", "G-6", "C-8", "Bb-1"]), min_size=2, max_size=2)),
        st.tuples(st.sampled_from(KIND["samples"]), st.lists(st.integers(-2000, 2000), min_size=64, max_size=200)),
        st.tuples(st.sampled_from(KIND["freqtable"]), st.lists(st.tuples(st.floats(20.0, 5000.0), st.floats(0.0, 9.0)).map(list), min_size=1, max_size=6))).map(list)
    ctx.given("args", check_args, strat, 1200 if ctx.quick else 15000)


def sub_instances(ctx, shard, n):
    names = sorted(_factories())
    strat = st.tuples(st.sampled_from(names), st.lists(st.integers(0, 40), min_size=1, max_size=10)).map(list)
    ctx.enumerate("siblings", check_siblings, [[nm, list(range(12))] for nm in names])
    ctx.given("siblings", check_siblings, strat, 400 if ctx.quick else 5000)
    note = st.tuples(st.sampled_from(T.unmixed_names(1)), st.integers(1, 6), st.integers(0, 15), st.integers(0, 127)).map(list)
    cps = st.tuples(st.sampled_from(["note", "nc"]), st.lists(note, min_size=1, max_size=4, unique_by=lambda x: T.pitch(x[0], x[1])),
                    st.lists(st.integers(0, 40), min_size=1, max_size=6), st.booleans()).map(list)
    ctx.given("copies", check_copies, cps, 400 if ctx.quick else 5000)
    ctx.enumerate("fanout", check_fanout, [[k, how, text, reps, victim, edit] for k in (2, 3) for how in ("add_note", "plus") for text in ("C", "F#-3")
                                           for reps in (1, 5) for victim in range(k) for edit in range(8)])
    SC = [("MelodicMinor", "A"), ("MinorNeapolitan", "E"), ("Chromatic", "C"), ("Major", "Bb"), ("Dorian", "D"), ("HarmonicMinor", "F#"), ("WholeTone", "C"),
          ("Bachian", "G"), ("Octatonic", "C")]
    ctx.enumerate("scale_object", check_scale_object, [[c, t, o, sc] for c, t in SC for o in (1, 2)
                                                       for sc in ([4, 5], [5, 4], [2, 3, 5], [0, 5, 1, 4], [3, 2, 7, 6, 10, 11], [8, 9, 5, 4, 1, 0])])
    ctx.enumerate("built_entries", check_built_entries, [[ch, d, tuned, victim, edit] for ch in (["C", "G", "C"], ["Am", "Am"], ["C", None, "C", "F", "C"], [["E7", "E7"], "Am"])
                                                         for d in (1, 2) for tuned in (False, True) for victim in (0, 1, 2) for edit in range(5)])
    ret = st.tuples(st.integers(0, 75), st.integers(0, 11), st.lists(st.integers(0, 40), min_size=1, max_size=5)).map(list)
    ctx.given("returned", check_returned_objects, ret, 150 if ctx.quick else 2000)


SUBS = [
    Sub("history", sub_history, quick=6, thorough=16),
    Sub("mutate_each", sub_mutate_each, quick=6, thorough=8),
    Sub("fft", sub_fft, quick=1, thorough=4),
    Sub("args", sub_args, quick=2, thorough=8),
    Sub("instances", sub_instances, quick=2, thorough=8),
]
