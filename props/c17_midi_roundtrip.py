"""C17 - writing a composition to MIDI and reading it back returns the same music (midi_file_in.py)."""
import io
import os
import tempfile

from hypothesis import strategies as st

from mingus.midi import midi_file_in as MFI
from mingus.midi import midi_file_out as MFO
from mingus.midi.midi_track import MidiTrack

from vlib import mg
from vlib.core import Sub, failed
from vlib.ref import midimodel as MM
from vlib.ref import scoregen as SG
from vlib.ref import smf
from vlib.ref import theory as T

PROPERTY_ID = "C17"
RULE = ("R-score compositions restricted to velocity 1-127 and values with an integral tick count (plain, dotted, triplets), 1-3 "
        "tracks, chords, rests in every position, channels 0-15, all 30 keys, 14 meters, names, MIDI instruments: written with "
        "write_Composition, read back with MIDI_to_Composition and compared on the flattened (ticks, pitch set) sequence, "
        "per-entry (pitch, channel, velocity) multisets, tempo, names, instrument numbers and - for tracks in one key and meter - "
        "key and meter of every bar; bpm 4..1000 exhaustively; every key x meter systematically; the VLQ reader on the reference "
        "encoding of a dense range and all power-of-two neighbourhoods (thorough: all 2^28 values); corrupted header/track tags "
        "and format words. Non-trivial: a score with a rest and a chord, a key with accidentals, or a leading rest; a bpm that "
        "is not a divisor of 60000000; a VLQ range above 127; every corruption. Also: compositions with a track that has no bars "
        "among the others; whole tags replaced by the other chunk tag / foreign tags."
        ' Also: values given as 288/k ticks, names of 120-300 characters, twin bars, shared instrument objects, tempo-carrying containers, and one reader object used for two different files; a track without bars among the others, chords that are not in ascending order (after item assignment), entries held in a user subclass of NoteContainer and instruments of a user subclass of MidiInstrument. Bars holding one entry in every meter are enumerated.')
ASSUMPTIONS = ["instrument numbers are compared for tracks with at least one sounding note (the program change rides on the first note-on)",
               "bars are re-cut by the reader: note content is compared on the flattened sequence only",
               "bpm domain 4..7000 (above ~7745 the 24-bit microseconds-per-quarter field cannot represent every integer bpm)",
               "a rejected file is any raised exception"]


def _write_comp(comp, bpm):
    with tempfile.TemporaryDirectory(prefix="verif_c17_") as d:
        path = os.path.join(d, "t.mid")
        if MFO.write_Composition(path, comp, bpm) is not True:
            raise mg.BuildError("write_Composition returned False")
        with open(path, "rb") as f:
            return f.read()


_OTHER = None


def _other_file():
    """a fixed, different MIDI file read first through the same reader object (two tracks, 7/8, key f#, tempo 77)"""
    global _OTHER
    if _OTHER is None:
        cd = {"title": "", "subtitle": "", "author": "", "tracks": [
            {"name": "other", "instr": {"kind": "midi", "nr": 99, "name": ""}, "bars": [{"key": "f#", "meter": [7, 8], "entries": [
                {"v": [8, 0, 1, 1], "notes": None}, {"v": [4, 1, 1, 1], "notes": [["A", 5, 9, 33], ["C#", 6, 9, 44]]}, {"v": [4, 1, 1, 1], "notes": None}]}]},
            {"name": "second", "instr": None, "bars": [{"key": "f#", "meter": [7, 8], "entries": [{"v": [8, 0, 1, 1], "notes": [["F#", 2, 3, 120]]}]}]}]}
        _OTHER = _write_comp(mg.build_comp(cd), 77)
    return _OTHER


def _read(ctx, data, reuse=False):
    with tempfile.TemporaryDirectory(prefix="verif_c17_") as d:
        path = os.path.join(d, "r.mid")
        with open(path, "wb") as f:
            f.write(data)
        if not reuse:
            return ctx.ok("read", MFI.MIDI_to_Composition, path)
        # the same reader object used for another file first
        other = os.path.join(d, "o.mid")
        with open(other, "wb") as f:
            f.write(_other_file())
        m = MFI.MidiFile()
        ctx.ok("read", m.MIDI_to_Composition, other)
        return ctx.ok("read", m.MIDI_to_Composition, path)


def _flat_real(track):
    out = []
    per_entry = []
    for b in track.bars:
        for beat, dur, nc in b.bar:
            d = int(round(288.0 / dur))
            ps = sorted(int(n) for n in nc) if nc else []
            if not ps and out and not out[-1][1]:
                out[-1][0] += d
            else:
                out.append([d, ps])
            if ps:
                per_entry.append(sorted([int(n), n.channel, n.velocity] for n in nc))
    while out and not out[-1][1]:
        out.pop()
    return out, per_entry


def check_roundtrip(ctx, case):
    cd, bpm = case["comp"], case["bpm"]
    comp = mg.build_comp(cd)
    try:
        data = _write_comp(comp, bpm)
        smf.parse(data)
    except Exception as e:  # noqa - the writer is C16's subject; without a well-formed file there is nothing to read back
        ctx.label("writer-failed")
        ctx.note_case(False, [])
        return
    r = _read(ctx, data, reuse=bool(case.get("reuse")))
    if failed(r):
        return
    if not ctx.check(isinstance(r, tuple) and len(r) == 2, "read/result-shape", repr(type(r))):
        return
    comp2, bpm2 = r
    carried = [e["bpm"] for td in cd["tracks"] for e in SG.entries_of(td) if "bpm" in e]
    if not carried:  # with tempo-carrying containers the reader reports the last tempo it met; only the plain case is stated
        ctx.check(bpm2 == bpm, "tempo", lambda: "wrote %d bpm, read %r" % (bpm, bpm2))
    else:
        ctx.check(bpm2 in set(carried) | {bpm}, "tempo", lambda: "wrote %d bpm and tempo marks %r, read %r" % (bpm, carried, bpm2))
    if not ctx.check(len(comp2.tracks) == len(cd["tracks"]), "track-count", lambda: "wrote %d tracks, read %d" % (len(cd["tracks"]), len(comp2.tracks))):
        return
    for i, (td, t2) in enumerate(zip(cd["tracks"], comp2.tracks)):
        exp = MM.flatten(td)
        got, per_entry = _flat_real(t2)
        ctx.check(got == exp, "notes/flattened-sequence", lambda: "track %d: wrote %r, read %r" % (i, exp[:12], got[:12]))
        exp_entries = [sorted([T.pitch(n[0], n[1]), n[2], n[3]] for n in e["notes"]) for e in SG.entries_of(td) if e["notes"]]
        ctx.check(per_entry == exp_entries, "notes/channel-velocity", lambda: "track %d: wrote %r, read %r" % (i, exp_entries[:6], per_entry[:6]))
        ctx.check(t2.name == (td["name"] if td["name"] is not None else "Untitled"), "track-name", lambda: "track %d: %r vs %r" % (i, t2.name, td["name"]))
        sounding = bool(exp_entries)
        if td["instr"] and td["instr"]["kind"] == "midi":
            if sounding:
                ctx.check(getattr(t2.instrument, "instrument_nr", None) == td["instr"]["nr"], "instrument-number",
                          lambda: "track %d: wrote %r, read %r" % (i, td["instr"]["nr"], getattr(t2.instrument, "instrument_nr", None)))
        else:
            ctx.check(getattr(t2.instrument, "instrument_nr", None) is None, "instrument-invented", lambda: "track %d: %r" % (i, t2.instrument))
        if case.get("uniform") and td["bars"]:
            key, meter = td["bars"][0]["key"], td["bars"][0]["meter"]
            for j, b in enumerate(t2.bars):
                ctx.check(tuple(b.meter) == tuple(meter), "bar-meter", lambda: "track %d bar %d: meter %r, wrote %r" % (i, j, b.meter, meter))
                ctx.check(b.key.key == key, "bar-key", lambda: "track %d bar %d: key %r, wrote %r" % (i, j, b.key.key, key))
    f = SG.features(cd)
    nt = ("rest" in f and "chord" in f) or "key-with-accidentals" in f or "leading-rest" in f
    ctx.note_case(nt, ["rt:" + x for x in sorted(f)] + (["rt:uniform"] if case.get("uniform") else []))


def check_bpm(ctx, bpm):
    cd = {"title": "", "subtitle": "", "author": "", "tracks": [
        {"name": "t", "instr": None, "bars": [{"key": "C", "meter": [4, 4], "entries": [{"v": [4, 0, 1, 1], "notes": [["C", 4, 0, 64]]}]}]}]}
    data = _write_comp(mg.build_comp(cd), bpm)
    r = _read(ctx, data)
    if not failed(r):
        ctx.check(r[1] == bpm, "tempo", lambda: "wrote %d bpm, read %r" % (bpm, r[1]))
    ctx.note_case(60000000 % bpm != 0, ["bpm"])


def check_vlq(ctx, case):
    lo, hi = case
    rd = MFI.MidiFile().parse_varbyte_as_int
    wr = MidiTrack().int_to_varbyte
    bad = None
    for n in range(lo, hi):
        e = smf.vlq_encode(n)
        try:
            r = rd(io.BytesIO(e + b"\x00"))
            r2 = rd(io.BytesIO(wr(n) + b"\x7f"))
        except Exception as ex:  # noqa
            bad = (n, repr(ex))
            break
        if tuple(r) != (n, len(e)) or tuple(r2) != (n, len(e)):
            bad = (n, "%r / %r" % (r, r2))
            break
    ctx.evaluations += max(0, hi - lo - 1)
    if bad is not None:
        ctx.fail("vlq/reader", "parse_varbyte_as_int(encoding of %d) -> %s" % bad)
    ctx.note_case(hi > 128, ["vlq:range"])


SWAP_TAGS = [b"MTrk", b"MThd", b"RIFF", b"mthd", b"mtrk", b"dhTM", b"krTM", b"MThD", b"MTrK", b"\0\0\0\0", b"XFIH", b"MTr\n"]


def check_corrupt(ctx, case):
    kind, pos, val = case
    cd = {"title": "", "subtitle": "", "author": "", "tracks": [
        {"name": "a", "instr": None, "bars": [{"key": "G", "meter": [3, 4], "entries": [{"v": [4, 0, 1, 1], "notes": [["C", 4, 0, 64]]}]}]},
        {"name": "b", "instr": None, "bars": [{"key": "G", "meter": [3, 4], "entries": [{"v": [2, 0, 1, 1], "notes": [["E", 4, 1, 70]]}]}]}]}
    data = bytearray(_write_comp(mg.build_comp(cd), 120))
    if kind == "header-tag":
        i = pos % 4
    elif kind == "track-tag":
        offs = [k for k in range(len(data) - 3) if bytes(data[k:k + 4]) == b"MTrk"]
        i = offs[pos % len(offs)] + (pos // len(offs)) % 4
    elif kind in ("header-swap", "track-swap"):  # the whole four-byte tag replaced by another tag (other chunk types included)
        tag = SWAP_TAGS[val % len(SWAP_TAGS)]
        if kind == "header-swap":
            at = 0
        else:
            offs = [k for k in range(len(data) - 3) if bytes(data[k:k + 4]) == b"MTrk"]
            at = offs[pos % len(offs)]
        if bytes(data[at:at + 4]) == tag:
            return ctx.note_case(False, ["corrupt:no-change"])
        data[at:at + 4] = tag
        i = None
    else:  # format word (bytes 8..9) set to a value outside {0,1,2}
        v = 3 + val % 65533
        data[8], data[9] = v >> 8, v & 255
        i = None
    if i is not None:
        nv = val % 256
        if nv == data[i]:
            nv = (nv + 1) % 256
        data[i] = nv
    with tempfile.TemporaryDirectory(prefix="verif_c17_") as d:
        path = os.path.join(d, "c.mid")
        with open(path, "wb") as f:
            f.write(bytes(data))
        try:
            r = MFI.MIDI_to_Composition(path)
        except Exception:  # noqa - any error class
            r = None
        else:
            ctx.fail("corrupt/%s/accepted" % kind, "file with corrupted %s (byte %r) was returned as music: %r" % (kind, i, r))
    ctx.note_case(True, ["corrupt:" + kind])


CHECKS = {"roundtrip": check_roundtrip, "bpm": check_bpm, "vlq": check_vlq, "corrupt": check_corrupt}


def _cfg(**kw):
    groups = SG.plain_groups(bases=(1, 2, 4, 8, 16, 32), max_dots=2, ok=MM.integral_tick)
    base = dict(groups=groups, min_pitch=-12, max_pitch=115, velocities=st.integers(1, 127), max_bars=3, max_groups=6, max_tracks=3,
                text=st.text(alphabet=st.characters(min_codepoint=32, max_codepoint=126), max_size=10), partial_last=True, rest_p=3,
                instruments=["none", "midi", "midi", "generic", "percussion"])
    # values given as 288/k (k whole ticks), outside the named vocabulary
    base["groups"] = base["groups"] + [[["ticks", k]] for k in (1, 2, 3, 5, 7, 10, 11, 13, 14, 28, 31, 35, 56, 59, 62, 77, 100, 112, 115, 118, 124, 143, 211, 224, 250)]
    long_name = st.text(alphabet=st.characters(min_codepoint=32, max_codepoint=126), min_size=120, max_size=300)
    # any 7-bit characters, control characters and NUL included (at the ends too): a name is a length-prefixed byte string
    ctrl = st.text(alphabet=st.characters(min_codepoint=0, max_codepoint=127), min_size=1, max_size=8)
    ends = st.builds(lambda a, m, z: a + m + z, st.sampled_from(["", "\x00", "\n", "\t", " ", "\x7f"]), st.text(alphabet="abcXYZ 09", max_size=6),
                     st.sampled_from(["", "\x00", "\x00\x00", "\n", "\r\n", " ", "\x7f"]))
    base["text"] = st.one_of(base["text"], base["text"], base["text"], long_name, ctrl, ends)
    base["twin_p"] = 5
    base["empty_track_p"] = 5
    base["subclass_p"] = 8
    base["unsorted_p"] = 6
    base["twin_entry_p"] = 6
    base["duck_instruments"] = True
    base["same_bar_p"] = 6
    base["reuse_p"] = 6
    base["share_instruments"] = True
    base.update(kw)
    return SG.Cfg(**base)


def sub_random(ctx, shard, n):
    strat = st.fixed_dictionaries({"comp": SG.comp_st(_cfg()) | SG.comp_st(_cfg(bpm_p=5, bpms=st.integers(4, 1000))),
                                   "bpm": st.integers(4, 1000) | st.integers(4, 7000), "uniform": st.just(False),
                                   "reuse": st.booleans()})
    ctx.given("roundtrip", check_roundtrip, strat, 300 if ctx.quick else 1500)


def sub_uniform(ctx, shard, n):
    strat = st.fixed_dictionaries({"comp": SG.comp_st(_cfg(same_meter_key=True)), "bpm": st.integers(4, 1000), "uniform": st.just(True), "reuse": st.booleans()})
    ctx.given("roundtrip", check_roundtrip, strat, 300 if ctx.quick else 1500)


def sub_keys_meters(ctx, shard, n):
    cases = []
    for i, key in enumerate(T.ALL_KEYS):
        for j, m in enumerate(SG.ALL_METERS):
            if m[1] > 32 or (i + j) % (4 if ctx.quick else 1):
                continue
            v = [m[1], 0, 1, 1]
            ents = [{"v": v, "notes": None if (k + i) % 3 == 0 else [["D", 4, (i + k) % 16, 1 + (7 * j + k) % 127], ["F#", 5, i % 16, 100]]}
                    for k in range(m[0])]
            td = {"name": "k%d" % i, "instr": {"kind": "midi", "nr": (i * 7 + j) % 128, "name": ""},
                  "bars": [{"key": key, "meter": m, "entries": ents}, {"key": key, "meter": m, "entries": ents[::-1]}]}
            cases.append({"comp": {"title": "", "subtitle": "", "author": "", "tracks": [td]}, "bpm": 4 + (i * 37 + j * 11) % 997, "uniform": True})
    ctx.exhaustive("round trip: every key x every meter", "30 keys x 72 meters" + (" (every fourth)" if ctx.quick else ""), len(cases))
    ctx.enumerate("roundtrip", check_roundtrip, cases[shard::n])


def sub_bpm(ctx, shard, n):
    bpms = list(range(4, 1001)) + ([] if ctx.quick else list(range(1001, 7001)))
    if shard == 0:
        ctx.exhaustive("tempo round trip", "bpm 4..%d" % bpms[-1], len(bpms))
    ctx.enumerate("bpm", check_bpm, bpms[shard::n])


def sub_vlq(ctx, shard, n):
    if ctx.quick:
        ranges = [[0, 100001]] + [[max(0, 2 ** k - 300), min(2 ** 28, 2 ** k + 300)] for k in range(7, 29)]
        if shard == 0:
            ctx.exhaustive("parse_varbyte_as_int", "0..100000 and +-300 around every power of two up to 2^28", sum(h - l for l, h in ranges))
    else:
        step = 2 ** 20
        ranges = [[lo, lo + step] for lo in range(0, 2 ** 28, step)]
        if shard == 0:
            ctx.exhaustive("parse_varbyte_as_int", "all integers 0 .. 2^28-1", 2 ** 28)
    ctx.enumerate("vlq", check_vlq, ranges[shard::n])


def _many_tracks(k):
    """a composition of k short tracks (the track count of the header is a 16-bit number)"""
    tracks = []
    for i in range(k):
        tracks.append({"name": "t%d" % i, "instr": None if i % 3 else {"kind": "midi", "nr": (i * 7) % 128, "name": ""},
                       "bars": [{"key": "C", "meter": [2, 4], "entries": [{"v": [4, 0, 1, 1], "notes": [["C", 2 + i % 5, i % 16, 1 + (i * 11) % 127]]},
                                                                              {"v": [4, 0, 1, 1], "notes": None}]}]})
    return {"title": "many", "subtitle": "", "author": "", "tracks": tracks}


def sub_many_tracks(ctx, shard, n):
    mt = [{"comp": _many_tracks(k), "bpm": 120} for k in (9, 10, 11, 15, 16, 17, 20, 33, 100, 256, 300)]
    ctx.exhaustive("compositions of many tracks", "9 .. 300 tracks", len(mt))
    ctx.enumerate("roundtrip", check_roundtrip, mt)
    # bars holding one entry (a rest or a note of value 1, 2, 4 or the beat unit) in every meter
    lone = []
    for t in SG.lone_entry_tracks():
        for b in t["bars"]:
            for e in b["entries"]:
                if e["notes"] == []:
                    e["notes"] = None
        lone.append({"comp": {"title": "lone", "subtitle": "", "author": "", "tracks": [t]}, "bpm": 120})
    ctx.enumerate("roundtrip", check_roundtrip, lone)


def sub_corrupt(ctx, shard, n):
    cases = [["header-tag", p, v] for p in range(4) for v in (0, 32, 77, 84, 104, 100, 255)] + \
            [["track-tag", p, v] for p in range(8) for v in (0, 32, 77, 84, 114, 107, 255)] + \
            [["format", 0, v] for v in (0, 1, 2, 252, 253, 65532, 1000, 255, 256)] + \
            [[k, p, v] for k in ("header-swap", "track-swap") for p in range(2) for v in range(len(SWAP_TAGS))]
    ctx.exhaustive("corrupted tags / format words", "4 header bytes, 8 track-tag bytes x 7 values, 9 format words", len(cases))
    ctx.enumerate("corrupt", check_corrupt, cases)
    strat = st.tuples(st.sampled_from(["header-tag", "track-tag", "format", "header-swap", "track-swap"]), st.integers(0, 7), st.integers(0, 65535)).map(list)
    ctx.given("corrupt", check_corrupt, strat, 150 if ctx.quick else 3000)


SUBS = [
    Sub("random", sub_random, quick=4, thorough=16),
    Sub("uniform", sub_uniform, quick=4, thorough=16),
    Sub("keys_meters", sub_keys_meters, quick=2, thorough=4),
    Sub("bpm", sub_bpm, quick=2, thorough=8),
    Sub("vlq", sub_vlq, quick=3, thorough=16),
    Sub("many_tracks", sub_many_tracks),
    Sub("corrupt", sub_corrupt),
]
