"""C02 - named interval constructors, semitone measure, consonance predicates (mingus/core/intervals.py)."""
from hypothesis import strategies as st

from mingus.core import intervals

from vlib.core import Sub, failed
from vlib.hanglatch import latched
from vlib.ref import theory as T

PROPERTY_ID = "C02"
RULE = ("constructors: every name = letter x every '#'/'b' string up to length k in all orders (quick k=6, thorough k=9, "
        "enumerated) x the 17 named constructors, plus Hypothesis names with accidental strings of length 6..40; "
        "measure/consonance: all ordered pairs of names (k<=4 quick, k<=6 thorough, enumerated) x measure x the four "
        "predicates x include_fourths in {True, False}. Non-trivial constructor case: input with >= 2 accidentals, or the "
        "target letter wraps past B, or the plainly counted accidental of the result exceeds +-6 so that the spelling "
        "must be folded to the other sign. Non-trivial pair: different letters and (an input with >= 2 accidentals or "
        "a descending pitch-class difference, i.e. the mod-12 wrap). Also: Hypothesis pairs with accidental strings of "
        "length 0..40 (half of them on one letter); every pair with <= 2 accidentals with the flag omitted, passed by keyword "
        "and given as a number (0, 1, 0.0, 2); every constructor asked right after every other one on the same root; accidental strings that lean "
        "to one sign with a few signs of the other kind in between. The three unison constructors are held to the unmixed / at-most-six-accidentals clause on every input, like the other 14.")
ASSUMPTIONS = [
    "oracle: own constructor table (interval number, semitones) and letter/semitone arithmetic in vlib/ref/theory.py",
    "spelling is compared as (letter, pitch class, unmixed, <= 6 accidentals), never as an exact accidental string",
    "the three unison constructors are held to the same 'unmixed, <= 6 accidentals, whatever the input' clause as the other 14 "
    "(the statement lists them; repaired in the repository, see KNOWN_FINDINGS.txt)",
    "is_dissonant(a, b, f) is read as not is_consonant(a, b, not f) (its flag says whether fourths count as dissonant)",
]

CONSTRUCTOR_NAMES = sorted(T.CONSTRUCTORS, key=lambda c: (T.CONSTRUCTORS[c], c))
UNISONS = ("minor_unison", "major_unison", "augmented_unison")


def _plain_accidental(name, number, semis):
    """accidental the result would carry if sharps/flats were simply counted on from the input (no folding)"""
    target = T.letter_up(name[0], number - 1)
    natural = (T.NAT[target] - T.NAT[name[0]]) % 12
    return T.acc(name) + semis - natural


def check_constructor(ctx, case):
    cname, name = case
    number, semis = T.CONSTRUCTORS[cname]
    letter, pclass = T.spell(name, number, semis)
    sig = "constructor/" + cname
    f = getattr(intervals, cname, None)
    if not ctx.check(callable(f), sig + "/missing", "intervals.%s does not exist" % cname):
        return
    r = ctx.ok(sig, f, name)
    if not failed(r):
        what = lambda: "%s(%r) -> %r, expected letter %s, pitch class %d" % (cname, name, r, letter, pclass)  # noqa
        ctx.check(T.valid(r), sig + "/valid", what)
        ctx.check(r[0] == letter, sig + "/letter", what)
        ctx.check(T.pc(r) == pclass, sig + "/semitones", what)
        # all 17 constructors, the three unisons included, "whatever the input's accidentals"
        ctx.check(T.unmixed(r), sig + "/mixed-accidentals", what)
        ctx.check(len(r) - 1 <= 6, sig + "/too-many-accidentals", what)
    wraps = T.LETTERS.index(name[0]) + number - 1 >= 7
    folds = abs(_plain_accidental(name, number, semis)) > 6
    labels = ["constructor:" + cname, "acc-len:%d" % min(len(name) - 1, 9)]
    if wraps:
        labels.append("letter-wrap")
    if folds:
        labels.append("fold-to-other-sign")
    ctx.note_case(len(name) >= 3 or wraps or folds, labels)


def check_pair(ctx, case):
    a, b = case
    m = (T.pc(b) - T.pc(a)) % 12
    try:
        intervals.measure(b, a)  # the opposite question first: its answer must not shape this one
    except Exception:  # noqa - judged in its own case
        pass
    r = ctx.ok("measure", intervals.measure, a, b)
    if not failed(r):
        ctx.check(isinstance(r, int) and not isinstance(r, bool) and r == m, "measure/value",
                  lambda: "measure(%r, %r) -> %r, expected %d" % (a, b, r, m))
    imperfect = m in (3, 4, 8, 9)
    r = ctx.ok("is_imperfect_consonant", intervals.is_imperfect_consonant, a, b)
    if not failed(r):
        ctx.check(bool(r) == imperfect, "is_imperfect_consonant/value",
                  lambda: "is_imperfect_consonant(%r, %r) -> %r at %d semitones" % (a, b, r, m))
    for fourths in (True, False):
        perfect = m in (0, 7) or (fourths and m == 5)
        r = ctx.ok("is_perfect_consonant", intervals.is_perfect_consonant, a, b, fourths)
        if not failed(r):
            ctx.check(bool(r) == perfect, "is_perfect_consonant/value",
                      lambda: "is_perfect_consonant(%r, %r, %r) -> %r at %d semitones" % (a, b, fourths, r, m))
        r = ctx.ok("is_consonant", intervals.is_consonant, a, b, fourths)
        if not failed(r):
            ctx.check(bool(r) == (perfect or imperfect), "is_consonant/value",
                      lambda: "is_consonant(%r, %r, %r) -> %r at %d semitones" % (a, b, fourths, r, m))
        # is_dissonant's flag says whether fourths count as dissonant: dissonant = not consonant(with the other fourths)
        cons_other = m in (0, 7) or ((not fourths) and m == 5) or imperfect
        r = ctx.ok("is_dissonant", intervals.is_dissonant, a, b, fourths)
        if not failed(r):
            ctx.check(bool(r) == (not cons_other), "is_dissonant/value",
                      lambda: "is_dissonant(%r, %r, %r) -> %r at %d semitones" % (a, b, fourths, r, m))
    nontrivial = a[0] != b[0] and (len(a) >= 3 or len(b) >= 3 or T.pc(b) < T.pc(a))
    ctx.note_case(nontrivial, ["measure:%d" % m])


FLAG_FORMS = (0, 1, 0.0, 2)  # numbers used as the optional flag: the predicates read it by truth value, like any Python flag


def check_pair_forms(ctx, case):
    """the same predicates called with the flag omitted (documented defaults: fourths count as consonant), by keyword, and
    with numbers standing in for True / False"""
    a, b = case
    m = (T.pc(b) - T.pc(a)) % 12
    imperfect = m in (3, 4, 8, 9)

    def perfect(fourths):
        return m in (0, 7) or (bool(fourths) and m == 5)

    def expect(fname, fourths):
        if fname == "is_perfect_consonant":
            return perfect(fourths)
        if fname == "is_consonant":
            return perfect(fourths) or imperfect
        return not (perfect(not fourths) or imperfect)

    for fname, default in (("is_perfect_consonant", True), ("is_consonant", True), ("is_dissonant", False)):
        f = getattr(intervals, fname)
        r = ctx.ok(fname + "/default-flag", f, a, b)
        if not failed(r):
            ctx.check(bool(r) == expect(fname, default), fname + "/default-flag/value",
                      lambda: "%s(%r, %r) -> %r at %d semitones" % (fname, a, b, r, m))
        for flag in (True, False):
            r = ctx.ok(fname + "/keyword", lambda: f(a, b, include_fourths=flag))
            if not failed(r):
                ctx.check(bool(r) == expect(fname, flag), fname + "/keyword/value",
                          lambda: "%s(%r, %r, include_fourths=%r) -> %r at %d semitones" % (fname, a, b, flag, r, m))
            r = ctx.ok(fname + "/keyword", lambda: f(note1=a, note2=b, include_fourths=flag))
            if not failed(r):
                ctx.check(bool(r) == expect(fname, flag), fname + "/keyword/value",
                          lambda: "%s(note1=%r, note2=%r, include_fourths=%r) -> %r at %d semitones" % (fname, a, b, flag, r, m))
        for flag in FLAG_FORMS:
            r = ctx.ok(fname + "/number-flag", f, a, b, flag)
            if not failed(r):
                ctx.check(bool(r) == expect(fname, flag), fname + "/number-flag/value",
                          lambda: "%s(%r, %r, %r) -> %r at %d semitones" % (fname, a, b, flag, r, m))
    r = ctx.ok("measure/keyword", lambda: intervals.measure(note1=a, note2=b))
    if not failed(r):
        ctx.check(r == m, "measure/keyword/value", lambda: "measure(note1=%r, note2=%r) -> %r, expected %d" % (a, b, r, m))
    ctx.note_case(m in (0, 5, 7) or a[0] != b[0], ["forms:measure:%d" % m])


check_constructor = latched("constructor", check_constructor)  # a broken correction loop never terminates
def check_constructor_after(ctx, case):
    """constructor c2 asked right after constructor c1 on the same root (and after a question on another root): same answer"""
    c1, c2, name = case
    try:
        intervals.major_second("C" if name != "C" else "D")
        getattr(intervals, c1)(name)
    except Exception:  # noqa - judged in that constructor's own case
        pass
    check_constructor(ctx, [c2, name])


CHECKS = {"constructor": check_constructor, "pair": check_pair, "pair_forms": check_pair_forms, "constructor_after": check_constructor_after}


def _shard(seq, shard, nshards):
    return seq[shard::nshards]


def sub_constructors(ctx, shard, n):
    k = 6 if ctx.quick else 9
    names = T.all_names(k)
    if shard == 0:
        ctx.exhaustive("constructors: names (letter x all accidental strings, all orders) x 17 constructors",
                       "accidental length <= %d" % k, len(names) * len(CONSTRUCTOR_NAMES))
    ctx.enumerate("constructor", check_constructor,
                  ([c, nm] for nm in _shard(names, shard, n) for c in CONSTRUCTOR_NAMES))


def sub_constructors_long(ctx, shard, n):
    from vlib.strats import lopsided_accidentals
    name = st.builds(lambda l, a: l + a, st.sampled_from(T.LETTERS),
                     st.text(alphabet="#b", min_size=6, max_size=40)
                     | st.builds(lambda s, k: s * k, st.sampled_from("#b"), st.integers(6, 40))
                     | lopsided_accidentals(48) | lopsided_accidentals(48) | lopsided_accidentals(400)
                     | st.builds(lambda s, k: s * k, st.sampled_from("#b"), st.integers(100, 400)))
    strat = st.tuples(st.sampled_from(CONSTRUCTOR_NAMES), name).map(list)
    ctx.given("constructor", check_constructor, strat, 1500 if ctx.quick else 40000)
    if shard == 0:
        # block spellings: k sharps then m flats (and the mirror image, and alternating pairs), far deeper than any random name nests
        blocks = []
        for letter in ("C", "E", "B"):
            for k, m in ((13, 12), (51, 51), (52, 50), (100, 99), (300, 301), (1000, 1000)):
                blocks += [letter + "#" * k + "b" * m, letter + "b" * k + "#" * m, letter + "#b" * min(k, m) + "b" * abs(k - m)]
        ctx.exhaustive("constructors on block spellings with up to 1000 sharps and flats", "17 constructors x 54 names", 17 * len(blocks))
        ctx.enumerate("constructor", check_constructor, [[c, nm] for nm in blocks for c in CONSTRUCTOR_NAMES])
        ctx.enumerate("pair", check_pair, [[a, b] for a in ("C", "F#", "Bbb") for b in blocks] + [[b, a] for a in ("G", "Db") for b in blocks[::3]])


def sub_pairs(ctx, shard, n):
    k = 4 if ctx.quick else 6
    names = T.all_names(k)
    if shard == 0:
        ctx.exhaustive("measure/consonance: ordered pairs of names", "accidental length <= %d" % k, len(names) ** 2)
    ctx.enumerate("pair", check_pair, ([a, b] for a in _shard(names, shard, n) for b in names))


def sub_constructor_pairs(ctx, shard, n):
    names = T.unmixed_names(2)
    cases = [[c1, c2, nm] for nm in names for c1 in CONSTRUCTOR_NAMES for c2 in CONSTRUCTOR_NAMES if c1 != c2]
    if shard == 0:
        ctx.exhaustive("constructor c2 right after constructor c1 on the same root", "35 names x 17 x 16", len(cases))
    ctx.enumerate("constructor_after", check_constructor_after, cases[shard::n])


def sub_pair_forms(ctx, shard, n):
    names = T.all_names(2)
    if shard == 0:
        ctx.exhaustive("flag forms (omitted / keyword / numbers as flags): ordered pairs of names", "accidental length <= 2", len(names) ** 2)
    ctx.enumerate("pair_forms", check_pair_forms, ([a, b] for a in _shard(names, shard, n) for b in names))


def sub_pairs_long(ctx, shard, n):
    """pairs whose accidental strings are far longer than the enumerated bound; half of them on one letter, so that the
    difference is carried by the accidentals alone (gaps of a whole octave and more in either direction)"""
    from vlib.strats import any_accidentals
    acc = any_accidentals(40)
    letter = st.sampled_from(T.LETTERS)
    pair = st.one_of(
        st.tuples(letter, acc, acc).map(lambda t: [t[0] + t[1], t[0] + t[2]]),
        st.tuples(letter, acc, letter, acc).map(lambda t: [t[0] + t[1], t[2] + t[3]]))
    ctx.given("pair", check_pair, pair, 1500 if ctx.quick else 40000)


SUBS = [
    Sub("constructors", sub_constructors, quick=4, thorough=16),
    Sub("constructors_long", sub_constructors_long, quick=1, thorough=4),
    Sub("pairs", sub_pairs, quick=4, thorough=16),
    Sub("pair_forms", sub_pair_forms, quick=2, thorough=2),
    Sub("constructor_pairs", sub_constructor_pairs, quick=2, thorough=4),
    Sub("pairs_long", sub_pairs_long, quick=1, thorough=4),
]
