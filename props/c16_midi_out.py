"""C16 - MIDI output is well-formed SMF that denotes exactly the music written (midi_track.py, midi_file_out.py)."""
import os
import tempfile
from collections import Counter

from hypothesis import strategies as st

from mingus.midi import midi_file_out as MFO
from mingus.midi.midi_track import MidiTrack

from vlib import mg
from vlib.core import Sub, failed
from vlib.ref import midimodel as MM
from vlib.ref import scoregen as SG
from vlib.ref import smf
from vlib.ref import theory as T

PROPERTY_ID = "C16"
RULE = ("R-score compositions (1-4 tracks; all 30 keys; 14 meters; plain, dotted and triplet/quintuplet/septuplet values whose "
        "tick length is integral or rounds; chords of 1-5 notes; rests in leading, inner, trailing and whole-bar position; channels "
        "0-15; velocities 0-127; MIDI / generic / no instrument; tempo-carrying containers; bpm 4..1000; repeat 0..3) written "
        "through write_Composition, write_Track, write_Bar, write_NoteContainer, write_Note (temp files) and MidiFile."
        "get_midi_data(); the bytes are parsed by an independent strict SMF reader and the decoded events compared, as a multiset "
        "per tick plus per-(channel, pitch) on/off alternation in stream order, with the events computed from the description. "
        "VLQ encoder: dense range + neighbourhoods of all powers of two (quick), all 2^28 values (thorough). Non-trivial: a score "
        "with a rest adjacent to a chord, a key/meter change, a leading rest with a MIDI instrument, a tempo change or repeat > 0."
        ' Also: values given as 288/k ticks outside the vocabulary, track names of 120-300 characters, enharmonic twin and repeated bars, tracks sharing one instrument object, a second write of the same objects must give identical bytes, and sounding entries whose value (300 .. 2000) rounds to 0 or 1 tick; tempo and repeat count given by keyword or left to the documented defaults (120 bpm, written once); a track without bars among the others, chords that are not in ascending order (after item assignment), entries held in a user subclass of NoteContainer and instruments of a user subclass of MidiInstrument. Bars holding one entry (rest, empty container or note of value 1, 2, 4 or the beat unit) in every meter, written once and repeated; the reader decodes running status.')
ASSUMPTIONS = ["values whose exact tick length is x.5 are not generated (rounding would depend on float artefacts)",
               "order of events inside one tick is not prescribed beyond: instrument events before the first note-on, and per "
               "(channel, pitch) strict on/off alternation", "track names are ASCII; the tick of the track-name event is not compared"]

def _form(case):
    """how tempo and repeat count are handed over: positionally, by keyword, or left to the documented defaults (120 bpm, written
    once) - in which case the expected values are those defaults"""
    form = case.get("form", "pos")
    if form == "default":
        return form, 120, 0
    return form, case["bpm"], case["repeat"]


def _write(ctx, fn, obj, bpm, repeat, form="pos"):
    with tempfile.TemporaryDirectory(prefix="verif_c16_") as d:
        path = os.path.join(d, "t.mid")
        if form == "kw":
            r = ctx.ok("writer/" + fn.__name__, lambda: fn(path, obj, repeat=repeat, bpm=bpm))
        elif form == "default":
            r = ctx.ok("writer/" + fn.__name__, fn, path, obj)
        else:
            r = ctx.ok("writer/" + fn.__name__, fn, path, obj, bpm, repeat)
        if failed(r):
            return None
        ctx.check(r is True, "writer/returned-false", fn.__name__)
        with open(path, "rb") as f:
            return f.read()


def _structure(ctx, data, ntracks):
    try:
        r = smf.parse(data)
    except smf.SMFError as e:
        ctx.fail("structure/unparsable", "%s; first bytes %s" % (e, data[:40].hex()))
        return None
    ctx.check(r["format"] == 1, "structure/format", r["format"])
    ctx.check(r["division"] == 72, "structure/division", r["division"])
    ctx.check(r["ntracks"] == len(r["tracks"]), "structure/track-count-field", "%d declared, %d chunks" % (r["ntracks"], len(r["tracks"])))
    ctx.check(len(r["tracks"]) == ntracks, "structure/track-count", "%d chunks for %d tracks" % (len(r["tracks"]), ntracks))
    return r


def _key(e):
    return (-1 if e[0] is None else e[0],) + tuple(str(x) for x in e[1:])


def _compare(ctx, got_raw, exp, what):
    got = MM.decode_events(got_raw)
    sg, se = sorted(got, key=_key), sorted(exp, key=_key)
    if sg != se:
        cg, ce = Counter(sg), Counter(se)
        extra = sorted((cg - ce).elements(), key=_key)[:6]
        missing = sorted((ce - cg).elements(), key=_key)[:6]
        kinds = sorted({e[1] for e in extra + missing})
        ctx.fail("events/%s" % "+".join(kinds), "%s: unexpected %r, missing %r" % (what, extra, missing))
    # stream order: per (channel, pitch) strict alternation on/off, ending in off
    state = {}
    for e in got:
        if e[1] == "on":
            k = (e[2], e[3])
            ctx.check(not state.get(k), "stream/note-overlaps-itself", lambda: "%s: second note-on for %r at tick %r" % (what, k, e[0]))
            state[k] = True
        elif e[1] == "off":
            k = (e[2], e[3])
            ctx.check(state.get(k), "stream/off-without-on", lambda: "%s: note-off for silent %r at tick %r" % (what, k, e[0]))
            state[k] = False
    ctx.check(not any(state.values()), "stream/hanging-note", lambda: "%s: %r" % (what, [k for k, v in state.items() if v]))
    # instrument events come before the note-on that follows them
    pend = 0
    for e in got:
        if e[1] in ("bank", "pc"):
            pend += 1
        elif e[1] == "on":
            pend = 0
    ctx.check(pend == 0, "stream/instrument-after-last-note", what)
    seen_on = False
    for e in got:
        if e[1] == "name":
            seen_on = False
        elif e[1] == "on":
            seen_on = True
        elif e[1] in ("bank", "pc"):
            ctx.check(not seen_on, "stream/instrument-after-note-on", what)
    ticks = [e[0] for e in got_raw]
    ctx.check(ticks == sorted(ticks), "stream/time-goes-backwards", what)


def check_comp(ctx, case):
    cd, via = case["comp"], case["via"]
    form, bpm, repeat = _form(case)
    comp = mg.build_comp(cd)
    if via == "file":
        data = _write(ctx, MFO.write_Composition, comp, bpm, repeat, form)
    else:
        mts = []
        for t in comp.tracks:
            mt = MidiTrack() if form == "default" else MidiTrack(bpm)
            for _ in range(repeat + 1):
                mt.play_Track(t)
            mts.append(mt)
        data = ctx.ok("get_midi_data", MFO.MidiFile(mts).get_midi_data)
        if failed(data):
            data = None
    if data is not None:
        r = _structure(ctx, data, len(cd["tracks"]))
        if r is not None:
            for i, (td, raw) in enumerate(zip(cd["tracks"], r["tracks"])):
                _compare(ctx, raw, MM.track_events(td, bpm, repeat), "track %d" % i)
        # writing the same composition object again gives the same file (no state left behind in the music or the writer)
        again = _write(ctx, MFO.write_Composition, comp, bpm, repeat)
        if via == "file" and again is not None:
            ctx.check(again == data, "writer/second-write-differs", lambda: "first %d bytes, second %d bytes" % (len(data), len(again)))
    f = SG.features(cd)
    if repeat:
        f.add("repeat")
    nt = f & {"rest-next-to-chord", "key-or-meter-change", "leading-rest+instrument", "tempo-change", "repeat"}
    ctx.note_case(bool(nt), ["comp:" + x for x in sorted(f)])


def check_track(ctx, case):
    td = case["track"]
    form, bpm, repeat = _form(case)
    data = _write(ctx, MFO.write_Track, mg.build_track(td), bpm, repeat, form)
    if data is not None:
        r = _structure(ctx, data, 1)
        if r is not None and r["tracks"]:
            _compare(ctx, r["tracks"][0], MM.track_events(td, bpm, repeat), "track")
    f = SG.features(td)
    if repeat:
        f.add("repeat")
    nt = f & {"rest-next-to-chord", "key-or-meter-change", "leading-rest+instrument", "tempo-change", "repeat"}
    ctx.note_case(bool(nt), ["track:" + x for x in sorted(f)])


def check_bar(ctx, case):
    bd = case["bar"]
    form, bpm, repeat = _form(case)
    data = _write(ctx, MFO.write_Bar, mg.build_bar(bd), bpm, repeat, form)
    td = {"name": None, "instr": None, "bars": [bd]}
    if data is not None:
        r = _structure(ctx, data, 1)
        if r is not None and r["tracks"]:
            _compare(ctx, r["tracks"][0], MM.track_events(td, bpm, repeat, with_name=False), "bar")
    f = SG.features(td)
    ctx.note_case(bool(f & {"rest-next-to-chord", "tempo-change", "trailing-rest"}) or repeat > 0, ["bar:" + x for x in sorted(f)] + ["bar:repeat%d" % repeat])


def check_nc(ctx, case):
    notes, single = case["notes"], case["single"]
    form, bpm, repeat = _form(case)
    if single:
        n = notes[0]
        from mingus.containers import Note
        data = _write(ctx, MFO.write_Note, Note(n[0], n[1], channel=n[2], velocity=n[3]), bpm, repeat, form)
        notes = [n]
    else:
        data = _write(ctx, MFO.write_NoteContainer, mg.build_nc(notes), bpm, repeat, form)
    exp = [(0, "tempo", 60000000 // bpm)]
    for k in range(repeat + 1):
        for (n, o, c, vel) in notes:
            exp.append((72 * k, "on", c, T.pitch(n, o) + 12, vel))
            exp.append((72 * (k + 1), "off", c, T.pitch(n, o) + 12, vel))
    if data is not None:
        r = _structure(ctx, data, 1)
        if r is not None and r["tracks"]:
            _compare(ctx, r["tracks"][0], exp, "note" if single else "container")
    ctx.note_case(repeat > 0 or len(notes) > 1, ["nc:single" if single else "nc:%d-notes" % len(notes)])


def check_vlq(ctx, case):
    """case = [lo, hi): every integer in the range goes through int_to_varbyte and the reference encoder"""
    lo, hi = case
    f = MidiTrack().int_to_varbyte
    enc = smf.vlq_encode
    bad = None
    for n in range(lo, hi):
        try:
            r = f(n)
        except Exception as e:  # noqa
            bad = (n, repr(e))
            break
        if r != enc(n):
            bad = (n, r.hex())
            break
    ctx.evaluations += max(0, hi - lo - 1)
    if bad is not None:
        ctx.fail("vlq/encoding", "int_to_varbyte(%d) -> %s, standard encoding %s" % (bad[0], bad[1], enc(bad[0]).hex()))
    ctx.note_case(hi > 128, ["vlq:range"])


CHECKS = {"comp": check_comp, "track": check_track, "bar": check_bar, "nc": check_nc, "vlq": check_vlq}


def _cfg(**kw):
    groups = SG.plain_groups(bases=(1, 2, 4, 8, 16, 32, 64), max_dots=2, ok=lambda v: not MM.half_tick(v))
    base = dict(groups=groups, min_pitch=-12, max_pitch=115, bpm_p=6, bpms=st.integers(4, 1000), max_bars=3, max_groups=6,
                text=st.text(alphabet=st.characters(min_codepoint=32, max_codepoint=126), max_size=10), partial_last=True, empty_containers=True)
    # values given as 288/k (k whole ticks), outside the named vocabulary
    base["groups"] = base["groups"] + [[["ticks", k]] for k in (1, 2, 3, 5, 7, 10, 11, 13, 14, 28, 31, 35, 56, 59, 62, 77, 100, 112, 115, 118, 124, 143, 211, 224, 250)]
    # values so short that they round to 0 ticks (note-on and note-off on the same tick) or to 1 tick
    base["groups"] = base["groups"] + [[["num", k]] for k in (300, 577, 600, 1000, 1024, 2000)] + [[["num", 1000], [4, 0, 1, 1]], [["num", 640]] * 3]
    long_name = st.text(alphabet=st.characters(min_codepoint=32, max_codepoint=126), min_size=120, max_size=300)
    # any 7-bit characters, control characters and NUL included (at the ends too): a name is a length-prefixed byte string
    ctrl = st.text(alphabet=st.characters(min_codepoint=0, max_codepoint=127), min_size=1, max_size=8)
    ends = st.builds(lambda a, m, z: a + m + z, st.sampled_from(["", "\x00", "\n", "\t", " ", "\x7f"]), st.text(alphabet="abcXYZ 09", max_size=6),
                     st.sampled_from(["", "\x00", "\x00\x00", "\n", "\r\n", " ", "\x7f"]))
    base["text"] = st.one_of(base["text"], base["text"], base["text"], long_name, ctrl, ends)
    base["twin_p"] = 5
    base["empty_track_p"] = 5
    base["subclass_p"] = 8
    base["unsorted_p"] = 6
    base["twin_entry_p"] = 6
    base["duck_instruments"] = True
    base["same_bar_p"] = 6
    base["reuse_p"] = 6
    base["share_instruments"] = True
    base.update(kw)
    return SG.Cfg(**base)


def _many_tracks(k):
    """a composition of k short tracks (the track count of the header is a 16-bit number)"""
    tracks = []
    for i in range(k):
        tracks.append({"name": "t%d" % i, "instr": None if i % 3 else {"kind": "midi", "nr": (i * 7) % 128, "name": ""},
                       "bars": [{"key": "C", "meter": [2, 4], "entries": [{"v": [4, 0, 1, 1], "notes": [["C", 2 + i % 5, i % 16, 1 + (i * 11) % 127]]},
                                                                              {"v": [4, 0, 1, 1], "notes": None}]}]})
    return {"title": "many", "subtitle": "", "author": "", "tracks": tracks}


def sub_comps(ctx, shard, n):
    if shard == 0:
        mt = [{"comp": _many_tracks(k), "bpm": 120, "repeat": 0, "via": via, "form": "pos"} for k in (9, 10, 11, 15, 16, 17, 20, 33, 100, 256, 300) for via in ("file", "data")]
        ctx.exhaustive("compositions of many tracks", "9 .. 300 tracks x {write_Composition, get_midi_data}", len(mt))
        ctx.enumerate("comp", check_comp, mt)
    strat = st.fixed_dictionaries({"comp": SG.comp_st(_cfg(max_tracks=3, instruments=["none", "generic", "midi", "midi", "percussion"])), "bpm": st.integers(4, 1000),
                                   "repeat": st.sampled_from([0, 0, 1, 2, 3]), "via": st.sampled_from(["file", "data"]), "form": st.sampled_from(["pos", "pos", "kw", "default"])})
    ctx.given("comp", check_comp, strat, 150 if ctx.quick else 1000)


def sub_tracks(ctx, shard, n):
    strat = st.fixed_dictionaries({"track": SG.track_st(_cfg(instruments=["none", "midi", "midi", "generic", "percussion"], rest_p=3)),
                                   "bpm": st.integers(4, 1000), "repeat": st.sampled_from([0, 0, 1, 2, 3]), "form": st.sampled_from(["pos", "pos", "kw", "default"])})
    ctx.given("track", check_track, strat, 250 if ctx.quick else 1500)


def sub_bars(ctx, shard, n):
    cfg = _cfg(meters=SG.ALL_METERS, rest_p=3)
    strat = st.fixed_dictionaries({"bar": SG.bar_st(cfg, fill=False) | SG.bar_st(cfg), "bpm": st.integers(4, 1000),
                                   "repeat": st.sampled_from([0, 1, 2, 3]), "form": st.sampled_from(["pos", "pos", "kw", "default"])})
    ctx.given("bar", check_bar, strat, 250 if ctx.quick else 1500)


def sub_keys_meters(ctx, shard, n):
    """systematic: every key x every meter, one bar with a leading rest, a chord and a trailing rest"""
    cases = []
    for i, key in enumerate(T.ALL_KEYS):
        for j, m in enumerate(SG.ALL_METERS):
            if (i + j) % (3 if ctx.quick else 1):
                continue
            v = [m[1], 0, 1, 1]
            ents = [{"v": v, "notes": None if k % 2 == 0 else [["C", 4, (i + k) % 16, (64 + j) % 128], ["E", 4, i % 16, 100]]} for k in range(m[0])]
            cases.append({"track": {"name": "k%d" % i, "instr": {"kind": "midi", "nr": (i * 7 + j) % 128, "name": ""},
                                    "bars": [{"key": key, "meter": m, "entries": ents}]}, "bpm": 4 + (i * 37 + j * 11) % 997,
                          "repeat": (i + j) % 2})
    ctx.exhaustive("write_Track: every key x every meter", "30 keys x 72 meters" + (" (every third)" if ctx.quick else ""), len(cases))
    ctx.enumerate("track", check_track, cases[shard::n])
    # bars holding one entry (a rest, an empty container or a note of value 1, 2, 4 or the beat unit) in every meter, written once and repeated
    lone = [{"track": t, "bpm": 120, "repeat": i % 2} for i, t in enumerate(SG.lone_entry_tracks())]
    if shard == 0:
        ctx.exhaustive("write_Track: bars of one entry in every meter", "72 meters x up to 4 values", len(lone))
    ctx.enumerate("track", check_track, lone[shard::n])


def sub_nc(ctx, shard, n):
    cfg = _cfg()
    strat = st.fixed_dictionaries({
        "notes": st.lists(SG.note_st(cfg), min_size=1, max_size=5, unique_by=lambda x: T.pitch(x[0], x[1])).map(
            lambda ns: sorted(ns, key=lambda x: T.pitch(x[0], x[1]))),
        "bpm": st.integers(4, 1000), "repeat": st.integers(0, 3), "single": st.booleans(), "form": st.sampled_from(["pos", "pos", "kw", "default"])})
    ctx.given("nc", check_nc, strat, 400 if ctx.quick else 3000)


def sub_vlq(ctx, shard, n):
    if ctx.quick:
        ranges = [[0, 300001]] + [[max(0, 2 ** k - 300), min(2 ** 28, 2 ** k + 300)] for k in range(7, 29)] + \
                 [[max(0, 128 ** k - 300), 128 ** k + 300] for k in (1, 2, 3)]
        if shard == 0:
            ctx.exhaustive("int_to_varbyte", "0..300000 and +-300 around every power of two up to 2^28", sum(h - l for l, h in ranges))
        ctx.enumerate("vlq", check_vlq, ranges[shard::n])
    else:
        step = 2 ** 20
        ranges = [[lo, lo + step] for lo in range(0, 2 ** 28, step)]
        if shard == 0:
            ctx.exhaustive("int_to_varbyte", "all integers 0 .. 2^28-1", 2 ** 28)
        ctx.enumerate("vlq", check_vlq, ranges[shard::n])


SUBS = [
    Sub("comps", sub_comps, quick=4, thorough=16),
    Sub("tracks", sub_tracks, quick=4, thorough=16),
    Sub("bars", sub_bars, quick=2, thorough=8),
    Sub("keys_meters", sub_keys_meters, quick=2, thorough=4),
    Sub("nc", sub_nc, quick=1, thorough=4),
    Sub("vlq", sub_vlq, quick=4, thorough=16),
]
