"""C11 - transposition is semitone-exact and reversible at every container level."""
from hypothesis import strategies as st

from mingus.containers import Note

from vlib import mg
from vlib.core import Sub, failed
from vlib.ref import scoregen as SG
from vlib.ref import theory as T

PROPERTY_ID = "C11"
RULE = ("(a) every name (7 letters x up to 2 sharps/flats = 35) x octaves 0..9 (downwards 1..9) x the 31 interval shorthands of size "
        "0..11 x {up, down}, enumerated, against own letter/pitch arithmetic, plus up-then-down restoration; change_octave for "
        "diffs -15..15; (b) seeded Hypothesis tracks (notes, chords, rests, dotted/tuplet values, 1-4 bars) with histories of 1-8 "
        "steps from {transpose(shorthand, up/down), augment, diminish} applied at container, bar or track level, checked after "
        "every step against shadow Note copies (lifting differential) and, for ordinary names, the arithmetic. Non-trivial: a "
        "transposition that crosses an octave boundary (incl. Cb/B# spellings, descending from C); a history of >= 3 steps or one "
        "on a bar holding both a rest and a chord."
        ' Also: tracks built by Track.from_chords (repeated symbols, nesting, rests), melodic sequences moved by the interval the history then uses, enharmonic twin bars, tracks with an instrument attached, keyword / default direction forms; chords that are not in ascending order and entries held in a user subclass of NoteContainer; change_octave / octave_up / octave_down on notes that transposition has taken below octave 0; tracks with an instrument whose notes are transposed beyond its range. Note-level transposition also from octaves -1..-3 and downwards from octave 0.')
ASSUMPTIONS = ["note-level transposition is also asserted below octave 0 (start notes at octaves -1..-3, reached by transposing down): the pitch arithmetic of the statement has no floor, only change_octave has",
               "the pitch/letter arithmetic is asserted for names with <= 2 unmixed accidentals (the statement's name domain); "
               "names outside it that arise inside histories are covered by the Note-level differential only",
               "names are unmixed (augment then diminish is not the identity on 'C#b')"]

SHS = [s for s in T.INTERVAL_SHORTHANDS if 0 <= T.shorthand_size(s) <= 11]


def _ordinary(name):
    return T.unmixed(name) and len(name) <= 3


def check_note(ctx, case):
    name, octave, sh, up = case
    size, deg = T.shorthand_size(sh), T.shorthand_degree(sh)
    n = _note_at(name, octave)
    if n is None:
        return ctx.note_case(False, ["note:negative-start-not-reached"])
    r = ctx.ok("transpose", n.transpose, sh, up)
    if failed(r):
        return
    # keyword form / default direction denote the same operation
    nk = _note_at(name, octave)
    ctx.ok("transpose", lambda: nk.transpose(sh, up=up))
    ctx.check((nk.name, nk.octave) == (n.name, n.octave), "note/keyword-form", lambda: "%r: up=%r gives %s-%d, positional %s-%d" % (case, up, nk.name, nk.octave, n.name, n.octave))
    if up:
        nd = _note_at(name, octave)
        ctx.ok("transpose", nd.transpose, sh)
        ctx.check((nd.name, nd.octave) == (n.name, n.octave), "note/default-direction", repr(case))
    p0 = T.pitch(name, octave)
    exp_p = p0 + size if up else p0 - size
    exp_letter = T.letter_up(name[0], (deg - 1) if up else -(deg - 1))
    ctx.check(T.valid(n.name) and isinstance(n.octave, int), "note/result-form", lambda: "%r -> %r %r" % (case, n.name, n.octave))
    got_p = T.pitch(n.name, n.octave)
    ctx.check(got_p == exp_p, "note/pitch", lambda: "%r: %s-%d (pitch %d), expected pitch %d" % (case, n.name, n.octave, got_p, exp_p))
    ctx.check(n.name[0] == exp_letter, "note/letter", lambda: "%r: %s, expected letter %s" % (case, n.name, exp_letter))
    ctx.check(int(n) == exp_p, "note/int", lambda: "%r: int %r" % (case, int(n)))
    crossing = n.octave != octave
    # there and back again
    if up or n.octave >= 0 or octave < 0:
        back = ctx.ok("transpose", n.transpose, sh, not up)
        if not failed(back):
            ctx.check(n.name == name and n.octave == octave, "note/round-trip",
                      lambda: "%r: back at %s-%d" % (case, n.name, n.octave))
    # the octave moved in between: up, one octave higher, down again - back on the name, one octave above the start
    if up and octave >= 0:
        m = _note_at(name, octave)
        ctx.ok("transpose", m.transpose, sh, True)
        ctx.ok("octave_up", m.octave_up)
        ctx.ok("transpose", m.transpose, sh, False)
        ctx.check((m.name, m.octave) == (name, octave + 1), "note/up-octave-down",
                  lambda: "%r: up, octave_up, down gives %s-%d, expected %s-%d" % (case, m.name, m.octave, name, octave + 1))
    ctx.note_case(crossing or name[1:] in ("b", "#") and name[0] in "CBEF", ["note:" + ("up" if up else "down") + (":crossing" if crossing else "")])


def _note_at(name, octave):
    """a note in the given octave; octaves below 0 cannot be constructed, they are reached by transposing down from octave 0
    (a fifth and then a fourth down is an octave down on the same name)"""
    if octave >= 0:
        return Note(name, octave)
    n = Note(name, 0)
    for _ in range(-octave):
        n.transpose("5", False)
        n.transpose("4", False)
    return n if (n.name, n.octave) == (name, octave) else None


def check_octave(ctx, case):
    name, octave, diff = case
    if octave < 0:
        n, n2, n3 = _note_at(name, octave), _note_at(name, octave), _note_at(name, octave)
        if n is None:
            return ctx.note_case(False, ["octave:negative-start-not-reached"])
        ctx.ok("change_octave", n.change_octave, diff)
        ctx.check(n.octave == max(0, octave + diff) and n.name == name, "change_octave",
                  lambda: "%r (reached by transposing down from octave 0) -> octave %r, expected %d" % (case, n.octave, max(0, octave + diff)))
        n2.octave_up()
        n3.octave_down()
        ctx.check(n2.octave == max(0, octave + 1) and n3.octave == 0, "octave_up_down",
                  lambda: "%r: octave_up -> %r, octave_down -> %r, expected 0 and 0" % (case, n2.octave, n3.octave))
        return ctx.note_case(True, ["octave:negative-start"])
    n = Note(name, octave)
    ctx.ok("change_octave", n.change_octave, diff)
    ctx.check(n.octave == max(0, octave + diff) and n.name == name, "change_octave", lambda: "%r -> %r" % (case, n.octave))
    n2 = Note(name, octave)
    n2.octave_up()
    n3 = Note(name, octave)
    n3.octave_down()
    ctx.check(n2.octave == octave + 1 and n3.octave == max(0, octave - 1), "octave_up_down", repr(case))
    ctx.note_case(octave + diff < 0, ["octave:clamped" if octave + diff < 0 else "octave:plain"])


def _snap(track):
    """[[bar entries: [start, value, None | [[name, octave, channel, velocity]]]]]"""
    return [[[e[0], e[1], None if e[2] is None else [[n.name, n.octave, n.channel, n.velocity] for n in e[2].notes]]
             for e in b.bar] for b in track.bars]


def _note_op(step, name, octave):
    """what the Note-level operation gives on an independent copy"""
    n = Note(name, octave)
    if step[0] == "transpose":
        n.transpose(step[4], step[5])
    elif step[0] == "augment":
        n.augment()
    else:
        n.diminish()
    return n.name, n.octave


def check_track(ctx, case):
    steps = case["steps"]
    flags = set()
    if "chords" in case:  # a track built by Track.from_chords (repeated symbols, nested lists, rests)
        from mingus.containers import Track
        track = ctx.ok("from_chords", Track().from_chords, case["chords"], case["duration"])
        if failed(track):
            return
        flags.add("from-chords")
    else:
        td = case["track"]
        track = mg.build_track(td)
        for b in td["bars"]:
            if any(e["notes"] is None for e in b["entries"]) and any(e["notes"] and len(e["notes"]) > 1 for e in b["entries"]):
                flags.add("rest+chord-bar")
        if case.get("sequence"):
            # a melodic sequence: every following bar is the first bar moved by the interval the history then uses
            from mingus.containers import Bar, Note, NoteContainer
            sh, up, count = case["sequence"]
            first = track.bars[0]
            track.bars = [first]
            for k in range(1, count + 1):
                b = Bar(first.key, first.meter)
                for e in first.bar:
                    if e[2] is None:
                        b.place_rest(e[1])
                    else:
                        ns = []
                        for n in e[2].notes:
                            m = Note(n.name, n.octave, channel=n.channel, velocity=n.velocity)
                            for _ in range(k):
                                m.transpose(sh, up)
                            ns.append(m)
                        b.place_notes(NoteContainer(ns), e[1])
                track.add_bar(b)
            flags.add("melodic-sequence")
    if len(steps) >= 3:
        flags.add("long-history")
    for k, step in enumerate(steps):
        kind, level = step[0], step[1]
        before = _snap(track)
        nb = len(track.bars)
        bi = step[2] % nb
        ne = len(track.bars[bi].bar)
        where = "step %d %r" % (k, step)
        if kind in ("octave", "replace"):
            # edits between the operations: the notes of one entry change octave (Note.change_octave), or the entry gets a new
            # container (bar[i] = notes).  Later operations apply to what is in the track then.
            if ne == 0:
                continue
            ei = step[3] % ne
            expected = [[list(e) for e in b] for b in before]
            if kind == "octave":
                nc = track.bars[bi].bar[ei][2]
                if nc is None:
                    continue
                for nt in nc.notes:
                    ctx.ok("change_octave", nt.change_octave, step[4])
                expected[bi][ei][2] = [[x[0], max(0, x[1] + step[4])] + x[2:] for x in before[bi][ei][2]]
            else:
                import mingus.containers as _mc
                new = [["D", 4, 1, 64], ["F#", 4, 2, 70]] if step[4] else [["A", 3, 3, 80]]
                ctx.ok("bar-setitem", track.bars[bi].__setitem__, ei, _mc.NoteContainer([_mc.Note(x[0], x[1], channel=x[2], velocity=x[3]) for x in new]))
                expected[bi][ei][2] = [list(x) for x in new]
            got = _snap(track)
            ctx.check(got == expected, "edit-between-operations/" + kind, lambda: "%s: %r, expected %r" % (where, got[bi][ei], expected[bi][ei]))
            flags.add("edit-between-operations")
            continue
        if level == "track":
            target = track
            hit = lambda i, j: True  # noqa
        elif level == "bar":
            target = track.bars[bi]
            hit = lambda i, j: i == bi  # noqa
        else:
            if ne == 0:
                continue
            ei = step[3] % ne
            target = track.bars[bi].bar[ei][2]
            if target is None:
                continue
            hit = lambda i, j: i == bi and j == ei  # noqa
        if kind == "transpose":
            r = ctx.ok("transpose/" + level, target.transpose, step[4], step[5])
        elif kind == "augment":
            r = ctx.ok("augment/" + level, target.augment)
        else:
            r = ctx.ok("diminish/" + level, target.diminish)
        if failed(r):
            return
        after = _snap(track)
        if not ctx.check([len(b) for b in after] == [len(b) for b in before], "container/entry-count", where):
            return
        for i, (bb, ba) in enumerate(zip(before, after)):
            for j, (eb, ea) in enumerate(zip(bb, ba)):
                ctx.check(ea[0] == eb[0] and ea[1] == eb[1], "container/beat-or-duration-changed", lambda: "%s: %r -> %r" % (where, eb[:2], ea[:2]))
                if eb[2] is None:
                    ctx.check(ea[2] is None, "container/rest-changed", where)
                    continue
                if not ctx.check(ea[2] is not None and len(ea[2]) == len(eb[2]), "container/note-count", where):
                    continue
                for nb_, na in zip(eb[2], ea[2]):
                    ctx.check(na[2:] == nb_[2:], "container/channel-velocity-changed", where)
                    if not hit(i, j):
                        ctx.check(na[:2] == nb_[:2], "container/untargeted-note-changed", lambda: "%s: bar %d entry %d %r -> %r" % (where, i, j, nb_, na))
                        continue
                    exp = _note_op(step, nb_[0], nb_[1])
                    ctx.check((na[0], na[1]) == exp, "container/not-the-note-operation",
                              lambda: "%s: %s-%d became %s-%d, Note-level gives %s-%d" % (where, nb_[0], nb_[1], na[0], na[1], exp[0], exp[1]))
                    if _ordinary(nb_[0]):
                        p0 = T.pitch(nb_[0], nb_[1])
                        if kind == "transpose":
                            size, deg, up = T.shorthand_size(step[4]), T.shorthand_degree(step[4]), step[5]
                            if up or nb_[1] >= 1:
                                ctx.check(T.pitch(na[0], na[1]) == (p0 + size if up else p0 - size), "container/pitch",
                                          lambda: "%s: %r -> %r" % (where, nb_, na))
                                ctx.check(na[0][0] == T.letter_up(nb_[0][0], (deg - 1) if up else -(deg - 1)), "container/letter",
                                          lambda: "%s: %r -> %r" % (where, nb_, na))
                                if na[1] != nb_[1]:
                                    flags.add("octave-crossing")
                        else:
                            d = 1 if kind == "augment" else -1
                            ctx.check(na[0][0] == nb_[0][0] and na[1] == nb_[1] and T.pitch(na[0], na[1]) == p0 + d, "container/augment-diminish",
                                      lambda: "%s: %r -> %r" % (where, nb_, na))
    # augment followed by diminish is the identity on names (at every level)
    base = _snap(track)
    for level, obj in (("track", track), ("bar", track.bars[0])):
        ctx.ok("augment/" + level, obj.augment)
        ctx.ok("diminish/" + level, obj.diminish)
        ctx.check(_snap(track) == base, "augment-then-diminish/" + level, "")
    ctx.note_case(bool(flags), ["track:" + f for f in sorted(flags)] or ["track:plain"])


CHECKS = {"note": check_note, "octave": check_octave, "track": check_track}


def sub_notes(ctx, shard, n):
    names = T.unmixed_names(2)
    cases = [[nm, o, sh, up] for nm in names for o in range(0, 10) for sh in SHS for up in (True, False) if up or o >= 1]
    if shard == 0:
        ctx.exhaustive("Note.transpose: names x octaves x shorthands x direction", "35 x 0..9 (down 1..9) x 31 x 2", len(cases))
    ctx.enumerate("note", check_note, cases[shard::n])
    # start notes below octave 0 (reached by transposing down from octave 0), and down from octave 0: the arithmetic stays exact
    low = [[nm, o, sh, up] for nm in T.unmixed_names(1) for o in (-1, -2, -3) for sh in SHS for up in (True, False)] + \
          [[nm, 0, sh, False] for nm in T.unmixed_names(1) for sh in SHS]
    ctx.enumerate("note", check_note, low[shard::n])
    if shard == 0:
        oc = [[nm, o, d] for nm in T.unmixed_names(2) + ["A###", "B###", "Cbbb"] for o in range(-4, 10) for d in range(-15, 16)]
        ctx.exhaustive("change_octave", "38 names x octaves -4..9 (negative ones reached by transposing down) x diffs -15..15", len(oc))
        ctx.enumerate("octave", check_octave, oc)


def _cfg():
    return SG.Cfg(octaves=[2, 3, 4, 5, 6], max_bars=3, max_groups=5, instruments=["none", "generic", "midi"], max_chord=4, max_pitch=200, twin_p=4, subclass_p=6, unsorted_p=6)


def _steps_st():
    sh = st.sampled_from(SHS)
    step = st.one_of(
        st.tuples(st.just("transpose"), st.sampled_from(["track", "bar", "nc"]), st.integers(0, 7), st.integers(0, 15), sh, st.booleans()),
        st.tuples(st.just("transpose"), st.sampled_from(["track", "bar", "nc"]), st.integers(0, 7), st.integers(0, 15), sh, st.booleans()),
        st.tuples(st.just("augment"), st.sampled_from(["track", "bar", "nc"]), st.integers(0, 7), st.integers(0, 15)),
        st.tuples(st.just("diminish"), st.sampled_from(["track", "bar", "nc"]), st.integers(0, 7), st.integers(0, 15)),
        st.tuples(st.just("octave"), st.just("nc"), st.integers(0, 7), st.integers(0, 15), st.sampled_from([1, -1, 2])),
        st.tuples(st.just("replace"), st.just("nc"), st.integers(0, 7), st.integers(0, 15), st.booleans()),
    ).map(list)
    return st.lists(step, min_size=1, max_size=8)


def sub_tracks(ctx, shard, n):
    strat = st.fixed_dictionaries({"track": SG.track_st(_cfg()), "steps": _steps_st()})
    ctx.given("track", check_track, strat, 300 if ctx.quick else 5000)


def _edge_tracks():
    """tracks with an instrument attached whose notes sit at the edges of its range: transposing takes them beyond it (a range only
    matters when notes are added; transposition applies to every note regardless)"""
    cases = []
    for kind in ({"kind": "generic", "name": "g"}, {"kind": "midi", "nr": 40, "name": "Violin"}):
        for notes, steps in (([["B", 7, 1, 64], ["C", 8, 1, 64]], [["transpose", "track", 0, 0, "5", True]] * 3),
                             ([["C", 8, 2, 70]], [["augment", "track", 0, 0], ["transpose", "track", 0, 0, "3", True]]),
                             ([["C", 0, 1, 64], ["E", 0, 1, 64]], [["transpose", "track", 0, 0, "4", False], ["diminish", "track", 0, 0]]),
                             ([["G", 4, 1, 64]], [["transpose", "track", 0, 0, "7", True]] * 5)):
            bar = {"key": "C", "meter": [4, 4], "entries": [{"v": [4, 0, 1, 1], "notes": [list(x) for x in notes]},
                                                                 {"v": [4, 0, 1, 1], "notes": None},
                                                                 {"v": [2, 0, 1, 1], "notes": [list(notes[0])]}]}
            cases.append({"track": {"name": "edge", "instr": dict(kind), "bars": [bar, dict(bar)]}, "steps": [list(s) for s in steps]})
    return cases


def sub_special_tracks(ctx, shard, n):
    if shard == 0:
        ec = _edge_tracks()
        ctx.exhaustive("tracks with an instrument whose notes are transposed beyond its range", "2 instruments x 4 edge situations", len(ec))
        ctx.enumerate("track", check_track, ec)
    chord = st.sampled_from(["C", "Am", "G7", "F", "Dm7", "C", "C"]) | st.none()
    chordlist = st.lists(st.recursive(chord, lambda c: st.lists(c, min_size=1, max_size=3), max_leaves=4), min_size=2, max_size=6)
    from_chords = st.fixed_dictionaries({"chords": chordlist, "duration": st.sampled_from([1, 2, 4]), "steps": _steps_st()})
    ctx.given("track", check_track, from_chords, 150 if ctx.quick else 4000)
    # melodic sequences followed by a history that starts with the same interval at track level
    def mk(td, sh, up, count, more):
        first = ["transpose", "track", 0, 0, sh, up]
        return {"track": td, "sequence": [sh, up, count], "steps": [first] + more}
    seq = st.builds(mk, SG.track_st(SG.Cfg(octaves=[3, 4, 5], max_bars=1, max_groups=4, instruments=["none"], max_chord=3, max_pitch=200,
                                           names=T.unmixed_names(1))),
                    st.sampled_from(["2", "b2", "3", "b3", "4", "5", "1", "#1"]), st.booleans(), st.integers(1, 3), _steps_st())
    ctx.given("track", check_track, seq, 150 if ctx.quick else 4000)


SUBS = [
    Sub("notes", sub_notes, quick=4, thorough=8),
    Sub("tracks", sub_tracks, quick=6, thorough=16),
    Sub("special_tracks", sub_special_tracks, quick=3, thorough=8),
]
