"""C03 - interval naming <-> interval shorthand (mingus/core/intervals.py: determine, from_shorthand, invert)."""
import copy

from hypothesis import strategies as st

from mingus.core import intervals

from vlib.core import Sub, failed
from vlib.hanglatch import latched
from vlib.ref import theory as T

PROPERTY_ID = "C03"
RULE = ("naming: all ordered pairs of unmixed names with <= 3 accidentals (49^2; thorough <= 4, 63^2) whose ascending distance "
        "counted along the letters, (nat(b)-nat(a)) mod 12 + acc(b) - acc(a), is 0..11, x {long, short} form, enumerated; "
        "shorthand: the same names x 35 shorthands ('', #, ##, b, bb x degree 1-7) x {up, down}, enumerated (up cases also "
        "go back down); invert: fixed small lists plus Hypothesis lists (length 0-8) of note names, ints, None, text and "
        "nested lists. Non-trivial: a pair with a non-zero quality offset or a unison pair with |accidental difference| "
        ">= 2; a shorthand with two accidentals; a list of >= 2 elements that is not a palindrome."
        " Also: pairs with mixed spellings (naming clause; inverse up to letter and pitch); the reversed pair and the module's other helpers (get_interval with a key, interval, measure) are called before each question; keyword and default forms of the direction argument are compared with the positional call.")
ASSUMPTIONS = [
    "oracle: own letter/semitone arithmetic and own interval-name rule in vlib/ref/theory.py",
    "pairs outside the stated 0..11 semitone window (e.g. C -> Cb, C -> B##) are not generated",
    "long names use the docstring's wording: '<quality> <number>' with perfect for unaltered fourths and fifths, major otherwise",
    "from_shorthand results are compared on (valid name, letter, pitch class); the statement fixes the exact string only for "
    "the two inverse clauses (determine -> from_shorthand reproduces the second note; up then down returns the start)",
    "up-then-down must return the exact starting name for names with <= 3 accidentals (the statement's domain is double accidentals); "
    "from 4 accidentals on the way back can pass through a six-accidental note whose sharp and flat spellings are both allowed by C02, so "
    "only letter and pitch class are asserted there",
    "invert is given lists only; element values are JSON-like (no NaN) so that deep comparison is meaningful",
]


# ---- determine ---------------------------------------------------------------------------------------
def pair_size(a, b):
    return (T.NAT[b[0]] - T.NAT[a[0]]) % 12 + T.acc(b) - T.acc(a)


def check_determine(ctx, case):
    a, b, form = case
    quality, number, size = T.interval_long_name(a, b)
    if not 0 <= size <= 11:  # outside the statement's domain (only reachable through a hand-written replay file)
        return
    off = size - T.MAJOR_SIZES[T.letter_dist(a[0], b[0])]
    # asking about the reversed pair first (whatever it answers), or using the other public helpers of the module, must not
    # change the answer for (a, b)
    try:
        intervals.determine(b, a, form != "long")
    except Exception:  # noqa - the reversed pair may lie outside the statement's domain
        pass
    for x, y in ((a, a + "b"), (a, a + "bb"), (b, b + "b"), ("D", "Db")):
        # unisons going down lie outside the statement's window but are legal questions (the library's own tests ask them)
        for flag in (False, True):
            try:
                intervals.determine(x, y, flag)
            except Exception:  # noqa
                pass
    try:
        intervals.get_interval(a[0], 4, ["G", "Eb", "F#", "C", "Bb"][len(a + b) % 5])
        intervals.interval("D", b[0], 2)
        intervals.measure(b, a)
    except Exception:  # noqa
        pass
    if form == "long":
        expected = "%s %s" % (quality, number)
        r = ctx.ok("determine/long", intervals.determine, a, b)
        if not failed(r):
            if ctx.check(isinstance(r, str) and len(r.split(" ")) == 2, "determine/long/format",
                         lambda: "determine(%r, %r) -> %r, expected %r" % (a, b, r, expected)):
                q, n = r.split(" ")
                ctx.check(n == number, "determine/long/number", lambda: "determine(%r, %r) -> %r, expected %r" % (a, b, r, expected))
                ctx.check(q == quality, "determine/long/quality", lambda: "determine(%r, %r) -> %r, expected %r" % (a, b, r, expected))
    else:
        sh = ctx.ok("determine/short", intervals.determine, a, b, True)
        if not failed(sh):
            if ctx.check(isinstance(sh, str) and sh != "", "determine/short/format",
                         lambda: "determine(%r, %r, True) -> %r" % (a, b, sh)):
                back = ctx.ok("determine/short/apply", intervals.from_shorthand, a, sh)
                if not failed(back):
                    if T.unmixed(a) and T.unmixed(b):
                        ctx.check(back == b, "determine/short/inverse",
                                  lambda: "determine(%r, %r, True) -> %r, from_shorthand(%r, %r) -> %r" % (a, b, sh, a, sh, back))
                    else:  # a mixed spelling cannot be reproduced character by character: same letter and pitch
                        ctx.check(T.valid(back) and back[0] == b[0] and T.pc(back) == T.pc(b), "determine/short/inverse",
                                  lambda: "determine(%r, %r, True) -> %r, from_shorthand(%r, %r) -> %r" % (a, b, sh, a, sh, back))
    # the same question with the notes (and the flag) given by keyword, in declaration order and the other way round
    flag = form != "long"
    base = ctx.ok("determine", intervals.determine, a, b, flag)
    for how, call in (("note1=, note2=", lambda: intervals.determine(note1=a, note2=b, shorthand=flag)),
                      ("note2=, note1=", lambda: intervals.determine(note2=b, note1=a, shorthand=flag)),
                      ("shorthand=, note2=, note1=", lambda: intervals.determine(shorthand=flag, note2=b, note1=a)),
                      ("positional + shorthand=", lambda: intervals.determine(a, b, shorthand=flag))):
        rk = ctx.ok("determine/keyword-form", call)
        ctx.check(failed(base) or failed(rk) or rk == base, "determine/keyword-form",
                  lambda: "determine(%s) for (%r, %r, %r) -> %r, positional %r" % (how, a, b, flag, rk, base))
    unison = a[0] == b[0]
    labels = ["determine:" + form, "quality:" + quality, "number:" + number]
    ctx.note_case(off != 0 or (unison and abs(T.acc(b) - T.acc(a)) >= 2), labels)


# ---- from_shorthand ------------------------------------------------------------------------------------
def check_shorthand(ctx, case):
    name, sh, up = case
    up = bool(up)
    degree, size = T.shorthand_degree(sh), T.shorthand_size(sh)
    if up:
        letter, pclass = T.letter_up(name[0], degree - 1), (T.pc(name) + size) % 12
    else:
        letter, pclass = T.letter_up(name[0], -(degree - 1)), (T.pc(name) - size) % 12
    sig = "from_shorthand/" + ("up" if up else "down")
    # earlier questions that a careless memo could confuse with this one are asked first: the same pitch and letter under
    # another spelling, and every named interval constructor on this very root
    for other in (name + "#b", name + "b#", name + "#" * 12, name + "b" * 12):
        try:
            intervals.from_shorthand(other, sh, up)
        except Exception:  # noqa - judged in that name's own case
            pass
    for x, y in (("C", "Cbb"), ("C", "Cb"), (name, name + "bb"), ("D", "D##"), ("E", "E#")):
        for flag in (True, False):  # naming questions (unisons going down and up among them) asked before: they hand out shorthands too
            try:
                intervals.determine(x, y, flag)
            except Exception:  # noqa
                pass
    early = []
    for order in (sorted(T.CONSTRUCTORS, reverse=True), sorted(T.CONSTRUCTORS)):
        try:
            intervals.from_shorthand("C" if name != "C" else "D", "2")  # a question on another root in between
        except Exception:  # noqa
            pass
        for cname in order:
            try:
                getattr(intervals, cname)(name)
            except Exception:  # noqa - C02's subject
                pass
        early.append(ctx.ok(sig, intervals.from_shorthand, name, sh, up))
    r = ctx.ok(sig, intervals.from_shorthand, name, sh, up)
    ctx.check(failed(r) or all(failed(x) or x == r for x in early), sig + "/depends-on-earlier-constructor-calls",
              lambda: "from_shorthand(%r, %r, %r) -> %r, after the named constructors on the same root %r" % (name, sh, up, r, early))
    # the direction given by keyword, and (upwards) left to its default, denote the same call
    rk = ctx.ok(sig, lambda: intervals.from_shorthand(name, sh, up=up))
    ctx.check(failed(r) or failed(rk) or rk == r, sig + "/keyword-form", lambda: "from_shorthand(%r, %r, up=%r) -> %r, positional %r" % (name, sh, up, rk, r))
    if up:
        rd = ctx.ok(sig, intervals.from_shorthand, name, sh)
        ctx.check(failed(r) or failed(rd) or rd == r, sig + "/default-direction", lambda: "from_shorthand(%r, %r) -> %r, up=True %r" % (name, sh, rd, r))
    if not failed(r):
        what = lambda: "from_shorthand(%r, %r, %r) -> %r, expected letter %s, pitch class %d" % (name, sh, up, r, letter, pclass)  # noqa
        if ctx.check(T.valid(r), sig + "/valid", what):
            ctx.check(r[0] == letter, sig + "/letter", what)
            ctx.check(T.pc(r) == pclass, sig + "/semitones", what)
            if up:
                back = ctx.ok("from_shorthand/up-down", intervals.from_shorthand, r, sh, False)
                backk = ctx.ok("from_shorthand/up-down", lambda: intervals.from_shorthand(r, sh, up=False))
                ctx.check(failed(back) or failed(backk) or back == backk, "from_shorthand/down/keyword-form", lambda: "%r vs %r" % (backk, back))
                if not failed(back):
                    if len(name) - 1 <= 3:
                        ctx.check(back == name, "from_shorthand/up-down/round-trip",
                                  lambda: "%r up %r -> %r, down %r -> %r" % (name, sh, r, sh, back))
                    else:
                        # with four or more accidentals on the starting name the way back passes through a note that may need
                        # exactly six accidentals, where sharps and flats are both within C02's "at most six": the spelling of
                        # the starting name is then not determined, its letter and pitch are
                        ctx.check(T.valid(back) and back[0] == name[0] and T.pc(back) == T.pc(name), "from_shorthand/up-down/round-trip",
                                  lambda: "%r up %r -> %r, down %r -> %r" % (name, sh, r, sh, back))
    ctx.note_case(len(sh) == 3, ["shorthand:" + ("up" if up else "down"), "shorthand-acc:%d" % (len(sh) - 1), "degree:%d" % degree])


# ---- invert ----------------------------------------------------------------------------------------------
def check_invert(ctx, case):
    arg = copy.deepcopy(case)
    snapshot = copy.deepcopy(case)
    r = ctx.ok("invert", intervals.invert, arg)
    if not failed(r):
        what = lambda: "invert(%r) -> %r, argument afterwards %r" % (snapshot, r, arg)  # noqa
        if ctx.check(isinstance(r, list), "invert/not-a-list", what):
            ctx.check(r == snapshot[::-1], "invert/value", what)
            ctx.check(r is not arg, "invert/same-object", what)
        ctx.check(arg == snapshot, "invert/argument-changed", what)
    ctx.note_case(len(snapshot) >= 2 and snapshot != snapshot[::-1], ["invert:len%d" % min(len(snapshot), 8)])


check_determine = latched("determine", check_determine)  # both use the constructors' correction loop
check_shorthand = latched("shorthand", check_shorthand)
CHECKS = {"determine": check_determine, "shorthand": check_shorthand, "invert": check_invert}


def _shard(seq, shard, nshards):
    return seq[shard::nshards]


def _names(ctx):
    k = 3 if ctx.quick else 4
    return k, T.unmixed_names(k)


def sub_determine(ctx, shard, n):
    k, names = _names(ctx)
    pairs = [[a, b] for a in names for b in names if 0 <= pair_size(a, b) <= 11]
    # mixed spellings (sharps and flats in one name, any order) are valid names too
    mixed = [nm for nm in T.all_names(3) if not T.unmixed(nm)]
    plain = T.unmixed_names(1)
    pairs += [[a, b] for a in mixed for b in plain + mixed[::3] if 0 <= pair_size(a, b) <= 11]
    pairs += [[a, b] for a in plain for b in mixed if 0 <= pair_size(a, b) <= 11]
    if shard == 0:
        ctx.exhaustive("determine: ordered pairs of unmixed names spanning 0..11 semitones along their letters x {long, short}",
                       "<= %d accidentals" % k, 2 * len(pairs))
    ctx.enumerate("determine", check_determine, ([a, b, form] for a, b in _shard(pairs, shard, n) for form in ("long", "short")))


def sub_shorthand(ctx, shard, n):
    k, names = _names(ctx)
    if shard == 0:
        ctx.exhaustive("from_shorthand: unmixed names x 35 shorthands x {up, down}", "<= %d accidentals on the name" % k,
                       len(names) * len(T.INTERVAL_SHORTHANDS) * 2)
    ctx.enumerate("shorthand", check_shorthand,
                  ([nm, sh, up] for nm in _shard(names, shard, n) for sh in T.INTERVAL_SHORTHANDS for up in (True, False)))
    # the other shorthands of "up to two accidentals plus a degree": one sharp and one flat, in either order (size = major size)
    mixed = [a + str(d) for d in range(1, 8) for a in ("#b", "b#")]
    small = [nm for nm in names if len(nm) <= 3]
    ctx.enumerate("shorthand", check_shorthand, ([nm, sh, up] for nm in _shard(small, shard, n) for sh in mixed for up in (True, False)))


INVERT_FIXED = [[], ["C"], ["C", "E"], ["E", "C"], ["C", "E", "G"], ["C", "C"], ["C", "E", "C"], ["Bb", "D", "F", "Ab"],
                [["C", "E"], ["G"]], [None, 0, ""], [1, 2, 3, 4, 5, 6, 7, 8]]


def sub_invert(ctx, shard, n):
    if shard == 0:
        ctx.enumerate("invert", check_invert, INVERT_FIXED)
    name = st.sampled_from(T.unmixed_names(2))
    leaf = name | st.integers(-5, 200) | st.none() | st.text(max_size=4) | st.booleans()
    element = leaf | st.lists(name, max_size=3) | st.lists(leaf, max_size=3)
    strat = st.lists(name, max_size=8) | st.lists(element, max_size=8)
    ctx.given("invert", check_invert, strat, 1500 if ctx.quick else 10000)


SUBS = [
    Sub("determine", sub_determine, quick=2, thorough=8),
    Sub("shorthand", sub_shorthand, quick=2, thorough=8),
    Sub("invert", sub_invert, quick=1, thorough=4),
]
