"""C01 - note names <-> pitch classes (mingus/core/notes.py)."""
from hypothesis import strategies as st

from mingus.core import notes
from mingus.core.mt_exceptions import FormatError, NoteFormatError, RangeError

from vlib import fuzz
from vlib.core import Sub, failed
from vlib.ref import theory as T

PROPERTY_ID = "C01"
RULE = ("names = letter x every '#'/'b' string up to length k in all orders (quick k=8, thorough k=12, enumerated) plus "
        "Hypothesis accidental strings up to length 60; ordered name pairs for is_enharmonic (k<=4 quick, k<=7 thorough); "
        "integers x accidental styles for int_to_note; malformed strings from Hypothesis text and a near-miss grammar. "
        "Non-trivial: a name with both signs among >=2 accidentals or |net accidentals| >= 7 (octave wrap); a pair of "
        "different letters; an int outside 0..11 or an unknown style; a malformed string sharing a valid prefix."
        ' Also: every letter with 1..72 sharps or flats (and one opposite accidental in the middle); a coverage-guided atheris campaign over name-like text with the same oracle.')
ASSUMPTIONS = ["empty string is outside the domain (statement: non-empty)", "int_to_note is given ints only",
               "oracle: own letter/semitone arithmetic in vlib/ref/theory.py"]


def _nontrivial_name(n):
    return (len(n) >= 3 and "#" in n and "b" in n) or abs(T.acc(n)) >= 7


def check_name(ctx, name):
    p = T.pc(name)
    r = ctx.ok("is_valid_note", notes.is_valid_note, name)
    ctx.check(r is True, "is_valid_note/false-on-valid", name)
    r = ctx.ok("note_to_int", notes.note_to_int, name)
    if not failed(r):
        ctx.check(r == p and type(r) is int, "note_to_int/value", lambda: "%s -> %r, expected %d" % (name, r, p))
    for fname, d in (("augment", 1), ("diminish", -1)):
        r = ctx.ok(fname, getattr(notes, fname), name)
        if not failed(r):
            ctx.check(T.valid(r) and r[0] == name[0] and T.pc(r) == (p + d) % 12, fname + "/value",
                      lambda: "%s(%s) -> %r" % (fname, name, r))
    r = ctx.ok("remove_redundant_accidentals", notes.remove_redundant_accidentals, name)
    if not failed(r):
        ctx.check(r == T.spelled(name, T.acc(name)), "remove_redundant/value",
                  lambda: "%s -> %r, expected %r" % (name, r, T.spelled(name, T.acc(name))))
    r = ctx.ok("reduce_accidentals", notes.reduce_accidentals, name)
    if not failed(r):
        a = T.acc(name)
        good = (T.valid(r) and T.pc(r) == p and len(r) <= 2 and (("#" not in r) or a > 0) and (("b" not in r) or a < 0))
        ctx.check(good, "reduce_accidentals/value", lambda: "%s -> %r" % (name, r))
    r = ctx.ok("is_enharmonic", notes.is_enharmonic, name, name)
    ctx.check(r is True, "is_enharmonic/reflexive", name)
    ctx.note_case(_nontrivial_name(name), ["name:len%d" % min(len(name) - 1, 13)])


def check_pair(ctx, case):
    a, b = case
    r = ctx.ok("is_enharmonic", notes.is_enharmonic, a, b)
    if not failed(r):
        ctx.check(r == (T.pc(a) == T.pc(b)), "is_enharmonic/value", lambda: "%s,%s -> %r" % (a, b, r))
    ctx.note_case(a[0] != b[0] and (len(a) > 1 or len(b) > 1), ["pair:enharmonic" if T.pc(a) == T.pc(b) else "pair:different"])


def check_int(ctx, case):
    i, style = case
    in_range = 0 <= i <= 11
    good_style = style in ("#", "b")
    if in_range and good_style:
        r = ctx.ok("int_to_note", notes.int_to_note, i, style)
        if not failed(r):
            other = "b" if style == "#" else "#"
            ctx.check(T.valid(r) and len(r) <= 2 and other not in r and T.pc(r) == i, "int_to_note/value",
                      lambda: "%d,%r -> %r" % (i, style, r))
            back = ctx.ok("note_to_int", notes.note_to_int, r)
            ctx.check(back == i, "int_to_note/round-trip", lambda: "%d -> %r -> %r" % (i, r, back))
        if style == "#":
            r2 = ctx.ok("int_to_note", notes.int_to_note, i)
            ctx.check(r2 == r, "int_to_note/default-style", lambda: "%r vs %r" % (r2, r))
    elif not in_range and good_style:
        ctx.raises("int_to_note/out-of-range", (RangeError,), notes.int_to_note, i, style)
    elif in_range:
        ctx.raises("int_to_note/bad-style", (FormatError,), notes.int_to_note, i, style)
    else:
        ctx.raises("int_to_note/both-bad", (RangeError, FormatError), notes.int_to_note, i, style)
    ctx.note_case(not (in_range and good_style) or i in (1, 3, 6, 8, 10),
                  ["int:" + ("in" if in_range else "out") + ("/style-ok" if good_style else "/style-bad")])


def check_malformed(ctx, s):
    if s == "":
        return
    if T.valid(s):
        return check_name(ctx, s)
    r = ctx.ok("is_valid_note", notes.is_valid_note, s)
    ctx.check(r is False, "is_valid_note/true-on-invalid", repr(s))
    ctx.raises("note_to_int/malformed", (NoteFormatError,), notes.note_to_int, s)
    ctx.raises("reduce_accidentals/malformed", (NoteFormatError,), notes.reduce_accidentals, s)
    ctx.note_case(s[0] in "ABCDEFG" or s[1:2] in ("#", "b"), ["malformed"])


CHECKS = {"name": check_name, "pair": check_pair, "int": check_int, "malformed": check_malformed}


def _shard(seq, shard, nshards):
    return seq[shard::nshards]


def sub_names(ctx, shard, n):
    k = 8 if ctx.quick else 12
    names = T.all_names(k)
    if shard == 0:
        ctx.exhaustive("names: letter x all accidental strings (all orders)", "length <= %d" % k, len(names))
    ctx.enumerate("name", check_name, _shard(names, shard, n))
    if shard == 0:
        # long one-sided spellings: every letter with 1..72 sharps or flats (net accidentals through several octave wraps),
        # and the same with one opposite accidental inserted in the middle
        long = T.unmixed_names(72)
        long += [nm[:len(nm) // 2 + 1] + ("b" if "#" in nm else "#") + nm[len(nm) // 2 + 1:] for nm in long if len(nm) > 12]
        ctx.exhaustive("names: letter x n sharps | n flats (and one opposite accidental in the middle)", "n <= 72", len(long))
        ctx.enumerate("name", check_name, long)


def sub_names_blocks(ctx, shard, n):
    """block spellings 'L' + k sharps + m flats (and the mirror image, and k alternating pairs) with k, m up to 3000"""
    sizes = [(12, 14), (13, 12), (100, 99), (500, 498), (1502, 1500), (3000, 2999), (2000, 2000), (2999, 3000)]
    names = []
    for letter in ("C", "F", "B"):
        for k, m in sizes:
            names += [letter + "#" * k + "b" * m, letter + "b" * k + "#" * m, letter + "#b" * min(k, m) + "#" * abs(k - m)]
    ctx.exhaustive("names: block spellings with up to 3000 sharps and flats", "3 letters x 8 sizes x 3 shapes", len(names))
    ctx.enumerate("name", check_name, names)


def sub_names_long(ctx, shard, n):
    from vlib.strats import any_accidentals, lopsided_accidentals
    strat = st.builds(lambda l, a: l + a, st.sampled_from(T.LETTERS), st.text(alphabet="#b", min_size=9, max_size=60) | lopsided_accidentals(60) | lopsided_accidentals(400)
                      | st.builds(lambda s, k: s * k, st.sampled_from("#b"), st.integers(100, 400)))
    ctx.given("name", check_name, strat, 1500 if ctx.quick else 20000)
    # pairs far beyond the enumerated bound, half of them on one letter (a whole octave or more of accidentals apart)
    letter = st.sampled_from(T.LETTERS)
    acc = any_accidentals(40)
    pair = st.one_of(st.tuples(letter, acc, acc).map(lambda t: [t[0] + t[1], t[0] + t[2]]),
                     st.tuples(letter, acc, letter, acc).map(lambda t: [t[0] + t[1], t[2] + t[3]]))
    ctx.given("pair", check_pair, pair, 1500 if ctx.quick else 20000)


def sub_pairs(ctx, shard, n):
    k = 4 if ctx.quick else 7
    names = T.all_names(k)
    if shard == 0:
        ctx.exhaustive("is_enharmonic: ordered pairs of names", "accidental length <= %d" % k, len(names) ** 2)
    ctx.enumerate("pair", check_pair, ([a, b] for a in _shard(names, shard, n) for b in names))


def sub_ints(ctx, shard, n):
    styles = ["#", "b", "", "x", "##", "bb", "B", " #", "sharp", "♯"]
    ctx.exhaustive("int_to_note: ints x styles", "-50..50 x %d styles" % len(styles), 101 * len(styles))
    ctx.enumerate("int", check_int, ([i, s] for i in range(-50, 51) for s in styles))
    strat = st.tuples(st.integers(-10 ** 30, 10 ** 30) | st.integers(-30, 30), st.sampled_from(styles) | st.text(max_size=3))
    ctx.given("int", check_int, strat.map(list), 500 if ctx.quick else 20000)


NEAR = ["c", "H", " C", "C ", "#C", "bC", "C♯", "C#x", "C4", "Cb-4", "C-4", "c#", "Bb\n", "C\n", "E#b ", "Ab1", "I", "Cis",
        "CC", "C#C", "A#b#B", "\x00", "Ｃ", "C♭", "b", "#", "bb", "G##♭"]


def sub_malformed(ctx, shard, n):
    ctx.enumerate("malformed", check_malformed, NEAR)
    near = st.builds(lambda nm, pos, ch: nm[:pos % (len(nm) + 1)] + ch + nm[pos % (len(nm) + 1):],
                     st.sampled_from(T.all_names(3)), st.integers(0, 5),
                     st.sampled_from(list("cHh xB4-♯♭\n\t/|")) | st.characters())
    ctx.given("malformed", check_malformed, st.text(min_size=1, max_size=8) | near, 1500 if ctx.quick else 50000)



# ---- coverage-guided fuzz target (atheris): bytes -> text biased towards the relevant alphabet ------------------
_FUZZ_ALPHABET = list('ABCDEFG#b#b#bcHh -4x')


def _fuzz_text(fdp):
    raw = fdp.ConsumeBytes(fdp.ConsumeIntInRange(1, 14))
    s = "".join(_FUZZ_ALPHABET[b] if b < len(_FUZZ_ALPHABET) else chr(b if b < 128 else 0x100 + b) for b in raw)
    return s or None


FUZZ = {"names": (_fuzz_text, "malformed")}

def sub_fuzz(ctx, shard, n):
    """every string is either a valid name (all name clauses apply) or must be rejected (malformed clauses)"""
    fuzz.run(ctx, __name__, "names", 30000 if ctx.quick else 400000, max_len=16)


SUBS = [
    Sub("fuzz", sub_fuzz, quick=1, thorough=4),
    Sub("names", sub_names, quick=4, thorough=16),
    Sub("names_blocks", sub_names_blocks),
    Sub("names_long", sub_names_long, quick=1, thorough=4),
    Sub("pairs", sub_pairs, quick=4, thorough=16),
    Sub("ints", sub_ints),
    Sub("malformed", sub_malformed, quick=1, thorough=4),
]
