"""C09 - note-value analysis inverts construction; value arithmetic; meter predicates are total
(mingus/core/value.py, mingus/core/meter.py)."""
import sys
from fractions import Fraction

from hypothesis import strategies as st

from mingus.core import meter, value

from vlib.core import FAILED, Sub, failed
from vlib.ref import values as V

PROPERTY_ID = "C09"
RULE = ("note values: the 80 documented values (10 bases x dots 0..4 plain + 10 bases x {3:2, 5:4, 7:4}) built with "
        "mingus' own constructors, enumerated; perturbations x*(1+e) around the 50 undotted or single-dotted values with "
        "e in {0, +-0.001, +-0.005, +-0.01} (enumerated) and Hypothesis floats e in [-0.01, 0.01]; all ordered pairs of "
        "the 80 values (thorough: of all 200 base x dots x ratio values) for add/subtract; tuplet helpers on vocabulary "
        "and Hypothesis floats x ratios p:q with p, q in 1..16; meters (count, unit): counts -10..200 x units from ints "
        "-64..4096 (enumerated), powers of two up to 2**1023 as float and their neighbours, Hypothesis floats incl. "
        "fractions, 0, negatives, inf, nan, each predicate run under a deterministic budget of 10**5 traced line events. "
        "Non-trivial: dotted or tuplet value; perturbed value with e != 0; pair containing a dotted/tuplet value; "
        "meter whose beat unit is a non-integer (incl. inf/nan) or >= 2**53."
        ' Also: near-identical floats are analysed before each exact value; counts above 2**53 and arbitrary big integers; beat units given as exact Fraction / Decimal numbers; integer powers of two (and near misses) beyond the float range, up to 2**5000; values with 6-12 dots, which lie within 1% of the next shorter undotted value. Every whole number 1..400 (int and float) against the one recognised value whose 1% window it lies in.')
ASSUMPTIONS = [
    "values handed to mingus are the floats its own constructors (value.dots/triplet/quintuplet/septuplet) produce; "
    "the model computes with the exact rationals in vlib/ref/values.py",
    "add/subtract are compared in the duration domain with tolerance 1e-12 relative to the operands' durations "
    "(= relative 1e-12 for add; for subtract this is the conditioning-aware form of the same tolerance); inverse "
    "clauses at relative 1e-9; pairs of equal duration are excluded from subtract (a zero duration has no note value)",
    "is_simple is only required to terminate and return (its truth value is not fixed by the statement)",
    "integer beat units of any size are generated as ints (exact), and as floats up to 2**1023",
    "termination: more than 10**5 traced line events in one predicate call counts as non-termination",
    "beat units are also given as exact Fraction and Decimal numbers (numeric input that is neither int nor float)",
]

STEP_BUDGET = 10 ** 5
HELPERS = {(3, 2): "triplet", (5, 4): "quintuplet", (7, 4): "septuplet", (7, 8): "septuplet-in-eighths"}


def _close(x, exact, rel):
    """float x equals the exact rational within relative tolerance"""
    try:
        return x == x and abs(Fraction(x) - exact) <= rel * abs(exact)
    except (OverflowError, ValueError, TypeError):
        return False


def _build(ctx, base, dots, p, q):
    """the float mingus' own constructors give for the vocabulary entry"""
    v = ctx.ok("dots", value.dots, base, dots)
    if failed(v) or (p, q) == (1, 1):
        return v
    if (p, q) == (3, 2):
        return ctx.ok("triplet", value.triplet, v)
    if (p, q) == (5, 4):
        return ctx.ok("quintuplet", value.quintuplet, v)
    if (p, q) == (7, 4):
        return ctx.ok("septuplet", value.septuplet, v)
    raise ValueError("no constructor for ratio %r" % ((p, q),))


def _analysis_is(r, base, dots, p, q):
    try:
        return len(r) == 4 and tuple(r) == (base, dots, p, q)
    except TypeError:
        return False


def check_built(ctx, case):
    base, dots, p, q = case
    labels = ["built:dots%d" % dots, "built:ratio%d:%d" % (p, q)]
    v = _build(ctx, base, dots, p, q)
    if failed(v):
        return ctx.note_case(False, labels)
    ctx.check(_close(v, V.value(base, dots, p, q), 1e-9), "built/length",
              lambda: "constructors give %r for base %r, %d dots, %d:%d; documented length is 1/%s" % (
                  v, base, dots, p, q, V.value(base, dots, p, q)))
    inputs = [v]
    if dots == 0 and (p, q) == (1, 1):
        inputs += [base, float(base)]  # the bare base value as written by users (int 4 as well as 4.0)
    # analysing near-identical floats first (float noise of a sum/difference) must not change what the exact value gives
    import math
    for nb in (math.nextafter(v, math.inf), math.nextafter(v, -math.inf), v * (1 + 1e-11), v * (1 - 1e-11), v * (1 + 3e-13)):
        ctx.ok("determine", value.determine, nb)
    inputs.append(v)
    # the same value as an exact rational number (what a caller computing with fractions hands over)
    exact = Fraction(V.value(base, dots, p, q))
    inputs.append(exact)
    for x in inputs:
        r = ctx.ok("determine", value.determine, x)
        if not failed(r):
            ctx.check(_analysis_is(r, base, dots, p, q), "determine/built",
                      lambda: "determine(%r) -> %r, built from %r" % (x, r, (base, dots, p, q)))
    ctx.note_case(dots > 0 or (p, q) != (1, 1), labels)


def check_near(ctx, case):
    base, dots, p, q, e = case
    v = _build(ctx, base, dots, p, q)
    if failed(v):
        return ctx.note_case(False, ["near:construct-failed"])
    if isinstance(e, list):  # ["dots", n]: the next shorter base value (twice the number) with n dots - from 6 dots on its number lies
        # within 1% above this undotted value, and is therefore analysed as this value
        x = ctx.ok("dots", value.dots, base * 2, e[1])
        if failed(x):
            return ctx.note_case(False, ["near:construct-failed"])
        e = x / v - 1.0
        if not (0 < e <= 0.01):
            return ctx.note_case(False, ["near:many-dots-outside-1%"])
    else:
        x = v * (1.0 + e)
    r = ctx.ok("determine", value.determine, x)
    if not failed(r):
        ctx.check(_analysis_is(r, base, dots, p, q), "determine/near",
                  lambda: "determine(%r) -> %r; %r is within 1%% (e=%r) of %r = %r" % (x, r, x, e, (base, dots, p, q), v))
    ctx.note_case(e != 0, ["near:" + ("below" if e < 0 else "above" if e > 0 else "exact"),
                           "near:" + ("dotted" if dots else "plain" if (p, q) == (1, 1) else "tuplet")])


def check_pair(ctx, case):
    ea, eb = case
    a, b = _build(ctx, *ea), _build(ctx, *eb)
    if failed(a) or failed(b):
        return ctx.note_case(False, ["pair:construct-failed"])
    da, db = 1 / Fraction(a), 1 / Fraction(b)  # exact durations of the floats handed over
    scale = da + db
    s = ctx.ok("add", value.add, a, b)
    if not failed(s):
        ok = s == s and s not in (float("inf"), float("-inf")) and s != 0 and abs(1 / Fraction(s) - (da + db)) <= 1e-12 * scale
        ctx.check(ok, "add/value", lambda: "add(%r, %r) -> %r, exact %s" % (a, b, s, 1 / (da + db)))
        back = ctx.ok("subtract", value.subtract, s, b)
        if not failed(back):
            ctx.check(_close(back, Fraction(a), 1e-9), "add-then-subtract/inverse",
                      lambda: "subtract(add(%r, %r), %r) -> %r" % (a, b, b, back))
    if V.length(*ea) != V.length(*eb):
        d = ctx.ok("subtract", value.subtract, a, b)
        if not failed(d):
            ok = d == d and d not in (float("inf"), float("-inf")) and d != 0 and abs(1 / Fraction(d) - (da - db)) <= 1e-12 * scale
            ctx.check(ok, "subtract/value", lambda: "subtract(%r, %r) -> %r, exact %s" % (a, b, d, 1 / (da - db)))
            back = ctx.ok("add", value.add, d, b)
            if not failed(back):
                ctx.check(_close(back, Fraction(a), 1e-9), "subtract-then-add/inverse",
                          lambda: "add(subtract(%r, %r), %r) -> %r" % (a, b, b, back))
    plain = lambda e: e[1] == 0 and (e[2], e[3]) == (1, 1)
    ctx.note_case(not (plain(ea) and plain(eb)),
                  ["pair:" + ("equal" if V.length(*ea) == V.length(*eb) else "longer-first" if V.length(*ea) > V.length(*eb) else "shorter-first")])


def check_tuplet(ctx, case):
    v, p, q = case
    exact = Fraction(v) * p / q
    r = ctx.ok("tuplet", value.tuplet, v, p, q)
    if not failed(r):
        ctx.check(_close(r, exact, 1e-12), "tuplet/formula", lambda: "tuplet(%r, %d, %d) -> %r, expected %s" % (v, p, q, r, exact))
    name = HELPERS.get((p, q))
    if name is not None:
        if name == "septuplet-in-eighths":
            h = ctx.ok("septuplet", value.septuplet, v, False)
        else:
            h = ctx.ok(name, getattr(value, name), v)
            if name == "septuplet" and not failed(h):
                h2 = ctx.ok("septuplet", value.septuplet, v, True)
                ctx.check(h2 == h, "helper/septuplet-default", lambda: "septuplet(%r) %r != septuplet(%r, True) %r" % (v, h, v, h2))
        if not failed(h):
            ctx.check(_close(h, exact, 1e-12) and (failed(r) or _close(h, Fraction(r), 1e-12)), "helper/" + name,
                      lambda: "%s(%r) -> %r, tuplet(%r, %d, %d) -> %r" % (name, v, h, v, p, q, r))
    ctx.note_case(name is not None or v != int(v), ["tuplet:" + (name or "general")])


# ---- meters ------------------------------------------------------------------------------------------------
class _OutOfSteps(BaseException):
    pass


def _bounded(f, *args):
    """run f(*args) under a deterministic budget of traced line events"""
    count = [0]

    def tracer(frame, event, arg):
        if event == "line":
            count[0] += 1
            if count[0] > STEP_BUDGET:
                raise _OutOfSteps()
        return tracer

    old = sys.gettrace()
    sys.settrace(tracer)
    try:
        return f(*args)
    finally:
        sys.settrace(old)


def _num(x):
    """decode a beat unit / count from its JSON-able form (non-finite floats travel as strings; ["frac", n, d] and ["dec", text]
    are exact rational / decimal numbers)"""
    if isinstance(x, list):
        if x[0] == "frac":
            return Fraction(x[1], x[2])
        import decimal
        return decimal.Decimal(x[1])
    return float(x) if isinstance(x, str) else x


def _enc(x):
    if isinstance(x, float) and (x != x or x in (float("inf"), float("-inf"))):
        return repr(x)
    return x


def _predicate(ctx, name, f, arg):
    """call a meter predicate: it must return within the step budget, without raising"""
    def run():
        try:
            return _bounded(f, arg)
        except _OutOfSteps:
            ctx.fail("meter/non-termination", "%s(%r) used more than %d line events" % (name, arg, STEP_BUDGET))
            return FAILED
    return ctx.ok(name, run)


def check_meter(ctx, case):
    n, d = _num(case[0]), _num(case[1])
    if isinstance(d, (int, float)):
        unit_ok = V.is_power_of_two_unit(d)
    else:  # Fraction / Decimal: exact value
        fd = Fraction(d)
        unit_ok = fd.denominator == 1 and V.is_power_of_two_unit(fd.numerator)
    valid = n > 0 and unit_ok
    r = _predicate(ctx, "valid_beat_duration", meter.valid_beat_duration, d)
    if not failed(r):
        ctx.check(bool(r) == unit_ok, "valid_beat_duration/value", lambda: "valid_beat_duration(%r) -> %r" % (d, r))
    m = (n, d)
    expect = [("is_valid", valid), ("is_compound", valid and n % 3 == 0 and n >= 6),
              ("is_asymmetrical", valid and n % 2 == 1), ("is_simple", None)]
    for name, exp in expect:
        r = _predicate(ctx, name, getattr(meter, name), m)
        if exp is not None and not failed(r):
            ctx.check(bool(r) == exp, name + "/value", lambda: "%s(%r) -> %r, expected %r" % (name, m, r, exp))
    nonint = (isinstance(d, float) and (d != d or d in (float("inf"), float("-inf")) or d != int(d))) or \
        (not isinstance(d, (int, float)) and Fraction(d).denominator != 1)
    big = not nonint and abs(d) >= 2 ** 53
    labels = ["meter:" + ("valid" if valid else "bad-unit" if not unit_ok else "bad-count")]
    if valid:
        labels.append("meter:compound" if (n % 3 == 0 and n >= 6) else "meter:not-compound")
        labels.append("meter:asymmetrical" if n % 2 == 1 else "meter:symmetrical")
    if nonint:
        labels.append("unit:non-integer")
    if big:
        labels.append("unit:>=2**53")
    ctx.note_case(nonint or big, labels)


NAMED = {"longa": 0.25, "breve": 0.5, "semibreve": 1, "minim": 2, "crotchet": 4, "quaver": 8, "semiquaver": 16, "demisemiquaver": 32,
         "hemidemisemiquaver": 64, "quasihemidemisemiquaver": 128, "semihemidemisemiquaver": 128, "whole": 1, "half": 2, "quarter": 4,
         "eighth": 8, "sixteenth": 16, "thirty_second": 32, "sixty_fourth": 64, "hundred_twenty_eighth": 128}


def check_named(ctx, name):
    """the named base values (longa ... 128th) and the module's tables of base values and their tuplets"""
    if name in NAMED:
        got = getattr(value, name, None)
        ctx.check(got == NAMED[name], "named-value", lambda: "value.%s = %r, expected %r" % (name, got, NAMED[name]))
    else:
        bases = [0.25, 0.5, 1, 2, 4, 8, 16, 32, 64, 128]
        want = {"base_values": bases, "base_triplets": [b * 3 / 2 for b in bases], "base_quintuplets": [b * 5 / 4 for b in bases],
                "base_septuplets": [b * 7 / 4 for b in bases]}[name]
        got = getattr(value, name, None)
        ctx.check(isinstance(got, list) and [float(x) for x in got] == [float(x) for x in want], "value-table",
                  lambda: "value.%s = %r, expected %r" % (name, got, want))
    ctx.note_case(True, ["named:" + ("value" if name in NAMED else "table")])


CHECKS = {"named": check_named, "built": check_built, "near": check_near, "pair": check_pair, "tuplet": check_tuplet, "meter": check_meter}


# ---- domains -------------------------------------------------------------------------------------------
def sub_built(ctx, shard, n):
    cases = [V.key(e) for e in V.VOCAB]
    ctx.exhaustive("built values: 10 bases x dots 0..4 + 10 bases x 3 tuplets", "the documented vocabulary", len(cases))
    ctx.enumerate("built", check_built, cases)
    ctx.enumerate("named", check_named, sorted(NAMED) + ["base_values", "base_triplets", "base_quintuplets", "base_septuplets"])


def check_whole(ctx, n):
    """a whole number (written as an int and as a float) that lies within 1% of exactly one undotted or single-dotted recognised
    value is analysed as that value - also when it is not itself a recognised value (85 is within 1% of the dotted 128th, 256/3)"""
    from fractions import Fraction
    hits = []
    for c in V.NEAR_CENTRES:
        base, dots, p, q = V.key(c)
        v = Fraction(V.value(base, dots, p, q))
        if abs(Fraction(n) / v - 1) <= Fraction(99, 10000):
            hits.append((base, dots, p, q))
    if len(hits) != 1:
        return ctx.note_case(False, ["whole:no-single-centre"])
    base, dots, p, q = hits[0]
    for x in (n, float(n)):
        r = ctx.ok("determine", value.determine, x)
        if not failed(r):
            ctx.check(_analysis_is(r, base, dots, p, q), "determine/near", lambda: "determine(%r) -> %r; %r is within 1%% of %r" % (x, r, x, hits[0]))
    ctx.note_case(True, ["whole:" + ("dotted" if dots else "plain" if (p, q) == (1, 1) else "tuplet")])


CHECKS["whole"] = check_whole
NEAR_E = [0.0, 0.001, -0.001, 0.005, -0.005, 0.01, -0.01]


def sub_near(ctx, shard, n):
    centres = [V.key(e) for e in V.NEAR_CENTRES]
    if shard == 0:
        ctx.exhaustive("perturbed values: 50 undotted/single-dotted centres x listed e", "e in %r" % NEAR_E, len(centres) * len(NEAR_E))
        ctx.enumerate("near", check_near, [c + [e] for c in centres for e in NEAR_E])
        ctx.exhaustive("whole numbers 1..400 (int and float) within 1% of a recognised value", "400", 400)
        ctx.enumerate("whole", check_whole, list(range(1, 401)))
        # many-dotted values of the next longer base: 6 dots and more fall inside the 1% window of an undotted value
        ctx.enumerate("near", check_near, [c + [["dots", k]] for c in centres if c[1] == 0 and (c[2], c[3]) == (1, 1) for k in range(5, 13)])
    es = st.floats(-0.01, 0.01, allow_nan=False) | st.floats(-0.01, -0.001) | st.floats(0.001, 0.01)
    strat = st.tuples(st.sampled_from(centres), es).map(lambda t: t[0] + [t[1]])
    ctx.given("near", check_near, strat, 1500 if ctx.quick else 12500)


def sub_pairs(ctx, shard, n):
    vocab = [V.key(e) for e in (V.VOCAB if ctx.quick else V.VOCAB_FULL)]
    if shard == 0:
        ctx.exhaustive("add/subtract: ordered pairs of vocabulary values", "%d values" % len(vocab), len(vocab) ** 2)
    ctx.enumerate("pair", check_pair, ([a, b] for a in vocab[shard::n] for b in vocab))


def sub_tuplets(ctx, shard, n):
    vs = []
    for e in V.VOCAB:
        x = float(V.value(*V.key(e)))
        if x not in vs:
            vs.append(x)
    cases = [[v, p, q] for v in vs for (p, q) in sorted(HELPERS)] + [[b, p, q] for b in V.BASES for (p, q) in sorted(HELPERS)]
    if shard == 0:
        ctx.enumerate("tuplet", check_tuplet, cases)
    ratio = st.sampled_from(sorted(HELPERS)) | st.tuples(st.integers(1, 16), st.integers(1, 16))
    v = st.sampled_from(vs) | st.floats(1.0 / 16, 1024.0) | st.integers(1, 256)
    ctx.given("tuplet", check_tuplet, st.tuples(v, ratio).map(lambda t: [t[0], t[1][0], t[1][1]]), 800 if ctx.quick else 5000)


COUNTS = list(range(-10, 201))
BIG_COUNTS = [2 ** 53 + 1, 2 ** 53 + 3, 10 ** 17 + 1, 10 ** 17 + 2, 3 * 2 ** 60, 3 * 2 ** 60 + 1, 6 * 10 ** 20 + 3, 10 ** 30 + 5, 3 ** 40, 3 ** 40 + 1,
              -(10 ** 20), 2 ** 64 - 1, 2 ** 64 + 1]


EXACT_UNITS = [["frac", a, b] for a in (1, 3, 4, 5, 8, 9, 16, 17, 32, 33, 64, 128) for b in (1, 2, 3, 4, 8)] + \
    [["dec", t] for t in ("4", "4.0", "4.5", "2.5", "8.75", "0.5", "16", "1", "1.000000000000000000001", "6", "1E+3", "1024")]


def sub_meters_enum(ctx, shard, n):
    units = list(range(-64, 4097))
    if ctx.quick:
        # every unit with a few counts, and every count with the interesting units
        key_units = [2 ** k for k in range(13)] + [0, -1, -2, -4, -8, 3, 5, 6, 7, 9, 10, 12, 24, 48, 96, 100, 1000, 4095,
                     2 ** 53, 2 ** 53 + 2, 2 ** 70, 2 ** 70 + 2, 2 ** 100 + 2 ** 40, 2 ** 200,
                     2 ** 1023, 2 ** 1024, 2 ** 1025, 2 ** 1024 + 2, 3 * 2 ** 1024, 2 ** 2000, 2 ** 4096, 2 ** 5000]
        cases = [[c, u] for u in units for c in (1, 6, 7)] + [[c, u] for c in COUNTS + BIG_COUNTS for u in key_units]
        cases += [[c, u] for u in EXACT_UNITS for c in (1, 3, 6, 7, 9)]
        bound = "units -64..4096 x counts {1,6,7}; counts -10..200 x %d units" % len(key_units)
    else:
        cases = [[c, u] for u in units[shard::n] for c in COUNTS + BIG_COUNTS]
        if shard == 0:
            cases += [[c, u] for u in EXACT_UNITS for c in COUNTS]
        bound = "units -64..4096 x counts -10..200"
    if shard == 0:
        ctx.exhaustive("meters: integer beat units x counts", bound, len(cases) if ctx.quick else len(units) * len(COUNTS))
    ctx.enumerate("meter", check_meter, cases[shard::n] if ctx.quick else cases)


def _unit_strategy():
    pow2 = st.integers(-1074, 1023).map(lambda k: 2.0 ** k)
    import math
    near_pow2 = st.tuples(st.integers(0, 1023), st.sampled_from([1, -1, 2, -2])).map(
        lambda t: math.nextafter(2.0 ** t[0], float("inf") if t[1] > 0 else 0.0) if abs(t[1]) == 1 else 2.0 ** t[0] * (1.5 if t[1] > 0 else 0.75))
    halves = st.integers(-64, 8192).map(lambda k: k / 2.0)
    fracs = st.tuples(st.integers(-64, 4096), st.sampled_from([0.25, 0.5, 0.75, 0.1, 1e-9, 1.0 / 3])).map(lambda t: t[0] + t[1])
    special = st.sampled_from([0.0, -0.0, 1.0, 2.0, 0.5, 1.5, 2.5, float("inf"), float("-inf"), float("nan"), 2.0 ** 53, 2.0 ** 53 + 2,
                               2.0 ** 1023, 1.7976931348623157e308, 5e-324, -1.0, -2.0, -4.0, 3.0, 6.0])
    ints = (st.integers(-2 ** 53 + 1, 2 ** 53 - 1) | st.integers(0, 52).map(lambda k: 2 ** k) | st.integers(-2 ** 90, 2 ** 90)
            | st.integers(53, 300).map(lambda k: 2 ** k) | st.integers(300, 5000).map(lambda k: 2 ** k)
            | st.tuples(st.integers(300, 5000), st.integers(1, 299)).map(lambda t: 2 ** t[0] + 2 ** t[1]) | st.tuples(st.integers(54, 300), st.integers(1, 40)).map(lambda t: 2 ** t[0] + 2 ** t[1]))
    floats = st.floats(allow_nan=True, allow_infinity=True)
    return st.one_of(pow2, near_pow2, halves, fracs, special, ints, floats, st.floats(0, 4096))


def sub_meters_random(ctx, shard, n):
    counts = st.sampled_from(COUNTS) | st.sampled_from(BIG_COUNTS) | st.integers(-10 ** 25, 10 ** 25)
    strat = st.tuples(counts, _unit_strategy()).map(lambda t: [t[0], _enc(t[1])])
    ctx.given("meter", check_meter, strat, 2000 if ctx.quick else 12500)


SUBS = [
    Sub("built", sub_built),
    Sub("near", sub_near, quick=2, thorough=8),
    Sub("pairs", sub_pairs, quick=2, thorough=8),
    Sub("tuplets", sub_tuplets, quick=1, thorough=4),
    Sub("meters_enum", sub_meters_enum, quick=4, thorough=16),
    Sub("meters_random", sub_meters_random, quick=1, thorough=8),
]
