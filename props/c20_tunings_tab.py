"""C20 - tunings and tablature: exact fret arithmetic; tabs decode to the same pitches (extra/tunings.py, tablature.py)."""
import itertools
import math

from hypothesis import strategies as st

from mingus.containers import Bar, Composition, Note, NoteContainer, Track
from mingus.core import chords
from mingus.core.mt_exceptions import FingerError, RangeError
from mingus.extra import tablature as TB
from mingus.extra import tunings as TU

from vlib.core import Sub, failed
from vlib.ref import rvalues as RV
from vlib.ref import tabread
from vlib.ref import theory as T

PROPERTY_ID = "C20"
RULE = ("all registered tunings (incl. course tunings) x every string x notes 0..127 x maxfret in {0,5,12,24} for find_frets and strings "
        "-2..n+1 x frets -2..26 for get_Note, enumerated against own open-string pitches; tuning lookups with every prefix of every "
        "instrument / description in three casings x string/course counts; find_fingering on generated note sets (reachable and "
        "unreachable, 1-4 notes, max_distance 2-5) against a brute-force specification; find_chord_fingering on chord shorthands x 21 "
        "roots on six-string tunings against a validity predicate; tablature of generated notes, containers, bars, tracks and "
        "compositions on the non-course tunings at page widths 40..160, decoded by an own tab reader. Non-trivial: a tuning with >= 4 "
        "strings and a note reachable on >= 2 strings; a fingering query with >= 2 notes and a non-empty answer; a tab with a two-digit "
        "fret or >= 2 bars."
        ' Also: returned notes / containers are modified before the fret table is asked again; calls that fail half-way precede fingering queries; notes carrying string / fret attributes from the same or another tuning; tracks whose own tuning differs from the one passed explicitly; one Bar object standing in two tracks of a composition that are played on different tunings; the best chord fingering returned as a container of notes (return_best_as_NoteContainer) checked through the string / fret attributes of its notes; chord entries in bars where one note carries a wished (string, fret) position (valid on this tuning, or left over from another one); the documented Am example on the standard guitar as a non-vacuity anchor for chord fingerings.')
ASSUMPTIONS = ["tablature is rendered for tunings without courses only; empty bars / containers are not rendered",
               "the decode clause is applied when every entry gets at least (fret digits + 1) columns, measured on the rendered "
               "beat-marker line; narrower tabs still count for the equal-line-length clause",
               "own finger count = number of distinct non-zero frets (a lower bound of any sensible count, so the limit cannot false-alarm)",
               "get_tunings completeness: with an exactly named instrument at least that instrument's tunings, otherwise all prefix matches"]


def _tunings():
    ts = TU.get_tunings()
    return sorted(ts, key=lambda t: (t.instrument, t.description))


def _open(t):
    """open-string pitch per string from the name/octave attributes (first string of a course)"""
    res = []
    for x in t.tuning:
        s = x[0] if isinstance(x, list) else x
        res.append(T.pitch(s.name, s.octave))
    return res


def _has_courses(t):
    return any(isinstance(x, list) for x in t.tuning)


# ---- fret arithmetic -----------------------------------------------------------------------------------

SPELLINGS = {pc_: [nm for nm in T.unmixed_names(2) if T.pc(nm) == pc_] for pc_ in range(12)}


def check_frets(ctx, case):
    ti, maxfret = case
    t = _tunings()[ti]
    op = _open(t)
    bad = None
    multi = 0
    for n in range(0, 128):
        exp = [(n - o) if 0 <= n - o <= maxfret else None for o in op]
        try:
            r = t.find_frets(Note(n), maxfret)
            r2 = t.find_frets("%s-%d" % (Note(n).name, Note(n).octave), maxfret) if n % 7 == 0 else r
        except Exception as e:  # noqa
            bad = (n, repr(e))
            break
        if list(r) != exp or list(r2) != exp:
            bad = (n, "%r, expected %r" % (r, exp))
            break
        # the same pitch under its other spellings, those written across the octave line included (Cb-5 = B-4, B#-3 = C-4)
        for nm in SPELLINGS[n % 12]:
            o_, rem = divmod(n - T.NAT[nm[0]] - T.acc(nm), 12)
            if rem or not 0 <= o_ <= 10:
                continue
            try:
                r3 = t.find_frets(Note(nm, o_), maxfret)
                r4 = t.find_frets("%s-%d" % (nm, o_), maxfret)
            except Exception as e:  # noqa
                bad = (n, "spelled %s-%d: %r" % (nm, o_, e))
                break
            if list(r3) != exp or list(r4) != exp:
                bad = (n, "spelled %s-%d: %r / %r, expected %r" % (nm, o_, r3, r4, exp))
                break
        if bad:
            break
        if sum(1 for x in exp if x is not None) >= 2:
            multi += 1
    ctx.evaluations += 127
    if bad:
        ctx.fail("find_frets", "%s / %s maxfret %d note %d: %s" % (t.instrument, t.description, maxfret, bad[0], bad[1]))
    if maxfret == 24:
        r = ctx.ok("find_frets", t.find_frets, Note(60))
        ctx.check(failed(r) or list(r) == [(60 - o) if 0 <= 60 - o <= 24 else None for o in op], "find_frets/default-maxfret", repr(r))
    ctx.note_case(len(op) >= 4 and multi > 0, ["frets:%d-strings" % len(op), "frets:courses" if _has_courses(t) else "frets:plain"])


def check_get_note(ctx, ti):
    t = _tunings()[ti]
    op = _open(t)
    n = len(op)
    for s in range(-2, n + 2):
        for f in range(-2, 27):
            ok = 0 <= s < n and 0 <= f <= 24
            if ok:
                r = ctx.ok("get_Note", t.get_Note, s, f)
                if not failed(r):
                    ctx.check(T.pitch(r.name, r.octave) == op[s] + f, "get_Note/pitch", lambda: "%s string %d fret %d -> %s-%d" % (t.instrument, s, f, r.name, r.octave))
            else:
                ctx.raises("get_Note/out-of-range", (RangeError,), t.get_Note, s, f)
    # notes handed out by the tuning are the caller's: changing them must not move the strings
    for s in range(n):
        for f in (0, 1, 12):
            r = ctx.ok("get_Note", t.get_Note, s, f)
            if not failed(r):
                r.octave_up()
                r.augment()
                r.transpose("3")
    nc = ctx.ok("frets_to_NoteContainer", t.frets_to_NoteContainer, [0] * n)
    if not failed(nc):
        nc.transpose("5")
        nc.augment()
    for s in range(n):
        r = ctx.ok("get_Note", t.get_Note, s, 0)
        ctx.check(failed(r) or T.pitch(r.name, r.octave) == op[s], "get_Note/tuning-changed-through-returned-note",
                  lambda: "%s / %s string %d now sounds %s-%d, open pitch was %d" % (t.instrument, t.description, s, r.name, r.octave, op[s]))
    fr = ctx.ok("find_frets", t.find_frets, Note(op[0] + 5))
    ctx.check(failed(fr) or fr[0] == 5, "get_Note/tuning-changed-through-returned-note", lambda: "find_frets after mutation: %r" % (fr,))
    ctx.ok("count_strings", t.count_strings)
    ctx.check(t.count_strings() == n, "count_strings", "")
    ctx.evaluations += (n + 4) * 29 - 1
    ctx.note_case(True, ["get_Note"])


# ---- lookups -------------------------------------------------------------------------------------------

def _courses(t):
    return sum(len(x) if isinstance(x, list) else 1 for x in t.tuning) / float(len(t.tuning))


def check_lookup(ctx, case):
    instr, desc, nstr, ncrs = case
    allt = _tunings()
    names = {t.instrument.upper() for t in allt}

    def sat(t, with_desc):
        return (t.instrument.upper().startswith(instr.upper()) and (not with_desc or t.description.upper().startswith(desc.upper()))
                and (nstr is None or len(t.tuning) == nstr) and (ncrs is None or _courses(t) == ncrs))
    r = ctx.ok("get_tunings", TU.get_tunings, instr, nstr, ncrs)
    if not failed(r):
        for t in r:
            ctx.check(sat(t, False), "get_tunings/constraint-violated", lambda: "%r -> %s / %s" % (case, t.instrument, t.description))
        ids = {id(t) for t in r}
        ctx.check(len(ids) == len(r), "get_tunings/duplicates", repr(case))
        if instr.upper() in names:
            must = [t for t in allt if t.instrument.upper() == instr.upper() and sat(t, False)]
        else:
            must = [t for t in allt if sat(t, False)]
        ctx.check(all(id(t) in ids for t in must), "get_tunings/incomplete", lambda: "%r: %d returned, %d must be" % (case, len(r), len(must)))
    g = ctx.ok("get_tuning", TU.get_tuning, instr, desc, nstr, ncrs)
    if not failed(g):
        if g is not None:
            ctx.check(sat(g, True), "get_tuning/constraint-violated", lambda: "%r -> %s / %s" % (case, g.instrument, g.description))
        else:
            cands = [t for t in allt if sat(t, True) and (instr.upper() not in names or t.instrument.upper() == instr.upper())]
            ctx.check(not cands, "get_tuning/missed", lambda: "%r: none returned, %d satisfy" % (case, len(cands)))
    ctx.note_case(nstr is not None or ncrs is not None or 0 < len(instr) < 6, ["lookup"])


# ---- fingerings ----------------------------------------------------------------------------------------

def _brute(op, pitches, md):
    res = set()
    for strs in itertools.permutations(range(len(op)), len(pitches)):
        fr = [p - op[s] for p, s in zip(pitches, strs)]
        if any(not 0 <= f <= 24 for f in fr):
            continue
        non = [f for f in fr if f != 0]
        if non and not (max(non) - min(non) < md):
            continue
        res.add(tuple(zip(strs, fr)))
    return res


def check_fingering(ctx, case):
    ti, pitches, md = case
    t = _tunings()[ti]
    op = _open(t)
    notes = [Note(p) for p in pitches]
    # an earlier call that ends in an error half-way (a playable note followed by something that is not a note) must not
    # influence later answers
    for junk in (["%s-%d" % (Note(op[0] + 2).name, Note(op[0] + 2).octave), "H-1"], [Note(op[-1] + 1), "not a note"], [Note(op[0]), None]):
        try:
            t.find_fingering(junk, md)
        except Exception:  # noqa - rejected input
            pass
    r = ctx.ok("find_fingering", t.find_fingering, notes, md)
    if failed(r):
        return
    got = [tuple((s, f) for (s, f) in x) for x in r]
    exp = _brute(op, pitches, md) if pitches else set()
    ctx.check(set(got) == exp, "find_fingering/set", lambda: "%s %r md %d: unexpected %r, missing %r" % (
        t.instrument, pitches, md, sorted(set(got) - exp)[:3], sorted(exp - set(got))[:3]))
    ctx.check(len(got) == len(set(got)), "find_fingering/duplicates", repr(case))
    sums = [sum(f for (s, f) in x) for x in got]
    ctx.check(sums == sorted(sums), "find_fingering/order", lambda: "%r: fret sums %r" % (case, sums))
    if len(pitches) > 0:
        r2 = ctx.ok("find_fingering", t.find_fingering, NoteContainer(notes) if len(set(pitches)) == len(pitches) and pitches == sorted(pitches) else notes, md)
        ctx.check(failed(r2) or [tuple(x) for x in r2] == got, "find_fingering/container-form", repr(case))
    ctx.note_case(len(pitches) >= 2 and bool(exp), ["fingering:%d-notes" % len(pitches), "fingering:" + ("some" if exp else "none")])


def check_chord_fingering(ctx, case):
    ti, chord, md, maxfret, maxfing = case
    t = _tunings()[ti]
    op = _open(t)
    names = chords.from_shorthand(chord)
    pcs = {T.pc(n) for n in names}
    r = ctx.ok("find_chord_fingering", t.find_chord_fingering, list(names), md, maxfret, maxfing)
    if failed(r):
        return
    for fing in r:
        if not ctx.check(isinstance(fing, list) and len(fing) == len(op), "chord_fingering/one-entry-per-string", lambda: "%r: %r" % (case, fing)):
            continue
        ctx.check(all(f is None or (isinstance(f, int) and 0 <= f <= maxfret) for f in fing), "chord_fingering/fret-range", lambda: "%r: %r" % (case, fing))
        snd = {(op[s] + f) % 12 for s, f in enumerate(fing) if f is not None}
        ctx.check(snd <= pcs, "chord_fingering/foreign-pitch-class", lambda: "%r: %r sounds %r, chord %r" % (case, fing, sorted(snd), sorted(pcs)))
        ctx.check(snd >= pcs, "chord_fingering/chord-note-missing", lambda: "%r: %r sounds %r, chord %r" % (case, fing, sorted(snd), sorted(pcs)))
        non = [f for f in fing if f]
        if non:
            ctx.check(max(non) - min(non) < md, "chord_fingering/span", lambda: "%r: %r" % (case, fing))
            ctx.check(len(set(non)) <= maxfing, "chord_fingering/fingers", lambda: "%r: %r needs more than %d fingers" % (case, fing, maxfing))
    if r:
        # the same question answered with the best fingering as a container of notes carrying their (string, fret)
        best = ctx.ok("find_chord_fingering/best", t.find_chord_fingering, list(names), md, maxfret, maxfing, True)
        if not failed(best):
            pos = [(getattr(x, "string", None), getattr(x, "fret", None)) for x in best]
            what = lambda: "%r: best fingering as notes %r (list form starts with %r)" % (case, pos, r[0])  # noqa
            if ctx.check(all(isinstance(s_, int) and isinstance(f_, int) and 0 <= s_ < len(op) and 0 <= f_ <= maxfret for s_, f_ in pos) and
                         len({s_ for s_, _ in pos}) == len(pos) and pos, "chord_fingering/best/positions", what):
                snd = {(op[s_] + f_) % 12 for s_, f_ in pos}
                named = [(x.name, getattr(x, "string", None), getattr(x, "fret", None)) for x in best]
                ctx.check(all(T.valid(nm) and T.pc(nm) == (op[s_] + f_) % 12 for nm, s_, f_ in named), "chord_fingering/best/note-is-not-what-its-position-sounds",
                          lambda: "%r: returned notes %r on open strings %r" % (case, named, op))
                ctx.check({T.pc(nm) for nm, _, _ in named if T.valid(nm)} == pcs, "chord_fingering/best/named-pitch-classes",
                          lambda: "%r: returned notes %r, chord %r" % (case, named, names))
                ctx.check(snd <= pcs, "chord_fingering/best/foreign-pitch-class", what)
                ctx.check(snd >= pcs, "chord_fingering/best/chord-note-missing", what)
                non = [f_ for _, f_ in pos if f_]
                if non:
                    ctx.check(max(non) - min(non) < md, "chord_fingering/best/span", what)
                    ctx.check(len(set(non)) <= maxfing, "chord_fingering/best/fingers", what)
    ctx.note_case(len(r) > 0, ["chord_fingering:%s" % ("some" if r else "none")])


# ---- tablature -----------------------------------------------------------------------------------------

def _entry_pitches(op, pos):
    """pos = {"base": b, "picks": [[string seed, offset, open?], ...]} -> sorted distinct pitches"""
    n = len(op)
    strings = list(range(n))
    ps = set()
    for (seed, off, is_open) in pos["picks"][:n]:
        s = strings.pop(seed % len(strings))
        ps.add(op[s] + (0 if is_open else pos["base"] + off))
    return sorted(ps)


def _lines_equal(ctx, text, what):
    sl = tabread.string_lines(text)
    ctx.check(len(sl) > 0, "tab/no-string-lines", what)
    return sl


def _decode_track(ctx, lines, op, what):
    """lines = the string lines of one track, consecutive systems of n lines"""
    n = len(op)
    if not ctx.check(len(lines) % n == 0 and lines, "tab/line-count", lambda: "%s: %d string lines for %d strings" % (what, len(lines), n)):
        return None
    ents, widths = [], []
    for k in range(0, len(lines), n):
        sys_ = lines[k:k + n]
        ctx.check(len({len(l) for l in sys_}) == 1, "tab/unequal-line-lengths", lambda: "%s: %r" % (what, [len(l) for l in sys_]))
        e, cols, w = tabread.decode_system(sys_, op)
        ents += e
        widths += w
    return ents


def _wide_enough(text, bars_desc, op):
    """every entry gets at least digits+1 columns, judged from the rendered beat markers"""
    ms = tabread.marker_lines(text)
    if not ms:
        return False
    # smallest distance between two neighbouring beat markers anywhere = columns per beat of the bar with the largest beat unit,
    # so (that distance x the largest beat unit) never over-estimates the columns per whole note
    gaps = []
    for m in ms:
        stars = [i for i, c in enumerate(m) if c == "*"]
        gaps += [b - a for a, b in zip(stars, stars[1:])]
    if not gaps or min(gaps) < 2:
        return False
    per_whole = min(gaps) * max(meter[1] for (meter, _) in bars_desc)
    for (meter, entries) in bars_desc:
        for (v, ps) in entries:
            cols = math.floor(per_whole / float(RV.number(v)))
            digits = 2 if ps and max(p - min(op) for p in ps) >= 10 else 1
            if cols < digits + 1:
                return False
    return True


def check_tab(ctx, case):
    kind, ti, width = case["kind"], case["tuning"], case["width"]
    plain = [t for t in _tunings() if not _has_courses(t)]
    t = plain[ti % len(plain)]
    op = _open(t)
    n = len(op)
    two_digit = False
    if kind in ("note", "nc"):
        ps = _entry_pitches(op, case["pos"])
        if kind == "note":
            ps = ps[:1]
            note = Note(ps[0])
            force = case.get("force")
            if force:  # 'string' / 'fret' attributes: taken from this tuning, or left over from another tuning
                src = t if force == "same" else plain[(ti + 5) % len(plain)]
                so = _open(src)
                cands = [(s_, ps[0] - o_) for s_, o_ in enumerate(so) if 0 <= ps[0] - o_ <= 24]
                if cands:
                    s_, f_ = cands[case.get("force_pick", 0) % len(cands)]
                    note = src.get_Note(s_, f_)
            text = ctx.ok("from_Note", TB.from_Note, note, width, t)
        else:
            text = ctx.ok("from_NoteContainer", TB.from_NoteContainer, NoteContainer([Note(p) for p in ps]), width, t)
        if failed(text):
            return
        sl = _lines_equal(ctx, text, kind)
        ents = _decode_track(ctx, sl, op, kind)
        if ents is not None:
            ctx.check(len(sl) == n, "tab/line-count", lambda: "%d lines for %d strings" % (len(sl), n))
            # a single entry: its fret numbers are centred in the bar, so all digit runs belong to it
            ents = [sorted(p for e in ents for p in e)]
            ctx.check(ents == [ps], "tab/decode", lambda: "%s %s width %d: wrote %r, read %r\n%s" % (t.instrument, kind, width, ps, ents, text))
        two_digit = any(re_two(l) for l in sl)
        ctx.note_case(two_digit or len(ps) > 1, ["tab:" + kind])
        return
    # bars / tracks / compositions
    tracks = case["tracks"] if kind == "comp" else [case["tracks"][0]]
    built, descs, ops = [], [], []
    shared_bar = [False]
    wished = [False]
    for k, tr in enumerate(tracks):
        tt = plain[(ti + 7 * k) % len(plain)] if kind == "comp" else t
        o = _open(tt)
        track = Track()
        track.set_tuning(plain[(ti + 11) % len(plain)] if (kind == "track" and case.get("other_own_tuning") and not case.get("use_track_tuning")) else tt)
        desc = []
        share = kind == "comp" and case.get("share_bar")
        for bi, bd in enumerate(tr):
            if share and k > 0 and bi == 0:
                # the very same Bar object also stands at the head of this track (played on another tuning), when every one of its
                # single notes can be played there
                first = descs[0][0]
                if all(ps is None or any(0 <= ps[0] - o_ <= 24 for o_ in o) for (_, ps) in first[1]):
                    track.add_bar(built[0].bars[0])
                    desc.append(first)
                    shared_bar[0] = True
                    continue
            b = Bar("C", (bd["meter"][0], bd["meter"][1]))
            es = []
            for e in bd["entries"]:
                ps = _entry_pitches(o, e["pos"]) if e["pos"] else None
                if share and k == 0 and bi == 0 and ps:
                    ps = ps[:1]
                objs = [Note(p) for p in ps] if ps else None
                if ps and e.get("wish"):
                    # one note of the entry asks for a position of its own (string / fret attributes that are valid on this
                    # tuning): honoured or not, the entry must still read back as exactly its pitches
                    wi, pick = e["wish"][0], e["wish"][1]
                    stale = len(e["wish"]) > 2 and e["wish"][2]
                    wp = ps[wi % len(ps)]
                    # the position is valid on this tuning - or (stale) was valid on another tuning and is left over on the note
                    src = plain[(ti + 5 + 7 * k) % len(plain)] if stale else tt
                    so = _open(src)
                    cands = [(s_, wp - o_) for s_, o_ in enumerate(so) if 0 <= wp - o_ <= 24]
                    if cands:
                        s_, f_ = cands[pick % len(cands)]
                        objs[wi % len(ps)] = src.get_Note(s_, f_)
                        wished[0] = True
                    if len(e["wish"]) > 3 and e["wish"][3]:
                        # every note of the entry carries a wish of its own (each one correct by itself; together they may
                        # collide on a string or span too many frets)
                        for idx, p_ in enumerate(ps):
                            cs = [(s_, p_ - o_) for s_, o_ in enumerate(o) if 0 <= p_ - o_ <= 24]
                            if cs:
                                s_, f_ = cs[(pick + idx * (1 + wi)) % len(cs)]
                                objs[idx] = tt.get_Note(s_, f_)
                if not b.place_notes(NoteContainer(objs) if ps else None, RV.number(e["v"])):
                    break
                es.append((e["v"], ps))
            if not es:
                b.place_notes(NoteContainer([Note(o[0])]), bd["meter"][1])
                es.append(([bd["meter"][1], 0, 1, 1], [o[0]]))
            track.add_bar(b)
            desc.append((bd["meter"], es))
        built.append(track)
        descs.append(desc)
        ops.append(o)
    if kind == "bar":
        text = ctx.ok("from_Bar", TB.from_Bar, built[0].bars[0], width, t)
        descs = [descs[0][:1]]
    elif kind == "track":
        text = ctx.ok("from_Track", TB.from_Track, built[0], width, None if case.get("use_track_tuning") else t)
    else:
        nb = min(len(d) for d in descs)
        for tr_, d in zip(built, descs):
            tr_.bars = tr_.bars[:nb]
            del d[nb:]
        comp = Composition()
        comp.set_title("T", "s")
        for tr_ in built:
            comp.add_track(tr_)
        text = ctx.ok("from_Composition", TB.from_Composition, comp, width)
    if failed(text):
        return
    if kind == "comp":
        per_track = [[] for _ in built]
        for (k, lines) in tabread.systems(text, [len(o) for o in ops]):
            per_track[k] += lines
    else:
        per_track = [tabread.string_lines(text)]
    ctx.check(all(per_track), "tab/no-string-lines", kind)
    wide = True
    for k, (lines, desc, o) in enumerate(zip(per_track, descs, ops)):
        ents = _decode_track(ctx, lines, o, "%s track %d" % (kind, k))
        exp = [ps for (_, es) in desc for (_, ps) in es if ps]
        wide = wide and _wide_enough(text, desc, o)
        if ents is not None and wide:
            ctx.check(ents == exp, "tab/decode", lambda: "%s on %s width %d track %d: wrote %r, read %r\n%s" % (
                kind, t.instrument, width, k, exp[:8], ents[:8], text[:1500]))
        two_digit = two_digit or any(re_two(l) for l in lines)
    nbars = sum(len(d) for d in descs)
    ctx.note_case(wide and (two_digit or nbars >= 2), ["tab:" + kind, "tab:decoded" if wide else "tab:too-narrow-for-decoding"] +
                  (["tab:one-bar-object-in-two-tracks"] if shared_bar[0] else []) + (["tab:entry-with-wished-position"] if wished[0] else []))


def re_two(line):
    import re
    return bool(re.search(r"\d\d", line[line.find("||") + 2:]))


def check_unplayable(ctx, case):
    ti, width, how = case
    plain = [t for t in _tunings() if not _has_courses(t)]
    t = plain[ti % len(plain)]
    op = _open(t)
    if how.startswith("span"):
        # two notes that can each be played, but not together: every assignment to two strings spans four frets or more.
        # "span-wished": both notes carry their own valid (string, fret) position on different strings
        pair = None
        for f_low in (1, 2, 3):
            for f_high in range(24, 6, -1):
                ps = [op[0] + f_low, op[-1] + f_high]
                if ps[0] < ps[1] <= 127 and not _brute(op, ps, 4):
                    pair = (f_low, f_high, ps)
                    break
            if pair:
                break
        if pair is None:
            return ctx.note_case(False, ["unplayable:skipped"])
        f_low, f_high, ps = pair
        notes = [t.get_Note(0, f_low), t.get_Note(len(op) - 1, f_high)] if how.endswith("wished") else [Note(ps[0]), Note(ps[1])]
        b = Bar("C", (4, 4))
        b.place_notes(NoteContainer([Note(op[0])]), 4)
        b.place_notes(NoteContainer(notes), 4)
        ctx.raises("tab/unplayable-entry", (FingerError, RangeError), TB.from_Bar, b, width, t)
        tr = Track()
        tr.add_bar(b)
        ctx.raises("tab/unplayable-entry", (FingerError, RangeError), TB.from_Track, tr, width, t)
        return ctx.note_case(True, ["unplayable:" + how])
    low, high = min(op) - 1, max(op) + 25
    p = low if how in ("low", "low-nc", "bar") else high
    if p < 0 or p > 127:
        ctx.note_case(False, ["unplayable:skipped"])
        return
    if how in ("low", "high"):
        ctx.raises("tab/unplayable-note", (RangeError,), TB.from_Note, Note(p), width, t)
    elif how in ("low-nc", "high-nc"):
        ctx.raises("tab/unplayable-container", (FingerError, RangeError), TB.from_NoteContainer, NoteContainer([Note(op[0] + 2), Note(p)]), width, t)
    else:
        b = Bar("C", (4, 4))
        b.place_notes(NoteContainer([Note(op[0])]), 4)
        b.place_notes(NoteContainer([Note(p)]), 4)
        ctx.raises("tab/unplayable-entry", (FingerError, RangeError), TB.from_Bar, b, width, t)
    ctx.note_case(True, ["unplayable:" + how])


CHECKS = {"frets": check_frets, "get_note": check_get_note, "lookup": check_lookup, "fingering": check_fingering,
          "chord_fingering": check_chord_fingering, "tab": check_tab, "unplayable": check_unplayable}


# ---- generators ----------------------------------------------------------------------------------------

def sub_frets(ctx, shard, n):
    nt = len(_tunings())
    mfs = (24, 12) if ctx.quick else (0, 5, 12, 24)
    cases = [[i, mf] for i in range(nt) for mf in mfs]
    if shard == 0:
        ctx.exhaustive("find_frets: tunings x notes 0..127 x maxfret", "%d tunings x 128 x %r" % (nt, list(mfs)), len(cases) * 128)
        ctx.exhaustive("get_Note: tunings x strings -2..n+1 x frets -2..26", "%d tunings" % nt, nt * 29 * 9)
    ctx.enumerate("frets", check_frets, cases[shard::n])
    ctx.enumerate("get_note", check_get_note, list(range(nt))[shard::n])


def sub_lookup(ctx, shard, n):
    allt = _tunings()
    seen = set()
    cases = []
    for t in allt:
        for k in range(0, len(t.instrument) + 1, 1 if not ctx.quick else 3):
            for cas in (str.upper, str.lower, lambda s: s):
                pre = cas(t.instrument[:k])
                for (ns, nc) in ((None, None), (len(t.tuning), None), (None, _courses(t)), (len(t.tuning), _courses(t)), (len(t.tuning) + 1, None), (None, 1.5)):
                    key = (pre, ns, nc)
                    if key in seen:
                        continue
                    seen.add(key)
                    cases.append([pre, cas(t.description[:(k * 2) % (len(t.description) + 1)]), ns, nc])
    cases += [["no such instrument", "", None, None], ["", "", None, None], ["Guitar", "Standard", 6, 1.0], ["gui", "drop", None, None]]
    if shard == 0:
        ctx.exhaustive("tuning lookups: instrument prefixes x casings x counts", "every%s prefix" % (" third" if ctx.quick else ""), len(cases))
    ctx.enumerate("lookup", check_lookup, cases[shard::n])


def _fingering_st():
    nt = len(_tunings())
    opens = [_open(t) for t in _tunings()]

    def mk(ti, picks, md):
        op = opens[ti]
        ps = [op[s % len(op)] + d for (s, d) in picks[:min(4, len(op))]]
        return [ti, [p for p in ps if 0 <= p <= 127], md]
    return st.builds(mk, st.integers(0, nt - 1),
                     st.lists(st.tuples(st.integers(0, 11), st.integers(-2, 14) | st.integers(0, 5) | st.integers(20, 27)), min_size=0, max_size=4),
                     st.integers(2, 5))


def sub_fingering(ctx, shard, n):
    ctx.given("fingering", check_fingering, _fingering_st(), 1000 if ctx.quick else 5000)


def check_chord_example(ctx, case):
    """the documented example: t = get_tuning('guitar', 'standard', 6, 1); t.find_chord_fingering(NoteContainer().from_chord('Am'))
    -> [[0, 0, 2, 2, 1, 0], [0, 3, 2, 2, 1, 0], ......]  (keeps the validity clauses from being satisfied by an empty answer)"""
    t = TU.get_tuning("guitar", "standard", 6, 1)
    r = ctx.ok("find_chord_fingering", t.find_chord_fingering, NoteContainer().from_chord("Am"))
    if not failed(r):
        ctx.check(isinstance(r, list) and [0, 0, 2, 2, 1, 0] in r and [0, 3, 2, 2, 1, 0] in r, "chord_fingering/documented-example",
                  lambda: "Am on the standard guitar: %r ..." % (r[:4],))
        ctx.check(isinstance(r, list) and r[:1] == [[0, 0, 2, 2, 1, 0]], "chord_fingering/documented-example", lambda: "first answer %r" % (r[:1],))
    ctx.note_case(True, ["chord_fingering:documented-example"])


CHECKS["chord_example"] = check_chord_example


def sub_chord_fingering(ctx, shard, n):
    if shard == 0:
        ctx.enumerate("chord_example", check_chord_example, [["Am"]])
    six = [i for i, t in enumerate(_tunings()) if len(t.tuning) == 6 and not _has_courses(t)]
    roots = [l + a for l in T.LETTERS for a in ("", "#", "b")]
    shs = ["", "m", "7", "m7", "M7", "dim", "sus4", "6", "aug", "9", "m6", "7b5", "dim7", "11", "sus2"]
    cases = [[ti, r + s, 4, 18, 4] for ti in six for r in roots for s in shs]
    if ctx.quick:
        cases = cases[::17]
    cases = cases[shard::n]
    if shard == 0:
        ctx.exhaustive("find_chord_fingering: six-string tunings x roots x shorthands", "%d tunings x 21 x %d%s" % (len(six), len(shs), " (every 17th)" if ctx.quick else ""),
                       len(six) * 21 * len(shs))
    ctx.enumerate("chord_fingering", check_chord_fingering, cases)
    strat = st.tuples(st.sampled_from(six), st.builds(lambda r, s: r + s, st.sampled_from(roots), st.sampled_from(shs)),
                      st.integers(2, 5), st.sampled_from([12, 18, 24]), st.integers(2, 4)).map(list)
    ctx.given("chord_fingering", check_chord_fingering, strat, 40 if ctx.quick else 400)


def _pos_st():
    pick = st.tuples(st.integers(0, 11), st.integers(0, 3), st.integers(0, 4).map(lambda k: k == 0)).map(list)
    return st.fixed_dictionaries({"base": st.integers(1, 9) | st.integers(1, 21), "picks": st.lists(pick, min_size=1, max_size=4)})


def _tab_st():
    vals = st.sampled_from([[1, 0, 1, 1], [2, 0, 1, 1], [4, 0, 1, 1], [4, 0, 1, 1], [8, 0, 1, 1], [2, 1, 1, 1], [4, 1, 1, 1], [16, 0, 1, 1]])
    entry = st.fixed_dictionaries({"v": vals, "pos": st.none() | _pos_st() | _pos_st()},
                                  optional={"wish": st.tuples(st.integers(0, 3), st.integers(0, 5), st.booleans(), st.booleans()).map(list)})
    bar = st.fixed_dictionaries({"meter": st.sampled_from([[4, 4], [3, 4], [2, 4], [6, 8], [2, 2], [5, 4]]), "entries": st.lists(entry, min_size=1, max_size=8)})
    track = st.lists(bar, min_size=1, max_size=5)
    width = st.sampled_from([40, 60, 61, 80, 100, 120, 121, 160]) | st.integers(40, 160)
    small = st.fixed_dictionaries({"kind": st.sampled_from(["note", "nc"]), "tuning": st.integers(0, 100), "width": st.integers(20, 160), "pos": _pos_st(),
                                   "force": st.sampled_from([None, "same", "other", "other"]), "force_pick": st.integers(0, 5)})
    big = st.fixed_dictionaries({"kind": st.sampled_from(["bar", "track", "track", "comp"]), "tuning": st.integers(0, 100), "width": width,
                                 "tracks": st.lists(track, min_size=1, max_size=3), "use_track_tuning": st.booleans(),
                                 "other_own_tuning": st.booleans(), "share_bar": st.booleans()})
    return st.one_of(small, big, big)


def sub_tabs(ctx, shard, n):
    ctx.given("tab", check_tab, _tab_st(), 600 if ctx.quick else 3000)


def sub_unplayable(ctx, shard, n):
    cases = [[ti, w, how] for ti in range(0, 48, 1 if not ctx.quick else 5) for w in (40, 80) for how in ("low", "high", "low-nc", "high-nc", "bar", "span", "span-wished")]
    ctx.exhaustive("unplayable notes / containers / bar entries", "non-course tunings x 2 widths x 7 forms", len(cases))
    ctx.enumerate("unplayable", check_unplayable, cases)


SUBS = [
    Sub("frets", sub_frets, quick=4, thorough=8),
    Sub("lookup", sub_lookup, quick=2, thorough=8),
    Sub("fingering", sub_fingering, quick=3, thorough=16),
    Sub("chord_fingering", sub_chord_fingering, quick=3, thorough=16),
    Sub("tabs", sub_tabs, quick=4, thorough=16),
    Sub("unplayable", sub_unplayable),
]
