"""C19 - LilyPond and MusicXML exports decode back to the same music (extra/lilypond.py, extra/musicxml.py)."""
import xml.etree.ElementTree as ET
from fractions import Fraction as Fr

from hypothesis import strategies as st

from mingus.containers import Note
from mingus.extra import lilypond as LY
from mingus.extra import musicxml as MX

from vlib import mg
from vlib.core import Sub, failed
from vlib.ref import lyread
from vlib.ref import rvalues as RV
from vlib.ref import scoregen as SG
from vlib.ref import theory as T

PROPERTY_ID = "C19"
RULE = ("R-score notes, containers (+duration), bars, tracks and compositions: 35 names up to double accidentals, octaves 0-8, all 30 "
        "keys, meters incl. 2/1, 4/1, 8/1 for longa and breve, the value vocabulary with 0-4 dots and complete triplet / quintuplet / "
        "septuplet groups on every base, chords of 1-5 notes, rests (None and empty containers), empty bars (MusicXML), titles / "
        "authors / subtitles / track and instrument names from printable Unicode incl. & < > \" ' (MusicXML) or without \" and \\ "
        "(LilyPond). LilyPond text is decoded by an own reader of the emitted subset, MusicXML by xml.etree, and compared entry by "
        "entry with the description. Non-trivial: a score with a dotted or tuplet value or a chord, a key/meter change between bars, "
        "or metadata containing a markup character."
        ' Also: enharmonic twin and repeated bars, tracks sharing one instrument object, and a second export of the same objects must give the same text and leave the music unchanged; chords that are not in ascending order (after item assignment), entries held in a user subclass of NoteContainer, MIDI instruments of a user subclass. A third of the generated compositions carry an e-mail address; all combinations of set / empty title, subtitle, author and e-mail. Tracks of one-entry bars in every meter for both exporters.')
ASSUMPTIONS = ["LilyPond: a \\times 1/1 group is the identity; whitespace is not compared; header strings contain no \" or \\",
               "MusicXML: part ids only need to be unique and consistent; encoding date, clef and time-modification are not compared; "
               "an empty title/author may be omitted", "the unbounded (0,0) meter is not exported"]

MARKUP = "&<>\"'"


# ---- LilyPond ----------------------------------------------------------------------------------------

def _ly_name(n):
    return n[0] + n[1:]


def _entry_matches(ctx, got, e, where):
    """got = ('e', [(name, octave, marks)], base, dots, ratio)"""
    exp_p = [(n[0], n[1]) for n in (e["notes"] or [])]
    ctx.check([(p[0], p[1]) for p in got[1]] == exp_p, "lilypond/pitches", lambda: "%s: read %r, wrote %r" % (where, got[1], exp_p))
    base, dots, p, q = e["v"]
    ctx.check(got[2] is not None and Fr(got[2]) == Fr(base), "lilypond/base-value", lambda: "%s: read %r, wrote %r" % (where, got[2], base))
    ctx.check(got[3] == dots, "lilypond/dots", lambda: "%s: read %d dots, wrote %d" % (where, got[3], dots))
    ctx.check(Fr(got[4][0], got[4][1]) == Fr(p, q), "lilypond/tuplet-ratio", lambda: "%s: read %r, wrote %d:%d" % (where, got[4], p, q))


def _flat(items):
    return [x for x in items if isinstance(x, tuple)]


def _decode_bar(ctx, group, bd, state, where):
    """group = items of one bar; updates decoder state; compares entries"""
    if not ctx.check(isinstance(group, list) and all(isinstance(x, tuple) for x in group), "lilypond/bar-structure", lambda: "%s: %r" % (where, group)):
        return
    seen_entry = False
    for it in group:
        if it[0] == "time":
            ctx.check(not seen_entry, "lilypond/time-after-notes", where)
            state["time"] = (it[1], it[2])
        elif it[0] == "key":
            ctx.check(not seen_entry, "lilypond/key-after-notes", where)
            state["key"] = (it[1], it[2])
        else:
            seen_entry = True
    ents = [x for x in group if x[0] == "e"]
    if ctx.check(len(ents) == len(bd["entries"]), "lilypond/entry-count", lambda: "%s: read %d entries, wrote %d" % (where, len(ents), len(bd["entries"]))):
        for k, (g, e) in enumerate(zip(ents, bd["entries"])):
            _entry_matches(ctx, g, e, "%s entry %d" % (where, k))


def _expect_state(ctx, state, bd, where):
    exp_key = (T.key_tonic(bd["key"]), "minor" if T.key_is_minor(bd["key"]) else "major")
    ctx.check(state["key"] == exp_key, "lilypond/key", lambda: "%s: decoder is in %r, bar is in %r" % (where, state["key"], exp_key))
    ctx.check(state["time"] == tuple(bd["meter"]), "lilypond/time", lambda: "%s: decoder has %r, bar has %r" % (where, state["time"], bd["meter"]))


def _parse(ctx, text, what):
    if not ctx.check(isinstance(text, str), "lilypond/not-a-string", lambda: "%s returned %r" % (what, text)):
        return None
    try:
        return lyread.read(text)
    except lyread.LyError as e:
        ctx.fail("lilypond/unreadable", "%s: %s in %r" % (what, e, text[:200]))
        return None


def _track_tree(ctx, tree, td, where):
    """tree = [ [bar items], [bar items], ... ]"""
    bars = [x for x in tree if isinstance(x, list)]
    ctx.check(len(bars) == len(tree), "lilypond/track-structure", lambda: "%s: loose items %r" % (where, [x for x in tree if not isinstance(x, list)]))
    if not ctx.check(len(bars) == len(td["bars"]), "lilypond/bar-count", lambda: "%s: read %d bars, wrote %d" % (where, len(bars), len(td["bars"]))):
        return
    state = {"key": ("C", "major"), "time": (4, 4)}
    for i, (g, bd) in enumerate(zip(bars, td["bars"])):
        _decode_bar(ctx, g, bd, state, "%s bar %d" % (where, i))
        _expect_state(ctx, state, bd, "%s bar %d" % (where, i))


def _music(comp):
    return [[[[e[0], e[1], mg.nc_snapshot(e[2])] for e in b.bar] + [b.key.key, list(b.meter)] for b in t.bars] for t in comp.tracks]


def check_ly_comp(ctx, cd):
    comp = mg.build_comp(cd)
    before = _music(comp)
    text = ctx.ok("from_Composition", LY.from_Composition, comp)
    if failed(text):
        return
    again = ctx.ok("from_Composition", LY.from_Composition, comp)
    ctx.check(failed(again) or again == text, "lilypond/second-export-differs", "")
    ctx.check(_music(comp) == before, "lilypond/export-changed-the-music", "")
    r = _parse(ctx, text, "from_Composition")
    if r is not None:
        h = r["header"]
        if ctx.check(h is not None, "lilypond/header-missing", text[:120]):
            ctx.check(h.get("title") == cd["title"], "lilypond/header-title", lambda: "%r vs %r" % (h.get("title"), cd["title"]))
            ctx.check(h.get("composer") == cd["author"], "lilypond/header-composer", lambda: "%r vs %r" % (h.get("composer"), cd["author"]))
            ctx.check(h.get("opus") == cd["subtitle"], "lilypond/header-opus", lambda: "%r vs %r" % (h.get("opus"), cd["subtitle"]))
        tracks = r["music"]
        if ctx.check(len(tracks) == len(cd["tracks"]) and all(isinstance(t, list) for t in tracks), "lilypond/track-count",
                     lambda: "read %d top-level groups, wrote %d tracks" % (len(tracks), len(cd["tracks"]))):
            for i, (tree, td) in enumerate(zip(tracks, cd["tracks"])):
                _track_tree(ctx, tree, td, "track %d" % i)
    _note(ctx, cd, "ly-comp")


def check_ly_track(ctx, td):
    text = ctx.ok("from_Track", LY.from_Track, mg.build_track(td))
    if failed(text):
        return
    r = _parse(ctx, text, "from_Track")
    if r is not None:
        if ctx.check(len(r["music"]) == 1 and isinstance(r["music"][0], list), "lilypond/track-structure", text[:120]):
            _track_tree(ctx, r["music"][0], td, "track")
    _note(ctx, td, "ly-track")


def check_ly_bar(ctx, case):
    bd, showkey, showtime = case["bar"], case["showkey"], case["showtime"]
    text = ctx.ok("from_Bar", LY.from_Bar, mg.build_bar(bd), showkey, showtime)
    if failed(text):
        return
    r = _parse(ctx, text, "from_Bar")
    if r is not None and ctx.check(len(r["music"]) == 1 and isinstance(r["music"][0], list), "lilypond/bar-structure", text[:120]):
        g = r["music"][0]
        state = {"key": None, "time": None}
        _decode_bar(ctx, g, bd, state, "bar")
        exp_key = (T.key_tonic(bd["key"]), "minor" if T.key_is_minor(bd["key"]) else "major") if showkey else None
        exp_time = tuple(bd["meter"]) if showtime else None
        ctx.check(state["key"] == exp_key, "lilypond/showkey", lambda: "showkey=%r: read %r" % (showkey, state["key"]))
        ctx.check(state["time"] == exp_time, "lilypond/showtime", lambda: "showtime=%r: read %r" % (showtime, state["time"]))
    _note(ctx, {"name": None, "instr": None, "bars": [bd]}, "ly-bar")


def check_ly_nc(ctx, case):
    notes, v, standalone = case["notes"], case["v"], case["standalone"]
    nc = mg.build_nc(notes)
    if v is None:
        text = ctx.ok("from_NoteContainer", LY.from_NoteContainer, nc, None, standalone)
    else:
        text = ctx.ok("from_NoteContainer", LY.from_NoteContainer, nc, RV.number(v), standalone)
    if failed(text):
        return
    r = _parse(ctx, text, "from_NoteContainer")
    if r is not None:
        items = r["music"]
        if standalone:
            ok = len(items) == 1 and isinstance(items[0], list)
            items = items[0] if ok else []
            ctx.check(ok, "lilypond/standalone-braces", text)
        ents = [x for x in items if isinstance(x, tuple) and x[0] == "e"]
        if ctx.check(len(ents) == 1 and len(items) == 1, "lilypond/container-structure", text):
            g = ents[0]
            exp_p = [(n[0], n[1]) for n in (notes or [])]
            ctx.check([(p[0], p[1]) for p in g[1]] == exp_p, "lilypond/pitches", lambda: "read %r, wrote %r" % (g[1], exp_p))
            if v is None:
                ctx.check(g[2] is None and g[3] == 0, "lilypond/duration-invented", text)
            else:
                # outside a bar the tuplet ratio cannot be written: base value and dots only
                ctx.check(g[2] is not None and Fr(g[2]) == Fr(v[0]) and g[3] == v[1], "lilypond/base-value", lambda: "read %r dots %r, wrote %r" % (g[2], g[3], v))
    ctx.note_case(bool(notes) and (len(notes) > 1 or (v is not None and v[1] > 0)), ["ly-nc:%d" % len(notes or [])])


def check_ly_note(ctx, case):
    n, process_octaves, standalone = case["note"], case["process_octaves"], case["standalone"]
    text = ctx.ok("from_Note", LY.from_Note, Note(n[0], n[1]), process_octaves, standalone)
    if failed(text):
        return
    r = _parse(ctx, text, "from_Note")
    if r is not None:
        items = r["music"]
        if standalone:
            ok = len(items) == 1 and isinstance(items[0], list)
            items = items[0] if ok else []
            ctx.check(ok, "lilypond/standalone-braces", text)
        if ctx.check(len(items) == 1 and isinstance(items[0], tuple) and items[0][0] == "e" and len(items[0][1]) == 1, "lilypond/note-structure", text):
            p = items[0][1][0]
            ctx.check(p[0] == n[0], "lilypond/pitches", lambda: "read %r, wrote %r" % (p, n))
            if process_octaves:
                ctx.check(p[1] == n[1], "lilypond/octave", lambda: "read octave %r, wrote %r" % (p[1], n[1]))
            else:
                ctx.check(p[2] == 0, "lilypond/octave-marks-without-process_octaves", text)
    ctx.note_case(len(n[0]) > 1 or n[1] != 4, ["ly-note"])


def _note(ctx, x, tag):
    f = SG.features(x)
    text = " ".join(str(x.get(k, "")) for k in ("title", "author", "subtitle")) if "tracks" in x else ""
    if "tracks" in x:
        text += " ".join((t["name"] or "") + ((t["instr"] or {}).get("name", "")) for t in x["tracks"])
    if any(c in text for c in MARKUP):
        f.add("markup-in-metadata")
    nt = f & {"dotted", "tuplet", "chord", "key-or-meter-change", "markup-in-metadata"}
    ctx.note_case(bool(nt), ["%s:%s" % (tag, y) for y in sorted(f)])


# ---- MusicXML ----------------------------------------------------------------------------------------

def _mx_comp(ctx, text, cd, what):
    if not ctx.check(isinstance(text, str), "musicxml/not-a-string", what):
        return
    try:
        root = ET.fromstring(text)
    except ET.ParseError as e:
        ctx.fail("musicxml/not-well-formed", "%s: %s" % (what, e))
        return
    if cd.get("title"):
        ctx.check(root.findtext("movement-title") == cd["title"], "musicxml/title", lambda: "%r vs %r" % (root.findtext("movement-title"), cd["title"]))
    if cd.get("author"):
        ctx.check(root.findtext("identification/creator") == cd["author"], "musicxml/author",
                  lambda: "%r vs %r" % (root.findtext("identification/creator"), cd["author"]))
    sp = root.findall("part-list/score-part")
    parts = root.findall("part")
    ids = [x.get("id") for x in sp]
    ctx.check(len(parts) == len(cd["tracks"]), "musicxml/part-count", lambda: "%d parts for %d tracks" % (len(parts), len(cd["tracks"])))
    ctx.check(ids == [p.get("id") for p in parts] and len(set(ids)) == len(ids) and None not in ids, "musicxml/part-ids",
              lambda: "part-list %r, parts %r" % (ids, [p.get("id") for p in parts]))
    for i, (td, spx, part) in enumerate(zip(cd["tracks"], sp, parts)):
        where = "part %d" % i
        name = td["name"] if td.get("name") is not None else "Untitled"
        ctx.check(spx.findtext("part-name") == name, "musicxml/part-name", lambda: "%s: %r vs %r" % (where, spx.findtext("part-name"), name))
        if td.get("instr"):
            ctx.check(spx.findtext("score-instrument/instrument-name") == td["instr"]["name"], "musicxml/instrument-name",
                      lambda: "%s: %r vs %r" % (where, spx.findtext("score-instrument/instrument-name"), td["instr"]["name"]))
        ms = part.findall("measure")
        ctx.check([m.get("number") for m in ms] == [str(k + 1) for k in range(len(td["bars"]))], "musicxml/measure-numbers",
                  lambda: "%s: %r for %d bars" % (where, [m.get("number") for m in ms], len(td["bars"])))
        for j, (bd, m) in enumerate(zip(td["bars"], ms)):
            _mx_measure(ctx, m, bd, "%s measure %d" % (where, j + 1))


def _mx_measure(ctx, m, bd, where):
    a = m.find("attributes")
    if not ctx.check(a is not None, "musicxml/attributes-missing", where):
        return
    try:
        div = Fr(a.findtext("divisions").strip())
        beats = int(a.findtext("time/beats"))
        btype = int(a.findtext("time/beat-type"))
        fifths = int(a.findtext("key/fifths"))
        mode = a.findtext("key/mode").strip()
    except Exception as e:  # noqa - malformed numbers are the exporter's fault
        ctx.fail("musicxml/attributes-malformed", "%s: %r" % (where, e))
        return
    ctx.check((beats, btype) == tuple(bd["meter"]), "musicxml/time", lambda: "%s: %r vs %r" % (where, (beats, btype), bd["meter"]))
    ctx.check(fifths == T.KEY_SIG[bd["key"]], "musicxml/key-fifths", lambda: "%s: %r for key %s" % (where, fifths, bd["key"]))
    ctx.check(mode == ("minor" if T.key_is_minor(bd["key"]) else "major"), "musicxml/key-mode", lambda: "%s: %r for key %s" % (where, mode, bd["key"]))
    if not ctx.check(div > 0, "musicxml/divisions", lambda: "%s: divisions %s" % (where, div)):
        return
    exp = []
    for e in bd["entries"]:
        ql = RV.vlen(e["v"]) * 4
        if not e["notes"]:
            exp.append((None, False, e["v"][1], ql))
        for k, n in enumerate(e["notes"] or []):
            exp.append(((n[0][0], T.acc(n[0]), n[1]), k > 0, e["v"][1], ql))
    got = []
    for n in m.findall("note"):
        try:
            if n.find("rest") is not None:
                p = None
            else:
                p = (n.findtext("pitch/step").strip(), int(n.findtext("pitch/alter") or 0), int(n.findtext("pitch/octave")))
            got.append((p, n.find("chord") is not None, len(n.findall("dot")), Fr(n.findtext("duration").strip()) / div))
        except Exception as e:  # noqa
            ctx.fail("musicxml/note-malformed", "%s: %r" % (where, e))
            return
    if not ctx.check(len(got) == len(exp), "musicxml/note-count", lambda: "%s: %d note elements for %d notes/rests" % (where, len(got), len(exp))):
        return
    for k, (g, e) in enumerate(zip(got, exp)):
        ctx.check(g[0] == e[0], "musicxml/pitch", lambda: "%s note %d: read %r, wrote %r" % (where, k, g[0], e[0]))
        ctx.check(g[1] == e[1], "musicxml/chord-mark", lambda: "%s note %d: <chord/> %r, expected %r" % (where, k, g[1], e[1]))
        ctx.check(g[2] == e[2], "musicxml/dots", lambda: "%s note %d: %d dots, wrote %d" % (where, k, g[2], e[2]))
        ctx.check(g[3] == e[3], "musicxml/duration", lambda: "%s note %d: duration/divisions = %s quarter notes, entry lasts %s" % (where, k, g[3], e[3]))


def check_mx_comp(ctx, cd):
    comp = mg.build_comp(cd)
    before = _music(comp)
    text = ctx.ok("from_Composition", MX.from_Composition, comp)
    if not failed(text):
        _mx_comp(ctx, text, cd, "from_Composition")
        again = ctx.ok("from_Composition", MX.from_Composition, comp)
        ctx.check(failed(again) or again == text, "musicxml/second-export-differs", "")
        ctx.check(_music(comp) == before, "musicxml/export-changed-the-music", "")
    _note(ctx, cd, "mx-comp")


def check_mx_track(ctx, td):
    text = ctx.ok("from_Track", MX.from_Track, mg.build_track(td))
    if not failed(text):
        _mx_comp(ctx, text, {"tracks": [td]}, "from_Track")
    _note(ctx, td, "mx-track")


def check_mx_bar(ctx, bd):
    text = ctx.ok("from_Bar", MX.from_Bar, mg.build_bar(bd))
    if not failed(text):
        _mx_comp(ctx, text, {"tracks": [{"name": None, "instr": None, "bars": [bd]}]}, "from_Bar")
    _note(ctx, {"name": None, "instr": None, "bars": [bd]}, "mx-bar")


CHECKS = {"ly_comp": check_ly_comp, "ly_track": check_ly_track, "ly_bar": check_ly_bar, "ly_nc": check_ly_nc, "ly_note": check_ly_note,
          "mx_comp": check_mx_comp, "mx_track": check_mx_track, "mx_bar": check_mx_bar}

ALLB = (0.25, 0.5, 1, 2, 4, 8, 16, 32, 64, 128)
METERS = SG.COMMON_METERS + [[2, 1], [4, 1], [8, 1], [3, 2], [12, 16]]
LY_TEXT = st.text(alphabet=st.characters(min_codepoint=32, max_codepoint=0x2FF, blacklist_characters='"\\', blacklist_categories=("Cc",)),
                  max_size=12)
_EDGE = ["", "", "&", "<", ">", '"', "'", "&amp;", "&lt;b&gt;", "<!--", "]]>", "<b>", "a&b"]
_MID = st.text(alphabet=st.one_of(st.sampled_from(list(MARKUP + " abcXYZ09")),
                                  st.characters(min_codepoint=33, max_codepoint=0x24F, blacklist_categories=("Cc",))), max_size=8)
MX_TEXT = st.builds(lambda a, m, z: (a + m + z) or "x", st.sampled_from(_EDGE + [" ", "  ", " x"]), _MID, st.sampled_from(_EDGE + [" ", "  ", "x "]))


def _cfg(text, **kw):
    base = dict(groups=SG.plain_groups(bases=ALLB, max_dots=4, tuplet_bases=ALLB), meters=METERS, octaves=list(range(0, 9)), max_pitch=200,
                min_pitch=-20, max_bars=3, max_groups=6, max_tracks=3, text=text, partial_last=True, rest_p=4, empty_containers=True,
                instruments=["none", "generic", "midi"], twin_p=4, share_instruments=True, subclass_p=8, unsorted_p=5, twin_entry_p=4, reuse_p=5, equal_pitch_p=6, same_bar_p=4)
    base.update(kw)
    return SG.Cfg(**base)


def sub_ly(ctx, shard, n):
    cfg = _cfg(LY_TEXT)
    ctx.given("ly_comp", check_ly_comp, SG.comp_st(cfg), 60 if ctx.quick else 1000)
    ctx.given("ly_track", check_ly_track, SG.track_st(cfg), 100 if ctx.quick else 1500)


def sub_ly_small(ctx, shard, n):
    cfg = _cfg(LY_TEXT, meters=METERS + [[1, 1], [6, 4]])
    bar = st.fixed_dictionaries({"bar": SG.bar_st(cfg) | SG.bar_st(cfg, fill=False), "showkey": st.booleans(), "showtime": st.booleans()})
    ctx.given("ly_bar", check_ly_bar, bar, 150 if ctx.quick else 2000)
    notes = st.none() | st.just([]) | st.lists(SG.note_st(cfg), min_size=1, max_size=5, unique_by=lambda x: T.pitch(x[0], x[1])).map(
        lambda ns: sorted(ns, key=lambda x: T.pitch(x[0], x[1])))
    nc = st.fixed_dictionaries({"notes": notes, "v": st.none() | st.sampled_from(RV.VOCAB), "standalone": st.booleans()})
    ctx.given("ly_nc", check_ly_nc, nc, 200 if ctx.quick else 3000)
    if shard == 0:
        cases = [{"note": [nm, o], "process_octaves": po, "standalone": sa} for nm in T.unmixed_names(2) for o in range(0, 9)
                 for po in (True, False) for sa in (True, False)]
        ctx.exhaustive("lilypond.from_Note", "35 names x octaves 0..8 x process_octaves x standalone", len(cases))
        ctx.enumerate("ly_note", check_ly_note, cases)


def sub_ly_values(ctx, shard, n):
    """systematic: every vocabulary value in a bar of its own, every key, in a track (key/meter shown only on change)"""
    cases = []
    for i, v in enumerate(RV.VOCAB):
        ln = RV.vlen(v)
        m = [16, 1] if 2 * ln > 8 else ([8, 1] if 2 * ln > 4 else ([4, 1] if 2 * ln > 1 else [4, 4]))
        key = T.ALL_KEYS[i % 30]
        b1 = {"key": key, "meter": m, "entries": [{"v": v, "notes": [["C", 4, 1, 64], ["Ebb", 5, 1, 64]]}, {"v": v, "notes": None}]}
        b2 = {"key": T.ALL_KEYS[(i + 7) % 30], "meter": m, "entries": [{"v": [4, 0, 1, 1], "notes": [["F##", 2, 1, 64]]}, {"v": v, "notes": [["B", 0, 1, 64]]}]}
        cases.append({"name": None, "instr": None, "bars": [b1, b1, b2]})
    ctx.exhaustive("every vocabulary value through from_Track (LilyPond and MusicXML)", "80 values", len(cases))
    ctx.enumerate("ly_track", check_ly_track, cases)
    ctx.enumerate("mx_track", check_mx_track, cases)
    # bars holding one entry (a rest, an empty container or a note of value 1, 2, 4 or the beat unit) in every meter
    lone = SG.lone_entry_tracks([m for m in SG.ALL_METERS if m[0] in (1, 2, 3, 5, 6, 12)] if ctx.quick else None)
    ctx.enumerate("ly_track", check_ly_track, lone)
    ctx.enumerate("mx_track", check_mx_track, lone)


def sub_mx(ctx, shard, n):
    cfg = _cfg(MX_TEXT, fill=True)
    ctx.given("mx_comp", check_mx_comp, SG.comp_st(cfg), 80 if ctx.quick else 1200)
    ctx.given("mx_track", check_mx_track, SG.track_st(cfg), 80 if ctx.quick else 1200)
    cfgb = _cfg(MX_TEXT)
    ctx.given("mx_bar", check_mx_bar, SG.bar_st(cfgb) | SG.bar_st(cfgb, fill=False), 100 if ctx.quick else 1500)
    if shard == 0:
        ctx.enumerate("mx_bar", check_mx_bar, [{"key": k, "meter": [3, 4], "entries": []} for k in ("C", "eb", "F#")])
        # bars mixing tuplet kinds with many-dotted short values: the common unit of all lengths (the measure's divisions) gets large
        c4 = [["C", 4, 1, 64]]
        mixes = []
        for extra in ([[128, 4, 1, 1]], [[128, 3, 1, 1]], [[64, 4, 1, 1]], [[128, 4, 1, 1], [64, 3, 1, 1]], [[32, 4, 1, 1], [128, 2, 1, 1]]):
            for tup in ([[64, 0, 5, 4], [64, 0, 7, 4]], [[128, 0, 5, 4], [128, 0, 7, 4], [128, 0, 3, 2]], [[32, 0, 3, 2], [64, 0, 5, 4], [16, 0, 7, 4]]):
                ents = [{"v": v, "notes": [list(c4[0])]} for v in tup for _ in range(v[2])] + [{"v": v, "notes": None if i % 2 else [["E", 4, 2, 70]]} for i, v in enumerate(extra)]
                mixes.append({"key": "G", "meter": [4, 4], "entries": ents + [{"v": [4, 1, 1, 1], "notes": [["G", 3, 1, 64], ["B", 3, 1, 64]]}]})
        ctx.exhaustive("MusicXML bars mixing tuplet kinds with 2-4 dotted short values", "5 x 3", len(mixes))
        ctx.enumerate("mx_bar", check_mx_bar, mixes)
        # every combination of set / empty title, subtitle, author and e-mail address (set_title and set_author take two each)
        one = {"name": "Lead & <Rhythm>", "instr": None, "bars": [{"key": "C", "meter": [4, 4], "entries": [{"v": [1, 0, 1, 1], "notes": [["C", 4, 1, 64]]}]}]}
        meta = [{"title": t, "subtitle": s_, "author": a, "email": e, "tracks": [one]}
                for t in ("", "A <Title> & more") for s_ in ("", "Sub 'title'") for a in ("", "J. S. \"Bach\"", "Me") for e in ("", "me@example.org", "<a&b>")]
        ctx.enumerate("mx_comp", check_mx_comp, meta)
        ctx.enumerate("ly_comp", check_ly_comp, [m for m in meta if not any(c in m["title"] + m["subtitle"] + m["author"] for c in '"\\')])


SUBS = [
    Sub("ly", sub_ly, quick=4, thorough=16),
    Sub("ly_small", sub_ly_small, quick=2, thorough=8),
    Sub("values", sub_ly_values),
    Sub("mx", sub_mx, quick=4, thorough=16),
]
