"""C05 - scales realise their defining step pattern; scale recognition is exact (mingus/core/scales.py)."""
from collections import Counter

from hypothesis import strategies as st

from mingus.core import scales
from mingus.core.mt_exceptions import FormatError, NoteFormatError, RangeError

from vlib.core import Sub, failed
from vlib.ref import scales as R
from vlib.ref import theory as T

PROPERTY_ID = "C05"
RULE = ("scale instances = 17 classes + Diatonic with all 21 semitone-position pairs x every tonic valid for the class "
        "(modes/whole tone/octatonic/Diatonic: 35 names up to double accidentals, thorough 49 up to triple; major family: "
        "15 major tonics; minor family: 15 minor tonics; chromatic: all 30 keys) x octaves 1..3 (thorough 1..5), enumerated; "
        "each instance is checked on its ascending and descending lists, every degree 1..steps*octaves in both directions, "
        "len and ==/!= ; error inputs (lower-case tonic, degree < 1, unknown direction) enumerated; pairs of instances "
        "for equality; recognition inputs = every full ascending/descending set of the 105 major/minor-family scales "
        "(enumerated) + Hypothesis note lists (subsets of size 1-7 of a scale's set, the same plus one foreign note, "
        "random lists of the 35 names) against a brute-force subset specification. Non-trivial: instance whose tonic "
        "has an accidental or with more than one octave (every instance includes direction 'd'); recognition input with "
        ">= 3 notes whose non-empty expected answer differs from the answer for its first two notes."
        ' Also: parallel-key chromatic pairs and every pair of instances that print the same name or share tonic and octave count (equality clause); recognition questions of 8-30 entries with repeats (melodies, scales played up and down).')
ASSUMPTIONS = [
    "chromatic scale: descending form compared with the reversed ascending form by pitch class only (its documented "
    "spelling descends in flats)",
    "spelling beyond letter + pitch class (number/sign of accidentals) is not compared; non-heptatonic scales are "
    "compared by pitch class only",
    "degree n is looked up for 1 <= n <= steps*octaves (the closing tonic is degree 1 of the next octave)",
    "the harness never subclasses _Scale (recognition iterates its subclasses)",
    "oracle: own pattern tables in vlib/ref/scales.py, own arithmetic in vlib/ref/theory.py",
]


def _make(ctx, desc, sig="construct"):
    cls, tonic, octs = desc[0], desc[1], desc[2]
    C = getattr(scales, cls)
    if cls == "Diatonic":
        return ctx.ok(sig, C, tonic, tuple(desc[3]), octs)
    return ctx.ok(sig, C, tonic, octs)


def _names_ok(seq):
    return all(T.valid(x) for x in seq)


def _steps(seq):
    return [(T.pc(seq[i + 1]) - T.pc(seq[i])) % 12 for i in range(len(seq) - 1)]


def _letters_ok(seq, tonic):
    return all(x[0] == T.letter_up(tonic[0], i) for i, x in enumerate(seq))


def check_instance(ctx, case):
    cls, arg, octs = case[0], case[1], case[2]
    pat = R.pattern(cls, case[3] if len(case) > 3 else None)
    tonic = R.expected_tonic(cls, arg)
    n = len(pat) * octs
    hept = R.is_heptatonic(pat)
    labels = ["scale:" + cls, "octaves:%d" % octs]
    # the same kind of scale on the same tonic over other numbers of octaves is asked first (degrees, lists): this instance's
    # answers must not depend on it
    for other in (max(1, octs - 1), 1, octs + 1, 3):
        if other != octs:
            try:
                o = getattr(scales, cls)(*([arg, tuple(case[3]), other] if cls == "Diatonic" else [arg, other]))
                o.degree(2), o.degree(2, "d"), o.degree(len(pat) * other), o.ascending(), o.descending()
            except Exception:  # noqa - judged in that instance's own case
                pass
    s = _make(ctx, case)
    if failed(s):
        return ctx.note_case(False, labels)
    a = ctx.ok("ascending", s.ascending)
    d = ctx.ok("descending", s.descending)
    a_ok = d_ok = False
    if not failed(a):
        a = list(a)
        info = lambda: "%s(%r, octaves=%d).ascending() -> %r" % (cls, arg, octs, a)
        a_ok = ctx.check(len(a) == n + 1 and _names_ok(a), "ascending/length", info)
        if a_ok:
            ctx.check(a[0] == tonic and a[-1] == tonic, "ascending/tonic", info)
            ctx.check(_steps(a) == pat * octs, "ascending/pattern",
                      lambda: "%s steps %r, expected %r x %d" % (info(), _steps(a), pat, octs))
            if hept:
                ctx.check(_letters_ok(a, tonic), "ascending/letters", info)
    if not failed(d):
        d = list(d)
        info_d = lambda: "%s(%r, octaves=%d).descending() -> %r (ascending %r)" % (cls, arg, octs, d, a)
        d_ok = ctx.check(len(d) == n + 1 and _names_ok(d), "descending/length", info_d)
        if d_ok:
            ctx.check(d[0] == tonic and d[-1] == tonic, "descending/tonic", info_d)
            if cls in R.DESCENDING_PATTERNS:
                up = d[::-1]
                dp = R.DESCENDING_PATTERNS[cls]
                ctx.check(_steps(up) == dp * octs and _letters_ok(up, tonic), "descending/pattern",
                          lambda: "%s read upwards has steps %r, expected %r x %d" % (info_d(), _steps(up), dp, octs))
            elif cls == "Chromatic":
                if a_ok:
                    ctx.check([T.pc(x) for x in d] == [T.pc(x) for x in a[::-1]], "descending/reverse-pc", info_d)
            elif a_ok:
                ctx.check(d == a[::-1], "descending/reverse", info_d)
    # degree lookup agrees with both lists
    for k in range(1, n + 1):
        if a_ok:
            r = ctx.ok("degree/ascending", s.degree, k, "a")
            if not failed(r):
                ctx.check(r == a[k - 1], "degree/ascending",
                          lambda: "%s(%r,%d).degree(%d,'a') -> %r, ascending %r" % (cls, arg, octs, k, r, a))
            if k in (1, n):
                r = ctx.ok("degree/default-direction", s.degree, k)
                if not failed(r):
                    ctx.check(r == a[k - 1], "degree/default-direction",
                              lambda: "%s(%r,%d).degree(%d) -> %r, ascending %r" % (cls, arg, octs, k, r, a))
        if d_ok:
            r = ctx.ok("degree/descending", s.degree, k, "d")
            if not failed(r):
                ctx.check(r == d[::-1][k - 1], "degree/descending",
                          lambda: "%s(%r,%d).degree(%d,'d') -> %r, descending %r" % (cls, arg, octs, k, r, d))
    # length and equality follow the note lists
    if a_ok:
        ln = ctx.ok("len", len, s)
        if not failed(ln):
            ctx.check(ln == len(a), "len", lambda: "len(%s(%r,%d)) -> %r, ascending has %d notes" % (cls, arg, octs, ln, len(a)))
    twin = _make(ctx, case)
    if not failed(twin):
        eq = ctx.ok("eq", lambda: s == twin)
        ne = ctx.ok("ne", lambda: s != twin)
        ctx.check(eq is True and ne is False, "eq/same-scale", lambda: "%r: == gives %r, != gives %r" % (case, eq, ne))
    ctx.note_case(len(arg) > 1 or octs > 1, labels + ["direction:a+d"])


def check_eq(ctx, case):
    d1, d2 = case
    s1, s2 = _make(ctx, d1), _make(ctx, d2)
    if failed(s1) or failed(s2):
        return ctx.note_case(False, ["eq:construct-failed"])
    l1 = [ctx.ok("ascending", s1.ascending), ctx.ok("descending", s1.descending)]
    l2 = [ctx.ok("ascending", s2.ascending), ctx.ok("descending", s2.descending)]
    if any(failed(x) for x in l1 + l2):
        return ctx.note_case(False, ["eq:lists-failed"])
    exp = list(l1[0]) == list(l2[0]) and list(l1[1]) == list(l2[1])
    for (x, y, tag) in ((s1, s2, "1,2"), (s2, s1, "2,1")):
        eq = ctx.ok("eq", lambda: x == y)
        ne = ctx.ok("ne", lambda: x != y)
        ctx.check(eq is exp, "eq/follows-lists", lambda: "%r == (%s) -> %r, lists equal: %r" % (case, tag, eq, exp))
        ctx.check(ne is (not exp), "ne/follows-lists", lambda: "%r != (%s) -> %r, lists equal: %r" % (case, tag, ne, exp))
    same_asc = list(l1[0]) == list(l2[0])
    ctx.note_case(len(d1[1]) > 1 or len(d2[1]) > 1 or d1[2] > 1 or d2[2] > 1,
                  ["eq:equal" if exp else ("eq:same-ascending-only" if same_asc else "eq:different")])


def check_error(ctx, case):
    kind = case[0]
    if kind == "lower":
        cls, tonic = case[1], case[2]
        C = getattr(scales, cls)
        args = (tonic, (3, 7)) if cls == "Diatonic" else (tonic,)
        ctx.raises("lowercase-tonic", (NoteFormatError,), C, *args)
        ctx.raises("lowercase-tonic", (NoteFormatError,), C, *(args + (2,)))
        return ctx.note_case(len(tonic) > 1, ["error:lowercase-tonic"])
    desc, k, direction = case[1], case[2], case[3]
    s = _make(ctx, desc)
    if failed(s):
        return ctx.note_case(False, ["error:construct-failed"])
    if kind == "degree":
        ctx.raises("degree/below-one", (RangeError,), s.degree, k, direction)
        if direction == "a":
            ctx.raises("degree/below-one", (RangeError,), s.degree, k)
    else:
        ctx.raises("degree/bad-direction", (FormatError,), s.degree, k, direction)
    ctx.note_case(len(desc[1]) > 1 or desc[2] > 1, ["error:" + kind])


def check_recognition(ctx, notes_in):
    notes_in = list(notes_in)
    exp = R.recognise(notes_in)
    r = ctx.ok("recognition", scales.determine, list(notes_in))
    if not failed(r):
        got = Counter(list(r))
        want = Counter(exp)
        missing = sorted((want - got).elements())
        extra = sorted((got - want).elements())
        ctx.check(not missing, "recognition/missing",
                  lambda: "determine(%r) lacks %r (returned %r)" % (notes_in, missing, list(r)))
        ctx.check(not extra, "recognition/extra",
                  lambda: "determine(%r) wrongly lists %r (expected %r)" % (notes_in, extra, exp))
        # the notes may come in any kind of collection - a tuple, a set, or something that can be walked through only once
        for kind, arg in (("tuple", tuple(notes_in)), ("set", set(notes_in)), ("iterator", iter(list(notes_in))),
                          ("generator", (x for x in list(notes_in)))):
            r2 = ctx.ok("recognition/" + kind, scales.determine, arg)
            if not failed(r2):
                ctx.check(Counter(list(r2)) == got, "recognition/depends-on-collection-type",
                          lambda: "determine(%s of %r) -> %r, as a list %r" % (kind, notes_in, list(r2), list(r)))
    nt = len(set(notes_in)) >= 3 and bool(exp) and sorted(exp) != sorted(R.recognise(notes_in[:2]))
    ctx.note_case(nt, ["recognition:size%d" % min(len(set(notes_in)), 8),
                       "recognition:" + ("none" if not exp else "some" if len(exp) < 105 else "all")])


CHECKS = {"instance": check_instance, "eq": check_eq, "error": check_error, "recognition": check_recognition}


# ---- domains -------------------------------------------------------------------------------------------
def _instances(quick):
    max_acc, max_oct = (2, 3) if quick else (3, 5)
    res = []
    for cls in R.CLASSES:
        for t in R.tonics(cls, max_acc):
            for o in range(1, max_oct + 1):
                res.append([cls, t, o])
    for pair in R.DIATONIC_PAIRS:
        for t in R.tonics("Diatonic", max_acc):
            for o in range(1, max_oct + 1):
                res.append(["Diatonic", t, o, pair])
    # the two semitone positions written the other way round (a position set, not a sequence)
    for pair in R.DIATONIC_PAIRS:
        for t in ("C", "F#", "Bb", "Eb"):
            res.append(["Diatonic", t, 1, list(reversed(pair))])
            res.append(["Diatonic", t, 2, list(reversed(pair))])
    return res


def sub_instances(ctx, shard, n):
    cases = _instances(ctx.quick)
    if shard == 0:
        ctx.exhaustive("scale instances: 17 classes + Diatonic(21 pairs) x valid tonics x octaves, all degrees, both directions",
                       "accidentals <= %d, octaves <= %d" % ((2, 3) if ctx.quick else (3, 5)), len(cases))
    ctx.enumerate("instance", check_instance, cases[shard::n], size_key=lambda c: (c[2], len(c[1]), len(c)))


def sub_errors(ctx, shard, n):
    lower = [x.lower() for x in T.unmixed_names(2)]
    cases = [["lower", cls, t] for cls in R.CLASSES + ["Diatonic"] if cls != "Chromatic" for t in lower]
    some = []
    for cls in R.CLASSES:
        ts = R.tonics(cls, 1)
        for t in (ts[0], ts[len(ts) // 2], ts[-1]):
            for o in (1, 2):
                some.append([cls, t, o])
    for t in ("C", "F#", "Bb"):
        some.append(["Diatonic", t, 1, [3, 7]])
    for desc in some:
        for k in (0, -1, -7, -100):
            for direction in ("a", "d"):
                cases.append(["degree", desc, k, direction])
        for k in (1, 3):
            for direction in ("x", "", "A", "D", "up", "ascending", "ad", " a"):
                cases.append(["direction", desc, k, direction])
    ctx.exhaustive("scale error inputs: lower-case tonics, degrees < 1, unknown directions", "listed", len(cases))
    ctx.enumerate("error", check_error, cases)


def sub_equality(ctx, shard, n):
    cases = []
    for n_sig in range(-7, 8):
        M, m = T.KEYS[n_sig]
        m = T.key_tonic(m)
        for o in (1, 2):
            cases += [[["Ionian", M, o], ["Major", M, o]], [["Aeolian", m, o], ["NaturalMinor", m, o]],
                      [["MelodicMinor", m, o], ["Bachian", m, o]], [["HarmonicMinor", m, o], ["MinorNeapolitan", m, o]],
                      [["MelodicMinor", m, o], ["NaturalMinor", m, o]], [["Major", M, o], ["HarmonicMajor", M, o]],
                      [["Diatonic", M, o, [3, 7]], ["Major", M, o]], [["Diatonic", m, o, [2, 5]], ["NaturalMinor", m, o]],
                      [["Major", M, o], ["Major", M, o + 1]], [["Major", M, o], ["NaturalMinor", m, o]],
                      [["Chromatic", M, o], ["Chromatic", T.KEYS[n_sig][1], o]]]
    # parallel keys: the chromatic scale is spelled differently in X major and x minor although both print the same name
    for M in T.MAJOR_KEYS:
        if M.lower() in T.MINOR_KEYS:
            for o in (1, 2):
                cases.append([["Chromatic", M, o], ["Chromatic", M.lower(), o]])
    ctx.enumerate("eq", check_eq, cases[shard::n])
    inst = _instances(True)
    if shard == 0:
        # every pair of instances that print the same name or share tonic and octave count (where a shortcut would compare less
        # than the note lists)
        groups = {}
        for d in inst:
            if d[2] <= 2 and len(d[1]) <= 2:
                s_ = _make(ctx, d)
                if not failed(s_):
                    groups.setdefault(("name", getattr(s_, "name", str(s_)), d[2]), []).append(d)
                    groups.setdefault(("tonic", d[1], d[2]), []).append(d)
        pairs = [[a, b] for g in groups.values() for i, a in enumerate(g) for b in g[i + 1:i + 12]]
        ctx.exhaustive("equality of same-named / same-tonic scale instances", "octaves <= 2, accidentals <= 1", len(pairs))
        ctx.enumerate("eq", check_eq, pairs)
    ctx.given("eq", check_eq, st.tuples(st.sampled_from(inst), st.sampled_from(inst)).map(list), 400 if ctx.quick else 5000)


NAMES35 = T.unmixed_names(2)


def sub_recognition_sets(ctx, shard, n):
    cases = [[]]
    seen = set()
    for (name, cls, tonic, asc, desc) in R.RECOGNISABLE:
        for s in (asc, desc):
            if s not in seen:
                seen.add(s)
                cases.append(sorted(s))
    cases += [[x] for x in NAMES35]
    ctx.exhaustive("recognition: full ascending/descending sets of the 105 scales, single names, empty list", "listed", len(cases))
    ctx.enumerate("recognition", check_recognition, cases)


def _recognition_strategy():
    sets = sorted({tuple(sorted(s)) for (_, _, _, asc, desc) in R.RECOGNISABLE for s in (asc, desc)})
    scale = st.sampled_from(sets)
    subset = scale.flatmap(lambda s: st.lists(st.sampled_from(s), min_size=1, max_size=7, unique=True))
    foreign = st.tuples(subset, st.sampled_from(NAMES35), st.integers(0, 7)).map(
        lambda t: t[0][:t[2]] + [t[1]] + t[0][t[2]:])
    rnd = st.lists(st.sampled_from(NAMES35), min_size=0, max_size=7)
    # the same notes given many times (a melody, a scale played up and down over two octaves): only the set of notes counts
    melody = scale.flatmap(lambda s: st.lists(st.sampled_from(s), min_size=8, max_size=30))
    updown = scale.map(lambda s: list(s) + list(s) + list(reversed(s)))
    melody_foreign = st.tuples(melody, st.sampled_from(NAMES35)).map(lambda t: t[0] + [t[1]])
    return st.one_of(subset, subset, foreign, rnd, melody, updown, melody_foreign)


def sub_recognition(ctx, shard, n):
    ctx.given("recognition", check_recognition, _recognition_strategy(), 1000 if ctx.quick else 15000)


SUBS = [
    Sub("instances", sub_instances, quick=8, thorough=16),
    Sub("errors", sub_errors),
    Sub("equality", sub_equality, quick=1, thorough=4),
    Sub("recognition_sets", sub_recognition_sets),
    Sub("recognition", sub_recognition, quick=4, thorough=16),
]
