#!/venv/bin/python
"""Parameter coverage: which public functions / methods of mingus were never called by a check, and which of their optional
parameters never received a non-default value.

  tools/paramcov.py C01 C02 ...      (runs each quick check in-process with VERIF_PROCS=1 under sys.setprofile)

Prints one block per mingus module: functions never called, and (function, parameter) pairs only ever seen at their default.
This is a generator-health tool, not a check: it is how overlooked entry points and argument forms are found.
"""
import inspect
import os
import sys

V = os.path.dirname(os.path.dirname(os.path.abspath(__file__)))
os.environ.setdefault("PYTHONHASHSEED", "0")
os.environ["VERIF_PROCS"] = "1"
sys.path.insert(0, "/repo")
sys.path.insert(0, V)
sys.path.insert(2, os.path.join(V, ".deps"))

import importlib  # noqa
import pkgutil  # noqa

import mingus  # noqa

funcs = {}  # code -> (qualified name, {param: default})
for m in pkgutil.walk_packages(mingus.__path__, "mingus."):
    if any(x in m.name for x in ("win32", "fluidsynth", "pyfluidsynth")):
        continue
    try:
        mod = importlib.import_module(m.name)
    except Exception:  # noqa
        continue
    for name, obj in vars(mod).items():
        items = []
        if inspect.isfunction(obj) and obj.__module__ == mod.__name__:
            items.append((name, obj))
        elif inspect.isclass(obj) and obj.__module__ == mod.__name__:
            for n2, o2 in vars(obj).items():
                if inspect.isfunction(o2):
                    items.append(("%s.%s" % (name, n2), o2))
        for qn, f in items:
            try:
                sig = inspect.signature(f)
            except (TypeError, ValueError):
                continue
            defaults = {p.name: p.default for p in sig.parameters.values() if p.default is not inspect.Parameter.empty}
            funcs[f.__code__] = ("%s.%s" % (mod.__name__, qn), defaults)

called = {}
nondefault = set()
LIMIT = 3000


def prof(frame, event, arg):
    if event != "call":
        return
    info = funcs.get(frame.f_code)
    if info is None:
        return
    n = called.get(info[0], 0)
    called[info[0]] = n + 1
    if n > LIMIT:
        return
    for p, d in info[1].items():
        if (info[0], p) in nondefault:
            continue
        v = frame.f_locals.get(p, d)
        try:
            same = (v is d) or (type(v) is type(d) and v == d)
        except Exception:  # noqa
            same = False
        if not same:
            nondefault.add((info[0], p))


from vlib import core  # noqa
import glob  # noqa
import signal  # noqa

signal.signal(signal.SIGALRM, core._alarm)
for pid in sys.argv[1:]:
    mods = glob.glob(os.path.join(V, "props", pid.lower() + "_*.py"))
    modname = "props." + os.path.basename(mods[0])[:-3]
    sys.setprofile(prof)
    try:
        subs = [x.name for x in importlib.import_module(modname).SUBS]
        rc = core.run_property(modname, "quick", 1, only_subs=subs)  # only_subs given: no evidence file is written
    finally:
        sys.setprofile(None)
    print("## %s rc=%s" % (pid, rc), file=sys.stderr)

by_mod = {}
for code, (qn, defaults) in funcs.items():
    mod = qn.rsplit(".", 2)[0] if qn.count(".") >= 3 and qn.split(".")[-2][0].isupper() else qn.rsplit(".", 1)[0]
    by_mod.setdefault(mod, []).append((qn, defaults))
for mod in sorted(by_mod):
    never = sorted(qn for qn, _ in by_mod[mod] if qn not in called and not qn.split(".")[-1].startswith("_"))
    only_default = sorted("%s(%s)" % (qn.split(mod + ".", 1)[1], p) for qn, d in by_mod[mod] if qn in called for p in d if (qn, p) not in nondefault)
    print("== %s" % mod)
    print("   never called: %s" % ", ".join(x.split(mod + ".", 1)[1] for x in never))
    print("   parameter only at its default: %s" % ", ".join(only_default))
