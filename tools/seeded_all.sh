#!/bin/bash
# re-run every stored seeded change against the current checks (quick tier): the property it was written for plus any other
# property recorded in its meta.json as catching it; one line each
cd /verif
for d in seeded/*/; do
  n=$(basename $d); pid=${n%%-*}
  also=$(/venv/bin/python -c "
import json,sys
m=json.load(open('$d/meta.json'))
print(','.join(k for k in m.get('checks',{}) if k!='$pid'))" 2>/dev/null)
  if [ -n "$also" ]; then tools/seeded.py $d $pid --also $also --name $n --no-store 2>&1 | tail -1
  else tools/seeded.py $d $pid --name $n --no-store 2>&1 | tail -1; fi
done
