#!/bin/bash
# re-run every stored seeded change against the current checks (quick tier): the property it was written for plus any other
# property recorded in its meta.json as catching it; one line each.  $1 = number of changes run side by side (default 4).
cd /verif
one() {
  d=$1; n=$(basename $d); pid=${n%%-*}
  if /venv/bin/python -c "import json,sys; sys.exit(0 if json.load(open('$d/meta.json')).get('superseded') else 1)"; then echo "SEEDED $n superseded by a later repair: not re-run"; return; fi
  also=$(/venv/bin/python -c "
import json,sys
m=json.load(open('$d/meta.json'))
print(','.join(k for k in m.get('checks',{}) if k!='$pid'))" 2>/dev/null)
  if [ -n "$also" ]; then VERIF_PROCS=4 tools/seeded.py $d $pid --also $also --name $n --no-store 2>&1 | tail -1
  else VERIF_PROCS=4 tools/seeded.py $d $pid --name $n --no-store 2>&1 | tail -1; fi
}
export -f one
ls -d seeded/*/ | xargs -P ${1:-4} -I{} bash -c 'one {}'
