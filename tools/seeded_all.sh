#!/bin/bash
# re-run every stored seeded change against the current checks (quick tier); one line each
cd /verif
for d in seeded/*/; do
  n=$(basename $d); pid=${n%%-*}
  tools/seeded.py $d $pid --name $n --no-store 2>&1 | tail -1
done
