#!/venv/bin/python
"""Regenerate seeded/INDEX.md from the meta.json files."""
import glob
import json
import os

V = os.path.dirname(os.path.dirname(os.path.abspath(__file__)))
rows = []
for d in sorted(glob.glob(os.path.join(V, "seeded", "*", "meta.json"))):
    m = json.load(open(d))
    notes = m.get("needs", "")
    first = [l.strip("-*# ").strip() for l in notes.splitlines() if l.strip()]
    what = (first[0] if first else "")[:160].replace("|", "/")
    sigs = []
    for pid, v in m.get("checks", {}).items():
        if v.get("exit") == 1:
            sigs += ["%s: %s" % (pid, s.split("/", 1)[1]) for s in v.get("signatures", [])[:2]]
    hist = m.get("history", "")
    status = "superseded by a later repair of the repository (see meta.json)" if m.get("superseded") else "NOT caught: equivalent / ambiguous inside the statements (see meta.json)" if hist.startswith("NOT caught") else "caught by another property's check (see meta.json)" if hist.startswith("caught by C") else "caught by the first quick run" if not hist else ("check strengthened before it was run" if "before this change was run" in hist else "missed at first; check strengthened")
    rows.append("| %s | %s | `%s` | %s |" % (m["name"], what, "; ".join(sigs[:3]), status))
out = ["# Seeded property-breaking changes", "",
       "Every entry: patch.diff (applies to the current /repo), demo.py (fails with / passes without the change), notes.md (the author's",
       "description), meta.json (what was run, which signatures caught it, and - if it was missed at first - what was added).",
       "Re-run all of them with `tools/seeded_all.sh`.", "",
       "| change | what it does (first line of its notes) | caught by (quick tier) | history |", "|---|---|---|---|"] + rows
open(os.path.join(V, "seeded", "INDEX.md"), "w").write("\n".join(out) + "\n")
print(len(rows), "entries")
