#!/bin/bash
# re-run every stored property-preserving change against the current checks (quick tier): its own property, every property
# anchored in a touched file and C15 - all must stay quiet.  $1 = number run side by side (default 4); $2 = --all for all 20 checks.
cd /verif
one() {
  d=$1; n=$(basename $d); pid=${n%%-*}
  if /venv/bin/python -c "import json,sys; sys.exit(0 if json.load(open('$d/meta.json')).get('adopted') else 1)"; then echo "PRESERVING $n adopted as a repair: not re-run"; return; fi
  VERIF_PROCS=4 tools/preserving.py $d $pid --name $n $2 2>&1 | grep -v WARNING
}
export -f one
ls -d preserving/*/ | xargs -P ${1:-4} -I{} bash -c "one {} $2"
