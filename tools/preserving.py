#!/venv/bin/python
"""Run the checks against an independently written PROPERTY-PRESERVING change: the checks must stay quiet.

  tools/preserving.py <dir with patch.diff, demo.py, notes.md> <property id> [--name C01-pa] [--tier quick] [--also C02,C03] [--all]

The counterpart of tools/seeded.py.  Steps (all in a scratch copy of /repo outside /repo and /verif, removed afterwards):
  1. patch applies to the current tree;  2. the repository's 190 tests pass with it;
  3. demo.py (which checks the property's clauses from first principles and prints OBSERVED: lines for the behaviour that was
     changed) passes with and without the change, and its OBSERVED lines differ;
  4. ./check <ID> (VERIF_REPO = scratch copy) for the property itself, for every other property anchored in a touched file and
     for C15 must exit 0.  An exit 1 is either a false alarm of the check (to be repaired in the check) or a change that does
     break a property after all (recorded as such in meta.json by hand, with the reason).
Stores patch.diff, demo.py, notes.md and meta.json under /verif/preserving/<name>/.
"""
import argparse
import json
import os
import re
import shutil
import subprocess
import sys
import tempfile

V = os.path.dirname(os.path.dirname(os.path.abspath(__file__)))
ap = argparse.ArgumentParser()
ap.add_argument("src")
ap.add_argument("pid")
ap.add_argument("--name")
ap.add_argument("--tier", default="quick")
ap.add_argument("--also", default="")
ap.add_argument("--all", action="store_true")
ap.add_argument("--no-store", action="store_true")
a = ap.parse_args()
name = a.name or "%s-p%s" % (a.pid, os.path.basename(os.path.normpath(a.src)))
PY = "/venv/bin/python"


def run(cmd, **kw):
    return subprocess.run(cmd, capture_output=True, text=True, **kw)


def observed(out):
    return [l for l in out.splitlines() if l.startswith("OBSERVED")]


d = tempfile.mkdtemp(prefix="preserving_", dir="/tmp")
meta = {"name": name, "property": a.pid, "ran": []}
try:
    shutil.copytree("/repo/mingus", os.path.join(d, "mingus"))
    shutil.copytree("/repo/tests", os.path.join(d, "tests"))
    env = dict(os.environ, PYTHONPATH=d, PYTHONDONTWRITEBYTECODE="1")
    demo = os.path.abspath(os.path.join(a.src, "demo.py"))
    patch = os.path.abspath(os.path.join(a.src, "patch.diff"))
    r0 = run([PY, "-W", "ignore", demo], env=env, cwd=d)
    meta["demo_without_change"] = r0.returncode
    p = run(["patch", "-p1", "-s", "-d", d, "-i", patch])
    meta["patch_applies"] = p.returncode == 0
    if p.returncode != 0:
        print("PATCH FAILED", p.stdout, p.stderr)
        sys.exit(2)
    touched = sorted(set(re.findall(r"^\+\+\+ b/(\S+)", open(patch).read(), re.M)))
    meta["touched"] = touched
    t = run([PY, "-m", "pytest", "-q", "-p", "no:cacheprovider", "--ignore", "tests/integration/test_fluidsynth.py", "tests"], env=env, cwd=d)
    tail = t.stdout.strip().splitlines()[-1] if t.stdout.strip() else ""
    meta["suite_with_change"] = tail
    r1 = run([PY, "-W", "ignore", demo], env=env, cwd=d)
    meta["demo_with_change"] = r1.returncode
    meta["observed_without_change"] = observed(r0.stdout)[:6]
    meta["observed_with_change"] = observed(r1.stdout)[:6]
    usable = r0.returncode == 0 and r1.returncode == 0 and "190 passed" in tail and observed(r0.stdout) != observed(r1.stdout)
    meta["usable"] = usable
    pids = [a.pid]
    for l in open(os.path.join(V, "properties.jsonl")):
        pr = json.loads(l)
        if pr["id"] not in pids and (a.all or any(f in pr["anchors"]["files"] for f in touched)):
            pids.append(pr["id"])
    for x in ["C15"] + [x for x in a.also.split(",") if x]:
        if x not in pids:
            pids.append(x)
    res = {}
    for pid in pids:
        c = run([os.path.join(V, "check"), pid, "--tier", a.tier], env=dict(os.environ, VERIF_REPO=d), cwd=V)
        blocks = re.findall(r"signature=(\S+).*?\n\s*case=(.*?)\n\s*detail=(.*?)\n", c.stdout)
        res[pid] = {"exit": c.returncode, "signatures": [b[0] for b in blocks][:8]}
        if blocks:
            res[pid]["first"] = {"signature": blocks[0][0], "case": blocks[0][1][:300], "detail": blocks[0][2][:400]}
        if c.returncode == 2:
            res[pid]["stderr"] = (c.stdout[-300:] + c.stderr[-600:])
        meta["ran"].append("VERIF_REPO=<scratch copy with patch> ./check %s --tier %s -> exit %d" % (pid, a.tier, c.returncode))
    meta["checks"] = res
    meta["quiet"] = all(v["exit"] == 0 for v in res.values())
    notes = os.path.join(a.src, "notes.md")
    meta["notes"] = open(notes).read()[:2000] if os.path.exists(notes) else ""
    print("PRESERVING %s usable=%s suite=%r demo(without,with)=(%s,%s) quiet=%s %s" % (
        name, usable, tail[:12], meta["demo_without_change"], meta["demo_with_change"], meta["quiet"],
        " ".join("%s=%d%s" % (k, v["exit"], v["signatures"][:3] if v["exit"] else "") for k, v in res.items())))
    for k, v in res.items():
        if v["exit"] and "first" in v:
            print("   %s %s\n      case=%s\n      detail=%s" % (k, v["first"]["signature"], v["first"]["case"], v["first"]["detail"]))
        elif v["exit"]:
            print("   %s exit %d %s" % (k, v["exit"], v.get("stderr", "")[-400:]))
    if not a.no_store and usable:
        out = os.path.join(V, "preserving", name)
        os.makedirs(out, exist_ok=True)
        for f in ("patch.diff", "demo.py", "notes.md"):
            if os.path.exists(os.path.join(a.src, f)) and os.path.abspath(os.path.join(a.src, f)) != os.path.join(out, f):
                shutil.copy(os.path.join(a.src, f), os.path.join(out, f))
        old = {}
        if os.path.exists(os.path.join(out, "meta.json")):
            old = json.load(open(os.path.join(out, "meta.json")))
        for k in ("history", "verdict"):
            if k in old:
                meta[k] = old[k]
        with open(os.path.join(out, "meta.json"), "w") as f:
            json.dump(meta, f, indent=1)
finally:
    shutil.rmtree(d, ignore_errors=True)
