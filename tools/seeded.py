#!/venv/bin/python
"""Verify an independently written seeded change and run the checks against it.

  tools/seeded.py <dir with patch.diff, demo.py, notes.md> <property id> [--name C01-a] [--tier quick] [--also C02,C03]

Steps (all in a scratch copy of /repo outside /repo and /verif, removed afterwards):
  1. patch applies to the current tree;  2. the repository's 190 tests pass with it;
  3. demo.py fails with the change and passes without it;  4. ./check <ID> (VERIF_REPO = scratch copy) must report a VIOLATION.
Stores patch.diff, demo.py, notes.md and meta.json under /verif/seeded/<name>/.
"""
import argparse
import json
import os
import re
import shutil
import subprocess
import sys
import tempfile

V = os.path.dirname(os.path.dirname(os.path.abspath(__file__)))
ap = argparse.ArgumentParser()
ap.add_argument("src")
ap.add_argument("pid")
ap.add_argument("--name")
ap.add_argument("--tier", default="quick")
ap.add_argument("--also", default="")
ap.add_argument("--no-store", action="store_true")
a = ap.parse_args()
name = a.name or "%s-%s" % (a.pid, os.path.basename(os.path.normpath(a.src)))
PY = "/venv/bin/python"


def run(cmd, **kw):
    return subprocess.run(cmd, capture_output=True, text=True, **kw)


d = tempfile.mkdtemp(prefix="seeded_", dir="/tmp")
meta = {"name": name, "property": a.pid, "ran": []}
try:
    shutil.copytree("/repo/mingus", os.path.join(d, "mingus"))
    shutil.copytree("/repo/tests", os.path.join(d, "tests"))
    env = dict(os.environ, PYTHONPATH=d, PYTHONDONTWRITEBYTECODE="1")
    demo = os.path.abspath(os.path.join(a.src, "demo.py"))
    r0 = run([PY, "-W", "ignore", demo], env=env, cwd=d)
    meta["demo_without_change"] = r0.returncode
    p = run(["patch", "-p1", "-s", "-d", d, "-i", os.path.abspath(os.path.join(a.src, "patch.diff"))])
    meta["patch_applies"] = p.returncode == 0
    if p.returncode != 0:
        print("PATCH FAILED", p.stdout, p.stderr)
        sys.exit(2)
    t = run([PY, "-m", "pytest", "-q", "-p", "no:cacheprovider", "--ignore", "tests/integration/test_fluidsynth.py", "tests"], env=env, cwd=d)
    tail = t.stdout.strip().splitlines()[-1] if t.stdout.strip() else ""
    meta["suite_with_change"] = tail
    r1 = run([PY, "-W", "ignore", demo], env=env, cwd=d)
    meta["demo_with_change"] = r1.returncode
    meta["demo_output_with_change"] = (r1.stdout + r1.stderr)[-400:]
    confirmed = meta["demo_without_change"] == 0 and meta["demo_with_change"] != 0 and "190 passed" in tail
    meta["confirmed"] = confirmed
    caught = {}
    for pid in [a.pid] + [x for x in a.also.split(",") if x]:
        c = run([os.path.join(V, "check"), pid, "--tier", a.tier], env=dict(os.environ, VERIF_REPO=d), cwd=V)
        sigs = re.findall(r"signature=(\S+)", c.stdout)
        caught[pid] = {"exit": c.returncode, "signatures": sigs[:6]}
        meta["ran"].append("VERIF_REPO=<scratch copy with patch> ./check %s --tier %s -> exit %d" % (pid, a.tier, c.returncode))
        if c.returncode == 2:
            caught[pid]["stderr"] = c.stderr[-300:]
    meta["checks"] = caught
    meta["caught_by_" + a.tier] = any(v["exit"] == 1 for v in caught.values())
    notes = os.path.join(a.src, "notes.md")
    meta["needs"] = open(notes).read()[:1500] if os.path.exists(notes) else ""
    print("SEEDED %s confirmed=%s suite=%r demo(without,with)=(%s,%s) %s" % (
        name, confirmed, tail[:40], meta["demo_without_change"], meta["demo_with_change"],
        " ".join("%s=%d%s" % (k, v["exit"], v["signatures"][:3]) for k, v in caught.items())))
    if not a.no_store and confirmed:
        out = os.path.join(V, "seeded", name)
        os.makedirs(out, exist_ok=True)
        for f in ("patch.diff", "demo.py", "notes.md"):
            if os.path.exists(os.path.join(a.src, f)):
                shutil.copy(os.path.join(a.src, f), os.path.join(out, f))
        with open(os.path.join(out, "meta.json"), "w") as f:
            json.dump(meta, f, indent=1)
finally:
    shutil.rmtree(d, ignore_errors=True)
