#!/bin/bash
# line coverage of /repo/mingus reached by every quick check (single process per check); report per anchored module
mkdir -p /tmp/cov; cd /verif
export PYTHONHASHSEED=0 PYTHONDONTWRITEBYTECODE=1 VERIF_PROCS=1
for id in "$@"; do
  /venv/bin/python -W ignore -m coverage run --data-file=/tmp/cov/$id.cov --source=/repo/mingus ./check $id > /tmp/cov/$id.log 2>&1
  echo "$id rc=$?"
done
