#!/venv/bin/python
"""Regenerate MANIFEST.json (kept in one place so it is always schema-valid)."""
import glob
import json
import os

V = os.path.dirname(os.path.dirname(os.path.abspath(__file__)))
PY = "/venv/bin/python"

# id -> (what assurance, trusted base / assumptions, technique)
P = {
 "C01": ("All names with accidental strings up to length 8 (thorough 12) in every order are enumerated and each notes.* result is compared with own letter/semitone arithmetic; pairs, ints and malformed strings likewise; longer inputs are sampled with Hypothesis. Exhaustive below the bound, sampled above.",
         "Reference arithmetic in vlib/ref/theory.py; empty string excluded.",
         "bounded-exhaustive enumeration + Hypothesis PBT vs reference model + coverage-guided fuzzing (atheris) of the string surface with the same oracle"),
 "C13": ("Every operation history up to depth 4 (thorough 5) over {place v, rest v, +, remove-last} for a 10-value sub-vocabulary in 6-14 meters, every single-value fill to exact capacity, constructed overflows by 1-5 vocabulary quanta, and seeded random 60-step histories over all seven operations are executed on a real Bar and compared after every step with an exact Fraction model; meter acceptance is enumerated over integer/float/non-finite units.",
         "Model in vlib/ref/barmodel.py; values handed over as ints or correctly rounded floats of the vocabulary rationals; float clauses at 1e-9.",
         "bounded-exhaustive history enumeration + model-based Hypothesis histories vs exact-rational model"),
 "C12": ("Every history up to depth 4 (thorough 5) over a 12-operation add/remove alphabet and seeded random 50-step histories over all add/remove forms are replayed on a real NoteContainer and compared after every step with a set model (content order, length, membership, equality, unique names, four consonance predicates); all chord-shorthand x root, interval-shorthand and numeral x key constructors are enumerated for the octave-4 ascending voicing.",
         "Set model and pitch arithmetic in the check; chord/progression note lists taken from mingus (their content is C06/C08's subject).",
         "bounded-exhaustive history enumeration + model-based Hypothesis histories vs set model"),
 "C14": ("Every track history up to depth 4 (thorough 5) over a 9-operation alphabet x instruments, plus seeded random 40-step histories over all content forms, values, 30 keys, 11 meters and five instrument kinds (notes on and beyond each range edge), are replayed on real Tracks and compared after every step with a list-of-exact-bars model; from_chords on nested chord lists and compositions with generated track selections are checked against their own models.",
         "Bar model from C13; instrument ranges as own pitch numbers; expected chord contents via NoteContainer.from_chord (C12/C06's subject).",
         "bounded-exhaustive history enumeration + model-based Hypothesis histories vs exact-rational track model"),
 "C11": ("All 35 names x octaves 0-9 x 31 interval shorthands x up/down are enumerated at Note level against own letter/pitch arithmetic (incl. up-then-down restoration and change_octave clamping); seeded random tracks with 1-8 step transpose/augment/diminish histories applied at container, bar or track level are checked after every step against shadow Note copies (each targeted note equals the Note-level operation, untargeted notes, rests, beats, durations, channels and velocities untouched).",
         "Own pitch arithmetic for ordinary names; the lifting differential (container vs Note-level operation) for every name.",
         "bounded-exhaustive enumeration + Hypothesis operation histories vs reference arithmetic and lifting differential"),
 "C05": ("All 17 scale classes (Diatonic with all 21 semitone-position pairs) x every tonic valid for the class x octave counts x every degree x both directions are enumerated against own step-pattern tables; scale recognition is compared on sampled note sets (subsets of scales, subsets plus a foreign note, random sets) with a brute-force specification over the 15 key pairs x 7 scale types.",
         "Pattern tables and recognition specification in vlib/ref/scales.py; chromatic descending compared by pitch class only.",
         "bounded-exhaustive enumeration + Hypothesis note sets vs reference tables / brute-force specification"),
 "C06": ("Every library shorthand x 35 roots (thorough 49) is enumerated against an own formula table (letter + semitones per chord tone) and the named builders; every m/M alias spelling is enumerated; slash basses, polychords (half built to trigger the duplicate-skip rule), lists, NC and four malformed-input classes are sampled with Hypothesis (slash chords enumerated in thorough); table agreement between constructible shorthands and documented meanings is checked directly.",
         "Formula and meaning tables in vlib/ref/chords_ref.py written from theory/docstrings; empty string and empty halves excluded.",
         "bounded-exhaustive enumeration + Hypothesis PBT vs formula table + coverage-guided fuzzing (atheris) of the string surface with the same oracle"),
 "C07": ("Every shorthand with >= 3 notes x 35 roots (thorough 49) x every rotation x both output forms is enumerated for the rebuild-and-name clause; all 21^3 three-note inputs for containment; sizes 0-2 exhaustively in the interval-naming domain; thousands of random 4-9 note inputs with both flags and root-position polychords for never-raises / same-length / constructible-names.",
         "Round trip through chords.from_shorthand plus a pinned meaning table and inversion ordinals in vlib/ref/chords_ref.py.",
         "bounded-exhaustive round-trip enumeration + Hypothesis PBT"),
 "C08": ("30 keys x 7 degrees x triad/seventh x function name / alias / numeral string in both cases, prefixes -3..3 x all 52 suffixes, unrecognised numerals, chord->function->chord in the 15 major keys, parse/format round trips, and all five substitution rules plus substitute(depth 0..2) on every numeral x suffix x prefix are enumerated against own stacks-of-thirds and rule predicates; random progressions of length 1-4 at every index; the caller's list is deep-compared around every rule call.",
         "Diatonic-harmony helpers and numeral parser in vlib/ref/chords_ref.py; substitute and substitute_diminished_for_dominant checked for well-formedness only.",
         "bounded-exhaustive enumeration + Hypothesis PBT vs reference harmony model"),
 "C09": ("All 80 vocabulary values (10 bases x dots 0-4, three tuplet kinds) are built and analysed back exactly; perturbations within 1% of every undotted/single-dotted value (Hypothesis floats plus fixed endpoints); add/subtract on value pairs against exact Fractions; tuplet helpers against the ratio formula; meter predicates over integers, floats, zero, negatives, huge powers of two, inf and nan with a deterministic line-event budget so non-termination is a verdict, not a timeout.",
         "Vocabulary as Fractions in vlib/ref/values.py; float tolerances as stated in the module's ASSUMPTIONS.",
         "bounded-exhaustive enumeration + Hypothesis floats vs exact-rational reference; step-budgeted termination check"),
 "C10": ("35 names (plus mixed-order names for int()) x octaves 0-9 enumerated for the pitch number and the int / 'Name-octave' / repr / copy reconstructions; all ordered pairs x six comparison operators (sampled in quick, all 122 500 in thorough); Hz conversion over 0..127 x standard pitches x detune up to 40 cents; Helmholtz round trip for every name and octave; velocity/channel bounds and malformed names; copy independence.",
         "Own pitch arithmetic; repr is unquoted with ast.literal_eval before being fed back.",
         "bounded-exhaustive enumeration + Hypothesis PBT vs reference arithmetic / round trips + coverage-guided fuzzing (atheris) of the string surface with the same oracle"),
 "C16": ("Seeded random compositions, tracks and bars (all keys, 14-72 meters, integral and rounding tick values, chords, rests in every position incl. empty containers, channels, velocities, instruments, tempo-carrying containers, bpm 4-1000, repeat 0-3) and a systematic key x meter sweep are written through all five file writers and MidiFile.get_midi_data(); the bytes are parsed by an independent strict SMF reader and the decoded events compared with the events computed from the score description (multiset per tick + per-pitch on/off alternation + instrument-before-note ordering). The VLQ encoder is compared with a reference encoder on a dense range and all power-of-two neighbourhoods (thorough: all 2^28 values).",
         "Own SMF parser (vlib/ref/smf.py) and event model (vlib/ref/midimodel.py); values with an exact x.5 tick length are not generated.",
         "translation validation by an independent decoder over Hypothesis-generated programs + exhaustive VLQ enumeration"),
 "C02": ("All names with accidental strings up to length 5 (thorough 8) in every order x the 17 named constructors are enumerated against an own (interval number, semitones) table with the unmixed / at-most-six-accidentals clause, longer accidental strings sampled; all ordered pairs up to length 3 (thorough 6) for measure and the four consonance predicates with both include_fourths values.",
         "Constructor table and arithmetic in vlib/ref/theory.py; unison constructors: normalisation asserted only where implied (DESIGN Int.).",
         "bounded-exhaustive enumeration + Hypothesis PBT vs reference model"),
 "C03": ("All in-domain ordered pairs of names with up to 2 (thorough 3) accidentals x long/short form are enumerated for number, quality and the shorthand inverse; names x 35 shorthands x up/down for letter, semitones and up-then-down restoration; Hypothesis lists for invert (value, fresh list, argument unchanged).",
         "Expected names from own letter-distance/semitone arithmetic (theory.interval_long_name).",
         "bounded-exhaustive enumeration + round trips + Hypothesis lists"),
 "C04": ("All 30 keys (notes, signature, accidentals, relatives, Key object), signature numbers -20..20 plus arbitrary integers, thousands of candidate key strings (near misses of valid keys, Hypothesis text) for the rejection clauses, and all 30 x 35 x 6 diatonic steps are enumerated against an own key table; every get_notes query is asked cold and warm (memo transparency).",
         "Key table and step patterns in vlib/ref/theory.py; empty string excluded.",
         "bounded-exhaustive enumeration + Hypothesis text vs reference key table + coverage-guided fuzzing (atheris) of the string surface with the same oracle"),
 "C17": ("Seeded random compositions restricted to velocities 1-127 and integral-tick values are written with write_Composition and read back with MIDI_to_Composition; compared per track on the flattened (ticks, pitch set) sequence, per-entry (pitch, channel, velocity), tempo, names, instrument numbers and, for single-key/meter tracks, key and meter of every bar; every key x meter systematically; bpm 4..1000 (thorough 7000) exhaustively; the VLQ reader on reference encodings (thorough: all 2^28); corrupted tags and format words must be rejected.",
         "Expected flattened sequence from the score description (vlib/ref/midimodel.py); the writer's own correctness is C16's subject (files are pre-validated by the independent SMF reader).",
         "round-trip property over Hypothesis-generated programs + exhaustive enumeration of tempo / VLQ / corruption domains"),
 "C18": ("Seeded random notes, containers, bars and tracks (sequential API) and 1-4 parallel bars / tracks / compositions in an aligned and a free-rhythm class are played through a recording Sequencer subclass with recording observers attached 0/1/2 times or detached; cumulative sleep is mapped to musical time through the model's tempo segments and the timed on/off multiset, per-(pitch, channel) balance, play order (sequential), total sleep, instrument announcements, observer trace and returned tempo are compared with the event model; control changes enumerated around the 0/128 bounds.",
         "Event model computed from the score description; simultaneous events constrained only by balance (and order of notes for the sequential API); parallel tempo changes only in the first part.",
         "model-based trace validation over Hypothesis-generated programs"),
 "C19": ("Seeded random notes, containers, bars, tracks and compositions over the full value vocabulary (0-4 dots, complete tuplet groups on every base, longa/breve), all keys, 19 meters, chords, rests and Unicode/markup metadata are exported; LilyPond text is decoded by an own reader of the emitted subset and compared entry by entry (pitches, octave, chord order, base value, dots, enclosing \\times ratio, key/time state after every bar, header fields); MusicXML is parsed with xml.etree and compared per part / measure / note element (ids, numbering, time, fifths, mode, step/alter/octave, chord marks, dots, duration/divisions, names). Every vocabulary value also systematically through from_Track of both exporters; from_Note exhaustively.",
         "Own LilyPond-subset reader (vlib/ref/lyread.py) and xml.etree as independent decoders; expected content computed from the score description.",
         "translation validation by independent decoders over Hypothesis-generated programs"),
 "C20": ("All 76 registered tunings x 128 notes x maxfret values for find_frets and all (string, fret) cells incl. out-of-range ones for get_Note are enumerated against own open-string pitches; lookups over every instrument prefix x casing x counts; find_fingering on generated note sets against a brute-force specification (set equality + fret-sum order); find_chord_fingering results against a validity predicate; generated notes, containers, bars, tracks and compositions on the 48 non-course tunings at page widths 40-160 are rendered and decoded by an own tab reader (equal line lengths, one line per string, pitches per entry in order); unplayable entries must raise the fingering/range error.",
         "Own open-string pitch arithmetic, brute-force fingering enumeration and tab reader (vlib/ref/tabread.py); decode clause applied when every entry has room for its digits.",
         "bounded-exhaustive enumeration + Hypothesis PBT vs brute-force specification; translation validation of tablature by an independent reader"),
 "C15": ("A 1227-query battery (every public function of the theory modules at least once, found by introspection) over the theory modules is answered by a cold interpreter; Hypothesis draws call histories (general and focused on one region of the battery), mutates every returned list/dict in place, then re-asks the battery (a drawn part in quick, all of it in thorough) twice and compares with the cold answers; frequency-table lookups in drawn sequences are compared with a bisect reference and a memory-less lookup; ~40 call sites taking lists/dicts are checked for argument preservation; operation scripts on one of two instances of each of 13 classes must leave the sibling, fresh instances and class defaults unchanged; copies of notes/containers are exercised in both directions.",
         "Cold answers come from a fresh subprocess importing the same tree; known memo tables are cleared at the start of each case so failures replay.",
         "differential against a cold interpreter over Hypothesis call histories + metamorphic argument/sibling invariance"),
}
# generators added after the fourth round of independently seeded changes (DESIGN.md 8.4 (v))
ADD = {
 "C14": "Tracks filled through a composition are augmented in turn (the others must not move); tuned from_chords tracks are augmented (each entry rises exactly once). from_chords is applied to tracks in every key: opened bars inherit key and meter. selected_tracks may hold indices written from the end. from_chords runs with every instrument kind and with generic instruments narrowed by set_range (the first out-of-range chord raises the range error and is not placed). Objects shared between tracks of a composition are found by identity (only objects the caller handed in may sit in two tracks). Composition equality follows the contents: a separately built composition with equal tracks is equal; one entry different or one track less is not. Tuned from_chords with repeated chord names is enumerated (each entry rises exactly once). Rests written as empty containers go through add_notes and '+' with every instrument kind; != is asked both ways round. Single notes written with 4-6 accidentals go through every instrument kind; from_chords items longer than a bar cross several bar lines; a list ending in a bare name that is voiced out of the range must be refused.",
 "C12": "The from_* constructors are also applied to used containers, to slash chords over their own notes and to polychords of chords that share notes. Neighbours whose octave numbers and pitch order disagree (Cb-5 / B#-4) go through every removal form.",
 "C06": "Malformed parts are also embedded inside polychords. The empty chord is also the lower part of slash chords (own-root basses included). The empty string and empty slash / polychord parts ('', 'C/', 'C|', '||', ...) are enumerated and generated as malformed text.",
 "C05": "Recognition questions of 8-30 entries with repeats are sampled. Each instance is checked after scales of the same kind and tonic over other octave counts were asked; recognition is asked with lists, tuples, sets, iterators and generators. Diatonic positions are also written in descending order.",
 "C03": "Before each from_shorthand question, respellings of the same pitch and all 17 named constructors on the same root are asked (both orders). intervals.determine is also called with keyword arguments in both orders. Naming questions on unisons going down and up precede every question. Shorthands with one sharp and one flat (either order) are enumerated on every name with up to two accidentals.",
 "C01": "Pairs with up to 40 accidentals (half on one letter) and accidental strings leaning to one sign are sampled. Names with 100-400 accidentals are sampled. Block spellings with up to 3000 sharps and flats are enumerated.",
 "C02": "Pairs with accidental strings of length 0-40 (half on one letter) are sampled; every pair up to 2 accidentals is also asked with the flag omitted, by keyword and as a number. Every constructor is asked right after every other one on the same root; accidental strings leaning to one sign with a few opposite signs are sampled. Names with 100-400 accidentals are sampled. The opposite question precedes every measure / predicate question. The three unison constructors are held to the unmixed / at-most-six-accidentals clause on every input, like the other 14. Block spellings with up to 1000 sharps and flats go through all 17 constructors and through measure.",
 "C04": "Integers of hundreds to tens of thousands of digits are among the out-of-range signature numbers. Every diatonic question is preceded by the questions whose note + key concatenation reads the same; unknown keys are given to the step functions twice in a row. The key memo is also filled minors-first and minors-only before unknown keys are offered; keys.major_keys / minor_keys are compared with the key table. Every Key is copied (copy, deepcopy, pickle) while another Key is held; get_key is given numpy integer types. Rejected calls to the other theory modules precede every key check. The empty string is offered to Key() like every other candidate key. The published key tables may be lists or tuples.",
 "C07": "The library's inversion helpers are compared with list slicing for chords of every size. Long names are formed with the library's own meaning table.",
 "C08": "Every attribute name of the theory modules and Hypothesis ASCII text serve as unrecognised numerals. Every depth-0 substitution result is fed to all rules again and the general substitute's diminished substitutes must cycle by minor thirds. The recursion relation of substitute is compared as a collection of distinct answers.",
 "C09": "Integer beat units reach 2^5000. The numbers of 6-12 dotted values (within 1% of an undotted value) are analysed; the named base values and the module's base / tuplet tables are compared with the vocabulary. Every vocabulary value is also analysed as an exact Fraction. Every whole number 1..400 (int and float) is judged against the one recognised value whose 1% window it lies in.",
 "C10": "Comparison pairs also carry their own velocity and channel (half of them of equal pitch). The frequency of every spelling is compared with the pitch-number formula at three standard pitches; .name / .octave are assigned directly after the number was read. One frequency is read under four standard pitches in a row. One Note object reads walks of detuned neighbouring pitches. Integer and copy constructors are combined with out-of-range velocity / channel. Exact harmonics (1-16) of seven standard pitches are read back. A dynamics dict and a keyword are given together (both orders, constructor and set_note, in and out of range). One attribute given twice in a call (dict and keyword); the integer constructor with legal dynamics keeps its pitch.",
 "C11": "Generated tracks contain chords in non-ascending order and entries held in a user subclass of NoteContainer. change_octave / octave_up / octave_down also start from octaves below 0 reached by transposition. The octave clamp is exercised on all 35 names plus triple accidentals. Tracks with notes at the edge of an attached instrument's range are transposed beyond it. Octave changes and entry replacements happen between track-level operations; up / octave_up / down on one Note. Note-level transposition also starts at octaves -1..-3 and goes down from octave 0.",
 "C13": "place_notes_at is also given its beat as an int, including whole-number beats where no entry starts. Every ordered pair of meters is applied to one Bar object; empty lists and empty containers are placed as content. Bars filled to within 1/1344 of their length are followed by remove-last and exact refills. Runs of sounding entries shorter than a 128th are built and notes added at the beat of one of them. The identity current beat + space left = length is asserted in every meter, the unbounded one (length 0) included. Every accepted meter (units up to 2**39) yields a fresh and an emptied bar that must not be full. Meters with beat units 256..4096 are filled beat by beat with '+' and place_notes to exact capacity.",
 "C15": "Frequency lookups cover the top of the table and everything above it; notes returned by fft.find_notes are modified between calls; sibling scripts edit the lists / dictionaries instances hold in place (14 classes incl. the percussion instrument). Nested [name, octave(, dynamics)] argument items are compared deeply. Instrument ranges are set from note strings (list and tuple) in the sibling scripts and the argument checks. Sequencer play calls get the caller's channel list (percussion tracks included) among the argument checks. One text note given to 2-3 selected tracks of a composition, then eight kinds of in-place edit of one track: the other tracks must not move. The entries one from_chords call builds (with / without tuning, repeated names) must not share container or note objects, and editing one in place must leave the others alone. One scale object asked twelve kinds of question in several orders must answer like a fresh object.",
 "C16": "Generated scores also contain zero-bar tracks, sounding entries of 0 or 1 tick, unsorted chords and user subclasses of NoteContainer / MidiInstrument. Note-off events are compared including their velocity. Writers are called positionally, by keyword and with the documented defaults; generated bars may contain twin entries and one container object in two entries. Numbered instruments may be plain Instrument objects carrying instrument_nr. Names may contain NUL and control characters. Tracks may be on a MidiPercussionInstrument; compositions of 9-300 tracks; a track may end with a Bar object that already stands earlier in it. Bars holding one entry (rest, empty container or note of value 1, 2, 4 or the beat unit) in every meter are enumerated, written once and repeated. The reader decodes running status. Only numerator and denominator of time signatures are compared; annotation meta events are ignored.",
 "C17": "Generated scores also contain zero-bar tracks, unsorted chords and user subclasses; corrupted files include whole-tag swaps (the other chunk tag, foreign tags). MIDI instruments may carry a General MIDI name unrelated to their number; generated bars may contain twin entries and reused container objects. Numbered instruments may be plain Instrument objects carrying instrument_nr. Names may contain NUL and control characters. Tracks may be on a MidiPercussionInstrument; compositions of 9-300 tracks; one Bar object twice in a track. Bars holding one entry in every meter are enumerated.",
 "C18": "Generated music also contains unsorted chords and user subclasses of NoteContainer / MidiInstrument; control changes with non-integer numbers / values just outside 0..128. A second sequencer with its own observer exists during every case and must see nothing; play_Bar / play_Track are called positionally, by keyword and with defaults. Non-MIDI instruments may carry General MIDI names (still program 1). After the first pass the instruments are renamed and the tracks played again. One Bar object may stand twice in a track. Tracks of one-entry bars in every meter are enumerated. The return value is a dict whose bpm entry is the final tempo.",
 "C19": "Generated scores also contain unsorted chords and user subclasses of NoteContainer / MidiInstrument. Metadata texts keep leading / trailing blanks. Generated bars may contain twin entries and one container object in two entries (with different values). The LilyPond reader multiplies nested tuplet factors. Chords may hold two spellings of one pitch. Bars mixing tuplet kinds with 2-4 dotted short values (large divisions); one Bar object twice in a track. A third of the generated compositions carry an e-mail address; every combination of set / empty title, subtitle, author and e-mail is enumerated for both exporters. Tracks of one-entry bars in every meter are enumerated for both exporters.",
 "C20": "Compositions may hold one Bar object in two tracks on different tunings; the best chord fingering returned as a NoteContainer is validated through the notes' string / fret attributes. Chord entries in bars may carry a wished (string, fret) position on one note. Every note of a chord may carry a wished position (also stale ones); the documented Am example on the standard guitar anchors the chord-fingering clause. Entries that are unplayable only because of the fret span (with and without wished positions) must raise; the notes of the best chord fingering must be named as what their positions sound. find_frets is asked with every spelling of every pitch (across the octave line too).",
}
DEFAULT_NOTE = "Oracle = independent reference model under /verif/vlib/ref; bounds per DESIGN.md section 4."


def main():
    checks = []
    na = []
    ids = [json.loads(l)["id"] for l in open(os.path.join(V, "properties.jsonl"))]
    for pid in ids:
        mods = glob.glob(os.path.join(V, "props", pid.lower() + "_*.py"))
        if not mods or pid not in P:
            na.append({"property_id": pid, "reason": "not claimed yet: the check for this property is still under construction (see DESIGN.md section 4 for its design)"})
            continue
        text, note, tech = P[pid]
        if pid in ADD:
            text = text + " " + ADD[pid]
        checks.append({
            "property_id": pid,
            "quick_cmd": "./check %s --tier quick" % pid,
            "thorough_cmd": "./check %s --tier thorough" % pid,
            "evidence_file": "evidence/%s.json" % pid,
            "replay_cmd_template": "./check %s --replay {path}" % pid,
            "engine": "pbt",
            "level_claimed": {"category": "exploration", "text": text, "design_ref": "DESIGN.md section 4, %s" % pid},
            "level_note": note or DEFAULT_NOTE,
            "technique": tech,
        })
    m = {
        "version": 1,
        "setup_cmd": "%s tools/setup.py" % PY,
        "hooks": {
            "guard": "MINGUS_VERIF",
            "enable": "no source hooks: all properties are observed through the public API; checks import /repo's working tree directly (VERIF_REPO overrides the path)",
            "baseline_off_cmd": "cd /repo && /venv/bin/python -m pytest -ra -q -p no:cacheprovider --timeout=900 --continue-on-collection-errors",
            "source_commits": [],
            "add_only": True,
        },
        "engines": [{
            "name": "pbt", "path": "check",
            "serves_properties": [c["property_id"] for c in checks],
            "kind_free_text": "Hypothesis 6.168 property-based testing (seeded from VERIF_SEED, shrinking to replay files), bounded-exhaustive enumeration and atheris/libFuzzer coverage-guided campaigns (C01, C04, C06, C10), all against independent reference models in vlib/ref; sharded over 16 processes",
        }],
        "checks": checks,
        "notes": "Run ./check <ID> [--tier quick|thorough] [--replay FILE]. Exit 0 = held, 1 = VIOLATION line printed, 2 = harness error (never a verdict). Genuine defects repaired in /repo are listed as 'fixed:' lines in KNOWN_FINDINGS.txt.",
        "not_applicable": na,
    }
    with open(os.path.join(V, "MANIFEST.json"), "w") as f:
        json.dump(m, f, indent=1)
        f.write("\n")
    try:
        import jsonschema
        jsonschema.validate(m, json.load(open("/root/.vp/MANIFEST.schema.json")))
        print("MANIFEST.json valid;", len(checks), "checks,", len(na), "not yet claimed")
    except ImportError:
        print("MANIFEST.json written (jsonschema not available);", len(checks), "checks")


if __name__ == "__main__":
    main()
