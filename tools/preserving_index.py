#!/venv/bin/python
"""Regenerate preserving/INDEX.md from the meta.json files (one line per stored property-preserving change)."""
import json
import os

V = os.path.dirname(os.path.dirname(os.path.abspath(__file__)))
rows = []
for n in sorted(os.listdir(os.path.join(V, "preserving"))):
    p = os.path.join(V, "preserving", n, "meta.json")
    if not os.path.exists(p):
        continue
    m = json.load(open(p))
    notes = [l.strip("# ").strip() for l in m.get("notes", "").splitlines() if l.strip()]
    what = (notes[0] if notes else "")[:110]
    ran = ", ".join("%s=%d" % (k, v["exit"]) for k, v in m["checks"].items())
    if m.get("verdict"):
        status = "ALARM, and rightly so: " + m["verdict"][:160]
    elif m.get("quiet") and m.get("history"):
        status = "quiet now; " + m["history"][:160]
    elif m.get("quiet"):
        status = "quiet"
    else:
        status = "ALARM (unresolved)"
    rows.append("| %s | %s | %s | %s | %s |" % (n, ", ".join(os.path.basename(t) for t in m.get("touched", [])), what.replace("|", "/"), ran, status.replace("|", "/")))
with open(os.path.join(V, "preserving", "INDEX.md"), "w") as f:
    f.write("# Independently written property-preserving changes (tools/preserving.py)\n\n"
            "Each directory holds patch.diff, demo.py (checks the property's clauses from first principles, passes with and without the\n"
            "change, and prints OBSERVED: lines that differ), notes.md (clause-by-clause argument) and meta.json (what was run).\n"
            "The checks must stay quiet on these; an exit 1 is a false alarm to be repaired in the check unless the change does break\n"
            "a property after all (then the reason is recorded as the verdict).\n\n"
            "| change | files | what | quick checks run (exit) | status |\n|---|---|---|---|---|\n" + "\n".join(rows) + "\n")
print(len(rows), "entries")
