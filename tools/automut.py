#!/venv/bin/python
"""Systematic single-token mutants of the anchored source files, run against the repository's tests and then the checks.

  tools/automut.py --files mingus/core/notes.py [...] | --prop C01 [...]   [--max N] [--jobs 6] [--out FILE] [--ops cmp,arith,const,bool,neg,del]

For every mutation site (comparison operator, arithmetic operator, integer constant, and/or, negated condition, deleted
augmented assignment / expression statement) a scratch copy of /repo (mingus + tests, outside /repo and /verif, removed
afterwards) gets exactly that one token changed.  A mutant that fails the 190 tests is not interesting (the brief asks for
changes that pass them); the others are run against the quick tier of every property whose anchors name the file.  A mutant
that survives both is listed with its diff: it is either equivalent inside the statements or a gap in the checks.
This is a sensitivity tool, not a check: nothing here is registered in MANIFEST.json.
"""
import argparse
import ast
import json
import os
import re
import shutil
import subprocess
import sys
import tempfile
from concurrent.futures import ThreadPoolExecutor

V = os.path.dirname(os.path.dirname(os.path.abspath(__file__)))
PY = "/venv/bin/python"
REPO = "/repo"

CMP = {ast.Lt: "<=", ast.LtE: "<", ast.Gt: ">=", ast.GtE: ">", ast.Eq: "!=", ast.NotEq: "==", ast.In: "not in", ast.NotIn: "in",
       ast.Is: "is not", ast.IsNot: "is"}
CMP_TXT = {ast.Lt: "<", ast.LtE: "<=", ast.Gt: ">", ast.GtE: ">=", ast.Eq: "==", ast.NotEq: "!=", ast.In: "in", ast.NotIn: "not in",
           ast.Is: "is", ast.IsNot: "is not"}
ARI = {ast.Add: ("+", "-"), ast.Sub: ("-", "+"), ast.Mult: ("*", "//"), ast.FloorDiv: ("//", "*"), ast.Mod: ("%", "//"), ast.Div: ("/", "*")}


def offsets(src):
    starts = [0]
    for line in src.splitlines(True):
        starts.append(starts[-1] + len(line.encode("utf8")))
    return starts


def sites(path, ops):
    src = open(path, encoding="utf8").read()
    b = src.encode("utf8")
    st = offsets(src)
    tree = ast.parse(src)

    def pos(node, end=False):
        return st[(node.end_lineno if end else node.lineno) - 1] + (node.end_col_offset if end else node.col_offset)
    doc = set()
    for n in ast.walk(tree):
        if isinstance(n, (ast.FunctionDef, ast.ClassDef, ast.Module)) and n.body and isinstance(n.body[0], ast.Expr) and isinstance(getattr(n.body[0], "value", None), ast.Constant):
            doc.add(id(n.body[0].value))
    out = []

    def between(a_end, b_start, old, new, kind, line):
        seg = b[a_end:b_start].decode("utf8")
        m = re.search(r"(?<![<>=!])" + re.escape(old) + r"(?![=])" if old in ("<", ">", "=") else re.escape(old), seg)
        if not m:
            return
        s = a_end + len(seg[:m.start()].encode("utf8"))
        out.append((kind, line, s, s + len(old.encode("utf8")), new))
    for n in ast.walk(tree):
        if isinstance(n, ast.Compare) and "cmp" in ops:
            left = n.left
            for op, right in zip(n.ops, n.comparators):
                if type(op) in CMP:
                    between(pos(left, True), pos(right), CMP_TXT[type(op)], CMP[type(op)], "cmp", n.lineno)
                left = right
        elif isinstance(n, ast.BinOp) and type(n.op) in ARI and "arith" in ops:
            if isinstance(n.op, ast.Mod) and isinstance(n.left, ast.Constant) and isinstance(n.left.value, str):
                continue  # string formatting
            if isinstance(n.op, ast.Add) and any(isinstance(x, ast.Constant) and isinstance(x.value, str) for x in (n.left, n.right)):
                continue
            old, new = ARI[type(n.op)]
            between(pos(n.left, True), pos(n.right), old, new, "arith", n.lineno)
        elif isinstance(n, ast.AugAssign) and type(n.op) in ARI and "arith" in ops:
            old, new = ARI[type(n.op)]
            between(pos(n.target, True), pos(n.value), old + "=", new + "=", "arith", n.lineno)
        elif isinstance(n, ast.Constant) and isinstance(n.value, int) and not isinstance(n.value, bool) and id(n) not in doc and "const" in ops:
            out.append(("const", n.lineno, pos(n), pos(n, True), str(n.value + 1)))
            if n.value not in (0, 1):
                out.append(("const", n.lineno, pos(n), pos(n, True), str(n.value - 1)))
        elif isinstance(n, ast.BoolOp) and "bool" in ops:
            old, new = ("and", "or") if isinstance(n.op, ast.And) else ("or", "and")
            for a, c in zip(n.values, n.values[1:]):
                between(pos(a, True), pos(c), old, new, "bool", n.lineno)
        elif isinstance(n, (ast.If, ast.While)) and "neg" in ops:
            t = n.test
            out.append(("neg", n.lineno, pos(t), pos(t, True), "not (" + b[pos(t):pos(t, True)].decode("utf8") + ")"))
        elif isinstance(n, ast.AugAssign) and "del" in ops and n.lineno == n.end_lineno:
            out.append(("del", n.lineno, pos(n), pos(n, True), "pass"))
        elif isinstance(n, ast.Expr) and isinstance(n.value, ast.Call) and "del" in ops and n.lineno == n.end_lineno:
            out.append(("del", n.lineno, pos(n), pos(n, True), "pass"))
    out = sorted(set(out), key=lambda x: (x[2], x[4]))
    return b, out


def props_for(relfile):
    res = []
    for l in open(os.path.join(V, "properties.jsonl")):
        d = json.loads(l)
        if relfile in d["anchors"]["files"] and d["id"] != "C15":
            res.append(d["id"])
    return res or ["C15"]


def run_one(job):
    rel, b, (kind, line, s, e, new), props = job
    d = tempfile.mkdtemp(prefix="automut_", dir="/tmp")
    res = {"file": rel, "kind": kind, "line": line, "old": b[s:e].decode("utf8"), "new": new}
    try:
        shutil.copytree(os.path.join(REPO, "mingus"), os.path.join(d, "mingus"))
        shutil.copytree(os.path.join(REPO, "tests"), os.path.join(d, "tests"))
        mutated = b[:s] + new.encode("utf8") + b[e:]
        try:
            ast.parse(mutated.decode("utf8"))
        except SyntaxError:
            res["result"] = "invalid"
            return res
        with open(os.path.join(d, rel), "wb") as f:
            f.write(mutated)
        res["source_line"] = mutated.decode("utf8").splitlines()[line - 1].strip()[:160]
        env = dict(os.environ, PYTHONPATH=d, PYTHONDONTWRITEBYTECODE="1")
        try:
            t = subprocess.run([PY, "-m", "pytest", "-x", "-q", "-p", "no:cacheprovider", "--ignore", "tests/integration/test_fluidsynth.py", "tests"],
                               env=env, cwd=d, capture_output=True, text=True, timeout=90)
        except subprocess.TimeoutExpired:
            res["result"] = "killed-by-suite(timeout)"
            return res
        if t.returncode != 0:
            res["result"] = "killed-by-suite"
            return res
        env2 = dict(env, VERIF_REPO=d, VERIF_PROCS="3", VERIF_SEED="1")
        env2.pop("PYTHONPATH")
        res["checks"] = {}
        for pid in props:
            try:
                c = subprocess.run([os.path.join(V, "check"), pid, "--tier", "quick"], env=env2, cwd=V, capture_output=True, text=True, timeout=1500)
                rc = c.returncode
                sigs = sorted(set(re.findall(r"signature=(\S+)", c.stdout)))[:4]
            except subprocess.TimeoutExpired:
                rc, sigs = 124, []
            res["checks"][pid] = {"exit": rc, "signatures": sigs}
            if rc == 1:
                break
        rcs = [v["exit"] for v in res["checks"].values()]
        res["result"] = "caught" if 1 in rcs else ("harness-error" if any(r not in (0, 1) for r in rcs) else "survived")
        return res
    finally:
        shutil.rmtree(d, ignore_errors=True)


def main():
    ap = argparse.ArgumentParser()
    ap.add_argument("--files", nargs="*", default=[])
    ap.add_argument("--prop", nargs="*", default=[])
    ap.add_argument("--max", type=int, default=0)
    ap.add_argument("--every", type=int, default=1, help="take every k-th site")
    ap.add_argument("--jobs", type=int, default=5)
    ap.add_argument("--out", default="/tmp/automut.jsonl")
    ap.add_argument("--ops", default="cmp,arith,const,bool,neg,del")
    a = ap.parse_args()
    files = list(a.files)
    for pid in a.prop:
        for l in open(os.path.join(V, "properties.jsonl")):
            d = json.loads(l)
            if d["id"] == pid:
                files += [f for f in d["anchors"]["files"] if f not in files]
    jobs = []
    for rel in files:
        b, ss = sites(os.path.join(REPO, rel), a.ops.split(","))
        props = a.prop if a.prop else props_for(rel)
        ss = ss[::a.every]
        if a.max:
            ss = ss[:a.max]
        jobs += [(rel, b, s_, props) for s_ in ss]
    print("%d mutants over %d files" % (len(jobs), len(files)), file=sys.stderr)
    counts = {}
    with open(a.out, "a") as out, ThreadPoolExecutor(a.jobs) as ex:
        for r in ex.map(run_one, jobs):
            counts[r["result"]] = counts.get(r["result"], 0) + 1
            out.write(json.dumps(r) + "\n")
            out.flush()
            if r["result"] in ("survived", "harness-error"):
                print("%s %s:%d [%s] %r -> %r   %s" % (r["result"].upper(), r["file"], r["line"], r["kind"], r["old"], r["new"], r.get("source_line", "")), flush=True)
    print("SUMMARY", json.dumps(counts), flush=True)


if __name__ == "__main__":
    main()
