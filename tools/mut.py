#!/venv/bin/python
"""Sensitivity driver: apply a mutation to a scratch copy of /repo and run the suite + checks against it.

  tools/mut.py [--tier quick] --ids C13,C14 --file mingus/containers/bar.py --old 'A' --new 'B' [--count N]
  tools/mut.py --ids C13 --patch some.diff

Prints one summary line: MUTANT <desc> suite=<pass|FAIL> C13=<exit code>[sigs] ...
"""
import argparse
import os
import re
import shutil
import subprocess
import sys
import tempfile

ap = argparse.ArgumentParser()
ap.add_argument("--ids", required=True)
ap.add_argument("--file")
ap.add_argument("--old")
ap.add_argument("--new")
ap.add_argument("--count", type=int, default=1)
ap.add_argument("--patch")
ap.add_argument("--tier", default="quick")
ap.add_argument("--no-suite", action="store_true")
ap.add_argument("--keep", action="store_true")
ap.add_argument("--seed", default="1")
a = ap.parse_args()

V = os.path.dirname(os.path.dirname(os.path.abspath(__file__)))
d = tempfile.mkdtemp(prefix="mut_", dir="/tmp")
try:
    shutil.copytree("/repo/mingus", os.path.join(d, "mingus"))
    shutil.copytree("/repo/tests", os.path.join(d, "tests"))
    if a.patch:
        r = subprocess.run(["patch", "-p1", "-s", "-d", d, "-i", os.path.abspath(a.patch)], capture_output=True, text=True)
        if r.returncode != 0:
            print("MUTANT patch failed:", r.stdout, r.stderr)
            sys.exit(2)
        desc = os.path.basename(a.patch)
    else:
        p = os.path.join(d, a.file)
        s = open(p).read()
        if s.count(a.old) != a.count:
            print("MUTANT %s: pattern occurs %d times, expected %d" % (a.file, s.count(a.old), a.count))
            sys.exit(2)
        open(p, "w").write(s.replace(a.old, a.new))
        desc = "%s: %r -> %r" % (a.file, a.old[:50], a.new[:50])
    env = dict(os.environ, PYTHONPATH=d, PYTHONDONTWRITEBYTECODE="1")
    suite = "skipped"
    if not a.no_suite:
        r = subprocess.run(["/venv/bin/python", "-m", "pytest", "-q", "-p", "no:cacheprovider", "-x", "--ignore",
                            "tests/integration/test_fluidsynth.py", "tests"], cwd=d, env=env, capture_output=True, text=True)
        tail = r.stdout.strip().splitlines()[-1] if r.stdout.strip() else ""
        suite = "pass" if "190 passed" in tail else "FAIL(%s)" % tail[:60]
    out = ["MUTANT %s suite=%s" % (desc, suite)]
    for pid in a.ids.split(","):
        env2 = dict(os.environ, VERIF_REPO=d, VERIF_SEED=a.seed)
        r = subprocess.run([os.path.join(V, "check"), pid, "--tier", a.tier], cwd=V, env=env2, capture_output=True, text=True)
        sigs = re.findall(r"signature=(\S+)", r.stdout)
        out.append("%s=%d%s" % (pid, r.returncode, ("[" + ",".join(sigs[:4]) + "]") if sigs else ""))
        if r.returncode == 2:
            out.append("ERR:" + r.stderr[-300:].replace("\n", " | "))
    print(" ".join(out))
finally:
    if not a.keep:
        shutil.rmtree(d, ignore_errors=True)
    shutil.rmtree(os.path.join(V, "replays"), ignore_errors=True) if False else None
