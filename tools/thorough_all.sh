#!/bin/bash
# run every thorough check once (seed from $1, default 1); one summary line per property
s=${1:-1}
for id in C01 C02 C03 C04 C05 C06 C07 C08 C09 C10 C11 C12 C13 C14 C15 C16 C17 C18 C19 C20; do
  out=$(VERIF_SEED=$s ./check $id --tier thorough 2>&1); rc=$?
  echo "seed=$s $id rc=$rc $(echo "$out" | grep -E "^C[0-9]+ tier" | sed 's/.*evaluations/evaluations/')"
  if [ $rc -ne 0 ]; then echo "$out" | grep -E "VIOLATION|signature|case=|detail|HARNESS" | head -12; fi
done
