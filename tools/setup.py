#!/venv/bin/python
"""setup_cmd: make sure Hypothesis is importable by /venv/bin/python (offline), nothing else is needed."""
import os
import subprocess
import sys

V = os.path.dirname(os.path.dirname(os.path.abspath(__file__)))
try:
    import hypothesis
    print("hypothesis", hypothesis.__version__, "already importable")
except ImportError:
    deps = os.path.join(V, ".deps")
    rc = subprocess.call([sys.executable, "-m", "pip", "install", "-q", "--no-index", "--find-links",
                          "/opt/veriftools/wheels", "--target", deps, "hypothesis"])
    print("installed hypothesis into", deps, "rc", rc)
    if rc:
        sys.exit(rc)

# atheris (coverage-guided fuzzing tier) goes into /verif/.deps; the checks degrade gracefully without it
deps = os.path.join(V, ".deps")
if not os.path.isdir(os.path.join(deps, "atheris")):
    rc = subprocess.call([sys.executable, "-m", "pip", "install", "-q", "--no-index", "--find-links", "/opt/veriftools/wheels",
                          "--target", deps, "atheris"])
    print("installed atheris into", deps, "rc", rc)
else:
    print("atheris already present in", deps)
