"""Property C05 demo: every scale realises its defining step pattern; scale
recognition is exact.  Expected values come from first principles (pitch
arithmetic and letter names), never from another mingus call.

Exit status 0 and the word PASS when every clause holds, 1 otherwise.
The lines starting with OBSERVED: show behaviour the property does not state.
"""
from __future__ import print_function

import random
import sys

import mingus.core.keys as keys
import mingus.core.scales as scales

LETTERS = "CDEFGAB"
NATURAL = {"C": 0, "D": 2, "E": 4, "F": 5, "G": 7, "A": 9, "B": 11}

failures = []


def check(cond, msg):
    if not cond:
        failures.append(msg)


def pitch(note):
    return (NATURAL[note[0]] + note.count("#") - note.count("b")) % 12


def spell(tonic, pattern):
    """Heptatonic scale from first principles: consecutive letters, and the
    accidental that puts each letter on the required pitch."""
    res = [tonic]
    p = pitch(tonic)
    li = LETTERS.index(tonic[0])
    for step in pattern[:-1]:
        p = (p + step) % 12
        li = (li + 1) % 7
        letter = LETTERS[li]
        acc = (p - NATURAL[letter] + 6) % 12 - 6
        res.append(letter + "#" * acc + "b" * -acc)
    return res


PATTERNS = {
    "Ionian": [2, 2, 1, 2, 2, 2, 1],
    "Dorian": [2, 1, 2, 2, 2, 1, 2],
    "Phrygian": [1, 2, 2, 2, 1, 2, 2],
    "Lydian": [2, 2, 2, 1, 2, 2, 1],
    "Mixolydian": [2, 2, 1, 2, 2, 1, 2],
    "Aeolian": [2, 1, 2, 2, 1, 2, 2],
    "Locrian": [1, 2, 2, 1, 2, 2, 2],
    "Major": [2, 2, 1, 2, 2, 2, 1],
    "HarmonicMajor": [2, 2, 1, 2, 1, 3, 1],
    "NaturalMinor": [2, 1, 2, 2, 1, 2, 2],
    "HarmonicMinor": [2, 1, 2, 2, 1, 3, 1],
    "MelodicMinor": [2, 1, 2, 2, 2, 2, 1],
    "Bachian": [2, 1, 2, 2, 2, 2, 1],
    "MinorNeapolitan": [1, 2, 2, 2, 1, 3, 1],
    "Chromatic": [1] * 12,
    "WholeTone": [2] * 6,
    "Octatonic": [2, 1] * 4,
}
NATURAL_MINOR = PATTERNS["NaturalMinor"]
LOWERED_SECOND_MINOR = [1, 2, 2, 2, 1, 2, 2]

MAJOR_TONICS = ["Cb", "Gb", "Db", "Ab", "Eb", "Bb", "F", "C", "G", "D", "A", "E", "B", "F#", "C#"]
MINOR_TONICS = ["Ab", "Eb", "Bb", "F", "C", "G", "D", "A", "E", "B", "F#", "C#", "G#", "D#", "A#"]
ANY_NOTE = [l + a for l in LETTERS for a in ("", "#", "b")]
CHROMATIC_KEYS = MAJOR_TONICS + [t[0].lower() + t[1:] for t in MINOR_TONICS]

MAJOR_FAMILY = ["Major", "HarmonicMajor"]
MINOR_FAMILY = ["NaturalMinor", "HarmonicMinor", "MelodicMinor", "Bachian", "MinorNeapolitan"]


def tonics_for(cls_name):
    if cls_name in MAJOR_FAMILY:
        return MAJOR_TONICS
    if cls_name in MINOR_FAMILY:
        return MINOR_TONICS
    if cls_name == "Chromatic":
        return CHROMATIC_KEYS
    return ANY_NOTE


def steps(note_list):
    return [(pitch(b) - pitch(a)) % 12 for a, b in zip(note_list, note_list[1:])]


def check_scales(max_octaves=3):
    for cls_name, pattern in sorted(PATTERNS.items()):
        cls = getattr(scales, cls_name)
        for t in tonics_for(cls_name):
            tonic = t[0].upper() + t[1:]
            for n in range(1, max_octaves + 1):
                s = cls(t, n)
                tag = "%s(%r, %d)" % (cls_name, t, n)
                asc = s.ascending()
                desc = s.descending()
                # ascending: the pattern n times, tonic at both ends
                check(steps(asc) == pattern * n, tag + " ascending steps %r" % steps(asc))
                check(len(asc) == len(pattern) * n + 1, tag + " ascending length")
                check(asc[0] == tonic and asc[-1] == tonic, tag + " ascending ends %r" % asc)
                if len(pattern) == 7:
                    expected = spell(tonic, pattern) * n + [tonic]
                    check(
                        [x[0] for x in asc] == [x[0] for x in expected],
                        tag + " letters %r" % asc,
                    )
                    check(asc == expected, tag + " spelling %r" % asc)
                # descending
                if cls_name == "MelodicMinor":
                    exp_desc = list(reversed(spell(tonic, NATURAL_MINOR) * n + [tonic]))
                    check(desc == exp_desc, tag + " descending %r" % desc)
                elif cls_name == "MinorNeapolitan":
                    exp_desc = list(reversed(spell(tonic, LOWERED_SECOND_MINOR) * n + [tonic]))
                    check(desc == exp_desc, tag + " descending %r" % desc)
                elif cls_name == "Chromatic":
                    # the library spells the chromatic scale with sharps going
                    # up and flats going down; the reverse holds for the pitches
                    check(
                        [pitch(x) for x in desc] == [pitch(x) for x in reversed(asc)],
                        tag + " descending pitches %r" % desc,
                    )
                    check(desc[0] == tonic and desc[-1] == tonic, tag + " descending ends")
                else:
                    check(desc == list(reversed(asc)), tag + " descending %r" % desc)
                # degrees against both lists
                up = asc[:-1]
                down = list(reversed(desc))[:-1]
                for d in range(1, len(up) + 1):
                    check(s.degree(d) == up[d - 1], tag + " degree %d" % d)
                    check(s.degree(d, "a") == up[d - 1], tag + " degree %d a" % d)
                    check(s.degree(d, "d") == down[d - 1], tag + " degree %d d" % d)
                # length
                check(len(s) == len(asc), tag + " len")


def check_equality():
    objs = []
    for cls_name in sorted(PATTERNS):
        cls = getattr(scales, cls_name)
        for t in ("C", "A", "Eb", "F#"):
            if cls_name == "Chromatic":
                t = {"C": "C", "A": "a", "Eb": "Eb", "F#": "f#"}[t]
            elif t not in tonics_for(cls_name):
                continue
            for n in (1, 2):
                objs.append(cls(t, n))
    for a in objs:
        for b in objs:
            same = a.ascending() == b.ascending() and a.descending() == b.descending()
            check((a == b) is same, "%r == %r should be %r" % (a, b, same))
            check((a != b) is (not same), "%r != %r should be %r" % (a, b, not same))
    # a few pairs known from theory
    check(scales.Major("Bb") == scales.Ionian("Bb"), "Bb major is Bb ionian")
    check(scales.NaturalMinor("E") == scales.Aeolian("E"), "E natural minor is E aeolian")
    check(scales.MelodicMinor("A") != scales.Bachian("A"), "melodic minor descends differently")
    check(scales.Major("C") != scales.Major("C", 2), "octave count matters")


def recognition_spec():
    """All major- and minor-family scales over the 15 key pairs:
    name -> (ascending note set, descending note set)."""
    spec = {}
    for t in MAJOR_TONICS:
        spec["%s major" % t] = (set(spell(t, PATTERNS["Major"])),) * 2
        spec["%s harmonic major" % t] = (set(spell(t, PATTERNS["HarmonicMajor"])),) * 2
    for t in MINOR_TONICS:
        nat = set(spell(t, NATURAL_MINOR))
        spec["%s natural minor" % t] = (nat, nat)
        spec["%s harmonic minor" % t] = (set(spell(t, PATTERNS["HarmonicMinor"])),) * 2
        spec["%s melodic minor" % t] = (set(spell(t, PATTERNS["MelodicMinor"])), nat)
        spec["%s Bachian" % t] = (set(spell(t, PATTERNS["Bachian"])),) * 2
        spec["%s minor Neapolitan" % t] = (
            set(spell(t, PATTERNS["MinorNeapolitan"])),
            set(spell(t, LOWERED_SECOND_MINOR)),
        )
    return spec


def check_recognition():
    spec = recognition_spec()
    check(len(spec) == 105, "15 x 7 scales in the specification")
    rnd = random.Random(505)
    queries = [["A", "Bb", "E", "F#", "G"], ["C"], ["C", "E", "G"], ["C", "C#", "D"], ["E#"], ["Fb", "Cb"]]
    names = sorted(spec)
    for _ in range(60):
        up, down = spec[rnd.choice(names)]
        pool = sorted(rnd.choice([up, down]))
        queries.append(rnd.sample(pool, rnd.randint(1, 7)))
    universe = [l + a for l in LETTERS for a in ("", "#", "b", "##", "bb")]
    for _ in range(40):
        queries.append(rnd.sample(universe, rnd.randint(1, 5)))
    for q in queries:
        want = set(
            name for name, (up, down) in spec.items() if set(q) <= up or set(q) <= down
        )
        got = scales.determine(list(q))
        check(set(got) == want, "determine(%r): %r, expected %r" % (q, sorted(got), sorted(want)))


def run_property_checks():
    check_scales()
    check_equality()
    check_recognition()


def describe(make):
    """Say where (and how) a scale on an unusable tonic is refused."""
    try:
        s = make()
    except Exception as e:
        return "refused by the constructor with %s: %s" % (type(e).__name__, e)
    try:
        s.ascending()
    except Exception as e:
        return "constructor accepts it; ascending() fails with %s: %s" % (type(e).__name__, e)
    return "accepted"


def observed():
    # The property quantifies over tonics that are valid for the class; it
    # does not say when, or with which message, another tonic is refused.
    print("OBSERVED: Major('E#') " + describe(lambda: scales.Major("E#")))
    print("OBSERVED: HarmonicMinor('Fb') " + describe(lambda: scales.HarmonicMinor("Fb")))
    print("OBSERVED: WholeTone('H') " + describe(lambda: scales.WholeTone("H")))
    print("OBSERVED: Dorian('C-4') " + describe(lambda: scales.Dorian("C-4")))
    print("OBSERVED: (same on both trees) Major('c') " + describe(lambda: scales.Major("c")))
    print("OBSERVED: (same on both trees) Major('F#') " + describe(lambda: scales.Major("F#")))


if __name__ == "__main__":
    run_property_checks()
    observed()
    if failures:
        for f in failures[:20]:
            print("FAIL:", f)
        print("FAIL (%d checks)" % len(failures))
        sys.exit(1)
    print("PASS")
    sys.exit(0)
