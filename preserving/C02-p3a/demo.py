"""Demo for change C02/a: intervals.unison() works for every valid note name.

(i)  checks property C02 from first principles and prints PASS / FAIL;
(ii) prints OBSERVED: lines that show what the change alters.
The tree is chosen by the caller through PYTHONPATH.
"""
from __future__ import print_function

import itertools
import sys

from mingus.core import intervals, notes

LETTERS = "CDEFGAB"
NATURAL = {"C": 0, "D": 2, "E": 4, "F": 5, "G": 7, "A": 9, "B": 11}

# constructor name -> (letters to go up, semitones above the input)
CONSTRUCTORS = {
    "minor_unison": (0, -1),
    "major_unison": (0, 0),
    "augmented_unison": (0, 1),
    "minor_second": (1, 1),
    "major_second": (1, 2),
    "minor_third": (2, 3),
    "major_third": (2, 4),
    "minor_fourth": (3, 4),
    "major_fourth": (3, 5),
    "perfect_fourth": (3, 5),
    "minor_fifth": (4, 6),
    "major_fifth": (4, 7),
    "perfect_fifth": (4, 7),
    "minor_sixth": (5, 8),
    "major_sixth": (5, 9),
    "minor_seventh": (6, 10),
    "major_seventh": (6, 11),
}
assert len(CONSTRUCTORS) == 17


def pitch_class(name):
    return (NATURAL[name[0]] + name.count("#") - name.count("b")) % 12


def well_formed(name):
    return (
        isinstance(name, str)
        and len(name) >= 1
        and name[0] in LETTERS
        and all(c in "#b" for c in name[1:])
    )


def accidental_strings(max_mixed, max_run):
    out = [""]
    for n in range(1, max_mixed + 1):
        out.extend("".join(p) for p in itertools.product("#b", repeat=n))
    for n in range(max_mixed + 1, max_run + 1):
        out.append("#" * n)
        out.append("b" * n)
    return out


failures = []


def check(cond, msg):
    if not cond and len(failures) < 20:
        failures.append(msg)
    return cond


def check_constructors():
    names = [l + a for l in LETTERS for a in accidental_strings(4, 14)]
    for name in names:
        for fname, (steps, semis) in sorted(CONSTRUCTORS.items()):
            res = getattr(intervals, fname)(name)
            tag = "%s(%r) = %r" % (fname, name, res)
            if not check(well_formed(res), tag + ": not a valid name"):
                continue
            want_letter = LETTERS[(LETTERS.index(name[0]) + steps) % 7]
            check(res[0] == want_letter, tag + ": letter should be " + want_letter)
            check(
                (pitch_class(res) - pitch_class(name)) % 12 == semis % 12,
                tag + ": should be %d semitones up" % semis,
            )
            check(not ("#" in res and "b" in res), tag + ": mixes # and b")
            check(len(res) - 1 <= 6, tag + ": more than six accidentals")
            check(notes.is_valid_note(res), tag + ": library calls it invalid")
    return len(names)


def check_measure_and_consonance():
    names = [l + a for l in LETTERS for a in accidental_strings(2, 2)]
    names += ["C#######", "Fbbbbbbbb", "B#b#b", "E#############"]
    for a in names:
        for b in names:
            m = (pitch_class(b) - pitch_class(a)) % 12
            tag = "(%r, %r)" % (a, b)
            check(intervals.measure(a, b) == m, "measure" + tag + " != %d" % m)
            perfect5 = m in (0, 5, 7)
            perfect = m in (0, 7)
            imperfect = m in (3, 4, 8, 9)
            check(intervals.is_perfect_consonant(a, b) == perfect5, "perfect" + tag)
            check(intervals.is_perfect_consonant(a, b, True) == perfect5, "perfect+4" + tag)
            check(intervals.is_perfect_consonant(a, b, False) == perfect, "perfect-4" + tag)
            check(intervals.is_imperfect_consonant(a, b) == imperfect, "imperfect" + tag)
            check(intervals.is_consonant(a, b) == (perfect5 or imperfect), "consonant" + tag)
            check(intervals.is_consonant(a, b, False) == (perfect or imperfect), "consonant-4" + tag)
            # dissonant = not consonant (fourths consonant unless asked otherwise)
            check(intervals.is_dissonant(a, b) == (not (perfect5 or imperfect)), "dissonant" + tag)
            check(intervals.is_dissonant(a, b, True) == (not (perfect or imperfect)), "dissonant+4" + tag)
    return len(names)


def show(label, fn, *args):
    try:
        val = repr(fn(*args))
    except Exception as e:  # noqa - we want to show whatever happens
        val = "raises %s: %s" % (type(e).__name__, e)
    print("OBSERVED: %s -> %s" % (label, val))


def main():
    n1 = check_constructors()
    n2 = check_measure_and_consonance()
    print("checked %d names x 17 constructors, %d x %d ordered pairs" % (n1, n2, n2))

    # What the change alters: the plain (diatonic) unison() - NOT one of the
    # 17 named constructors - for notes that are not also key names.
    for n in ("C", "Gb", "G#", "Fb", "B#", "C##", "E#b", "Dbbb"):
        show("unison(%r)" % n, intervals.unison, n)
    show("unison('Fb', 'C')", intervals.unison, "Fb", "C")
    show("unison('H')", intervals.unison, "H")

    if failures:
        for f in failures:
            print("VIOLATION:", f)
        print("FAIL")
        return 1
    print("PASS")
    return 0


if __name__ == "__main__":
    sys.exit(main())
