# -*- coding: utf-8 -*-
"""Demo for change C13/a (remove_last_entry on an empty Bar).

(i)  checks property C13 clause by clause against an exact Fraction model
     written from first principles (prints PASS / exits 0 when all hold);
(ii) prints OBSERVED: lines showing what the change alters.
"""
from __future__ import print_function

import itertools
import random
import sys
from fractions import Fraction as F

from mingus.containers.bar import Bar
from mingus.containers.note import Note
from mingus.containers.note_container import NoteContainer

TOL = 1e-9
failures = []


def check(cond, msg):
    if not cond:
        failures.append(msg)


# ---------------------------------------------------------------- vocabulary
# (value handed to the library, exact length in whole notes)
VOCAB = []
for n in (1, 2, 4, 8, 16, 32, 64):
    VOCAB.append((n, F(1, n)))  # base value: 1/n
for n in (2, 4, 8, 16):
    VOCAB.append((float(F(2 * n, 3)), F(3, 2 * n)))  # dotted: 1.5 times as long
    VOCAB.append((float(F(4 * n, 7)), F(7, 4 * n)))  # double dotted: 1.75 times
for n in (2, 4, 8, 16):
    VOCAB.append((n * 3 / 2.0, F(2, 3 * n)))  # triplet: 3 in the time of 2
    VOCAB.append((n * 5 / 4.0, F(4, 5 * n)))  # quintuplet: 5 in the time of 4
    VOCAB.append((n * 7 / 4.0, F(4, 7 * n)))  # septuplet: 7 in the time of 4

METERS = [(4, 4), (3, 4), (2, 2), (6, 8), (5, 8), (7, 8), (2, 4), (1, 1), (12, 16), (0, 0)]


def bar_length(meter):
    return F(0) if meter == (0, 0) else F(meter[0], meter[1])


def names(content):
    if content is None:
        return None
    return sorted((x.name, x.octave) for x in content)


def snapshot(b):
    return (
        [(e[0], e[1], names(e[2])) for e in b.bar],
        b.current_beat,
        b.length,
        b.meter,
    )


def verify(b, meter, model, where):
    """model: list of (value, exact length, expected content or None)."""
    L = bar_length(meter)
    total = sum((m[1] for m in model), F(0))
    check(len(b) == len(model) and len(b.bar) == len(model), "%s: entry count" % where)
    start = F(0)
    for e, m in zip(b.bar, model):
        check(abs(e[0] - float(start)) < TOL, "%s: start beat %r != %s" % (where, e[0], start))
        check(e[1] == m[0], "%s: value %r != %r" % (where, e[1], m[0]))
        if m[2] is None:
            check(e[2] is None, "%s: rest must stay None" % where)
        else:
            check(isinstance(e[2], NoteContainer), "%s: content is no NoteContainer" % where)
            check(names(e[2]) == sorted(m[2]), "%s: content %r != %r" % (where, names(e[2]), m[2]))
        start += m[1]
    check(abs(b.current_beat - float(total)) < TOL, "%s: current beat" % where)
    check(abs(b.current_beat + b.space_left() - float(L)) < TOL, "%s: beat + space left" % where)
    check(abs(b.length - float(L)) < TOL, "%s: length" % where)
    remaining = L - total
    if meter == (0, 0):
        exp_full = False  # never zero remaining on a non-empty unbounded bar
    else:
        if 0 < remaining <= F(2, 1000):
            return  # inside the stated thousandth-of-a-whole-note margin: either answer
        exp_full = len(model) > 0 and remaining == 0
    check(b.is_full() == exp_full, "%s: is_full %r != %r" % (where, b.is_full(), exp_full))


CONTENTS = [
    ("C", [("C", 4)]),
    (Note("E", 5), [("E", 5)]),
    (["C", "E", "G"], [("C", 4), ("E", 4), ("G", 4)]),
    ([Note("A", 3), Note("C", 4)], [("A", 3), ("C", 4)]),
    (NoteContainer(["D", "F#"]), [("D", 4), ("F#", 4)]),
]


def run(meter, ops, where):
    """ops: ('place', vocab index, content index) | ('rest', i) | ('plus', c) | ('remove',)"""
    b = Bar("C", meter)
    L = bar_length(meter)
    model = []
    for op in ops:
        total = sum((m[1] for m in model), F(0))
        if op[0] == "remove":
            if not model:
                continue  # nothing to remove: not a step of the property
            b.remove_last_entry()
            model.pop()
        else:
            if op[0] == "place":
                value, ln = VOCAB[op[1]]
                given, exp = CONTENTS[op[2]]
                call = lambda: b.place_notes(given, value)
            elif op[0] == "rest":
                value, ln = VOCAB[op[1]]
                exp = None
                call = lambda: b.place_rest(value)
            else:  # '+' places one beat unit (a quarter in the unbounded meter)
                unit = meter[1] if meter[1] != 0 else 4
                value, ln = unit, F(1, unit)
                given, exp = CONTENTS[op[1]]
                call = lambda: b + given
            accept = meter == (0, 0) or total + ln <= L
            before = snapshot(b)
            got = call()
            check(bool(got) == accept, "%s: accepted %r, expected %r" % (where, got, accept))
            if accept:
                model.append((value, ln, exp))
            else:
                check(snapshot(b) == before, "%s: refused placement changed the bar" % where)
        verify(b, meter, model, where)
    return b, model


# ------------------------------------------------ exhaustive, depth 3, small alphabet
small = [0, 2, 3, 7, 15, 16]  # whole, quarter, eighth, dotted half, half-note triplet (3), half-note quintuplet (2.5)
alphabet = (
    [("place", i, i % len(CONTENTS)) for i in small]
    + [("rest", i) for i in small]
    + [("plus", 2), ("remove",)]
)
for meter in METERS:
    for ops in itertools.product(alphabet, repeat=3):
        run(meter, ops, "exh %s %s" % (meter, ops))

# ------------------------------------------------ fills to capacity
for meter in METERS:
    if meter == (0, 0):
        continue
    for i, (value, ln) in enumerate(VOCAB):
        n = int(bar_length(meter) / ln)
        ops = [("place", i, 0)] * (n + 2)
        b, model = run(meter, ops, "fill %s x %r" % (meter, value))
        check(len(model) == n, "fill %s with %r: %d entries, expected %d" % (meter, value, len(b), n))

# ------------------------------------------------ long random histories
rnd = random.Random(13)
for k in range(150):
    meter = rnd.choice(METERS)
    ops = []
    for _ in range(60):
        r = rnd.random()
        if r < 0.45:
            ops.append(("place", rnd.randrange(len(VOCAB)), rnd.randrange(len(CONTENTS))))
        elif r < 0.65:
            ops.append(("rest", rnd.randrange(len(VOCAB))))
        elif r < 0.8:
            ops.append(("plus", rnd.randrange(len(CONTENTS))))
        else:
            ops.append(("remove",))
    run(meter, ops, "rnd %d %s" % (k, meter))

# ------------------------------------------------ index assignment / place_notes_at
b = Bar("C", (4, 4))
b.place_notes("C", 4)
b.place_rest(8)
b.place_notes(["E", "G"], 8)
b.place_notes("A", 2)
model = [(4, F(1, 4), [("C", 4)]), (8, F(1, 8), None), (8, F(1, 8), [("E", 4), ("G", 4)]), (2, F(1, 2), [("A", 4)])]
verify(b, (4, 4), model, "edit/0")
b[1] = ["D", "F"]
model[1] = (8, F(1, 8), [("D", 4), ("F", 4)])
verify(b, (4, 4), model, "edit/setitem list")
b[0] = Note("B", 3)
model[0] = (4, F(1, 4), [("B", 3)])
verify(b, (4, 4), model, "edit/setitem Note")
b[3] = None
model[3] = (2, F(1, 2), None)
verify(b, (4, 4), model, "edit/setitem rest")
b.place_notes_at("B", 0.375)  # the entry that starts after 1/4 + 1/8
model[2] = (8, F(1, 8), [("E", 4), ("G", 4), ("B", 4)])
verify(b, (4, 4), model, "edit/place_notes_at")

# ------------------------------------------------ set_meter
for count in (1, 2, 3, 4, 5, 6, 7, 9, 12):
    for unit in range(0, 130):
        b = Bar()
        power_of_two = unit in (1, 2, 4, 8, 16, 32, 64, 128)
        try:
            b.set_meter((count, unit))
            ok = True
        except Exception:
            ok = False
        check(ok == power_of_two, "set_meter(%r): accepted %r" % ((count, unit), ok))
        if ok and power_of_two:
            check(b.meter == (count, unit), "set_meter: meter attribute")
            check(abs(b.length - count / float(unit)) < TOL, "set_meter: length")
b = Bar()
b.set_meter((0, 0))
check(b.meter == (0, 0) and b.length == 0, "set_meter((0, 0))")

# ------------------------------------------------ what the change alters
def observe():
    b = Bar("C", (3, 4))
    try:
        r = b.remove_last_entry()
        print("OBSERVED: remove_last_entry() on an empty Bar -> returned %r; entries=%r beat=%r"
              % (r, b.bar, b.current_beat))
    except Exception as e:
        print("OBSERVED: remove_last_entry() on an empty Bar -> raised %s(%s); entries=%r beat=%r"
              % (type(e).__name__, e, b.bar, b.current_beat))
    b.place_notes("C", 4)
    undone = 0
    try:
        for _ in range(3):  # undo more often than there are entries
            b.remove_last_entry()
            undone += 1
        print("OBSERVED: three undos after one placement -> all %d calls returned" % undone)
    except Exception as e:
        print("OBSERVED: three undos after one placement -> call %d raised %s"
              % (undone + 1, type(e).__name__))


observe()

if failures:
    for f in failures[:20]:
        print("FAIL:", f)
    print("FAIL (%d violations)" % len(failures))
    sys.exit(1)
print("PASS")
sys.exit(0)
