"""Demo for change C11/b: octaves and octave differences are normalised to whole numbers.

(i)  checks the clauses of property C11 from first principles (own pitch
     arithmetic, no second mingus call as oracle) -> prints PASS / FAIL.
(ii) prints OBSERVED: lines showing the behaviour the change alters (octaves
     or octave differences given as float / str / fraction instead of int).
"""
from __future__ import print_function

import random
import sys

from mingus.containers import Bar, Note, NoteContainer, Track

LETTERS = "CDEFGAB"
BASE = {"C": 0, "D": 2, "E": 4, "F": 5, "G": 7, "A": 9, "B": 11}
MAJOR = [0, 2, 4, 5, 7, 9, 11]  # size of 1, 2, ... 7 (major / perfect)
ACCS = ["", "#", "b", "##", "bb"]
NAMES = [l + a for l in LETTERS for a in ACCS]
SHORTHANDS = [a + str(d) for d in range(1, 8) for a in ACCS]  # 35

failures = []


def check(cond, msg):
    if not cond:
        failures.append(msg)


def acc_of(name):
    return name.count("#") - name.count("b")


def pitch(name, octave):
    return 12 * octave + BASE[name[0]] + acc_of(name)


def spell(letter, acc):
    return letter + "#" * acc + "b" * -acc


def size_of(sh):
    return MAJOR[int(sh[-1]) - 1] + sh.count("#") - sh.count("b")


def ref_transpose(name, octave, sh, up):
    """Reference: letter moves by the interval number, pitch by the size."""
    steps = int(sh[-1]) - 1
    semis = size_of(sh)
    sign = 1 if up else -1
    letter = LETTERS[(LETTERS.index(name[0]) + sign * steps) % 7]
    target = pitch(name, octave) + sign * semis
    acc = (target - BASE[letter]) % 12
    if acc > 6:
        acc -= 12
    new_octave = (target - BASE[letter] - acc) // 12
    return spell(letter, acc), new_octave


def ref_augment(name):
    return spell(name[0], acc_of(name) + 1)


def ref_diminish(name):
    return spell(name[0], acc_of(name) - 1)


DOMAIN = [sh for sh in SHORTHANDS if 0 <= size_of(sh) <= 11]

# ---- clause 1: single notes ------------------------------------------------
for name in NAMES:
    for octave in range(0, 9):
        for sh in DOMAIN:
            for up in (True, False):
                if not up and octave == 0:
                    continue
                n = Note(name, octave)
                p0 = pitch(name, octave)
                n.transpose(sh, up)
                want_name, want_oct = ref_transpose(name, octave, sh, up)
                sign = 1 if up else -1
                tag = "%s-%d %s %s" % (name, octave, sh, "up" if up else "down")
                check(int(n) == p0 + sign * size_of(sh), "pitch " + tag)
                check(pitch(n.name, n.octave) == p0 + sign * size_of(sh), "pitch2 " + tag)
                check(
                    n.name[0] == LETTERS[(LETTERS.index(name[0]) + sign * (int(sh[-1]) - 1)) % 7],
                    "letter " + tag,
                )
                check((n.name, n.octave) == (want_name, want_oct), "spelling/octave " + tag)
                n.transpose(sh, not up)
                check((n.name, n.octave) == (name, octave), "round trip " + tag)

# ---- clause 3: octave never below 0 ------------------------------------------
for octave in range(0, 6):
    for diff in range(-8, 4):
        n = Note("E", octave)
        n.change_octave(diff)
        check(n.octave == max(0, octave + diff), "change_octave %d %+d" % (octave, diff))
n = Note("C", 0)
n.octave_down()
check(n.octave == 0, "octave_down at 0")
n.octave_up()
check(n.octave == 1, "octave_up")

# ---- clause 2: containers, bars, tracks ---------------------------------------
rnd = random.Random(1105)


def random_track():
    t = Track()
    for _ in range(rnd.randint(2, 4)):
        b = Bar("C", (4, 4))
        while not b.is_full():
            dur = rnd.choice([d for d in [1, 2, 4, 8, 16] if 1.0 / d <= b.space_left() + 1e-9])
            kind = rnd.random()
            if kind < 0.25:
                what = None
            elif kind < 0.6:
                what = Note(rnd.choice(NAMES), rnd.randint(2, 6))
            else:
                base = rnd.randint(2, 5)
                what = NoteContainer(
                    [Note(rnd.choice(NAMES), base + i) for i in range(rnd.randint(2, 4))]
                )
            check(b.place_notes(what, dur), "place_notes")
        t.add_bar(b)
    return t


def snapshot(track):
    res = []
    for bar in track.bars:
        row = []
        for beat, dur, nc in bar.bar:
            row.append((beat, dur, None if nc is None else [(x.name, x.octave) for x in nc.notes]))
        res.append(row)
    return res


def same(snap, model):
    """Beats, durations and rests equal; every note equal in letter and pitch.

    The exact spelling (hence the octave number) is compared too, unless the
    note carries six or more accidentals: there the statement leaves open
    whether e.g. six flats or six sharps one octave lower are written.
    """
    if [[(b, d, n is None or len(n)) for b, d, n in row] for row in snap] != [
        [(b, d, n is None or len(n)) for b, d, n in row] for row in model
    ]:
        return False
    for row1, row2 in zip(snap, model):
        for (_, _, notes1), (_, _, notes2) in zip(row1, row2):
            for (nm1, o1), (nm2, o2) in zip(notes1 or [], notes2 or []):
                if (nm1[0], pitch(nm1, o1)) != (nm2[0], pitch(nm2, o2)):
                    return False
                if nm1 != spell(nm1[0], acc_of(nm1)):
                    return False
                if abs(acc_of(nm2)) < 6 and (nm1, o1) != (nm2, o2):
                    return False
    return True


def model_apply(snap, fn):
    return [
        [(beat, dur, None if notes is None else [fn(nm, o) for nm, o in notes]) for beat, dur, notes in row]
        for row in snap
    ]


for trial in range(40):
    t = random_track()
    model = snapshot(t)
    for step in range(rnd.randint(1, 6)):
        op = rnd.choice(["transpose", "transpose", "augment", "diminish"])
        level = rnd.choice(["track", "bar", "container"])
        if op == "transpose":
            sh, up = rnd.choice(DOMAIN), rnd.choice([True, False])
            fn = lambda nm, o, sh=sh, up=up: ref_transpose(nm, o, sh, up)
            args = (sh, up)
        elif op == "augment":
            fn = lambda nm, o: (ref_augment(nm), o)
            args = ()
        else:
            fn = lambda nm, o: (ref_diminish(nm), o)
            args = ()
        # stay inside the statement's domain: names with at most five accidentals
        if any(
            abs(acc_of(nm)) > 5
            for row in model_apply(model, fn)
            for _, _, notes in row
            for nm, _ in notes or []
        ):
            continue
        if level == "track":
            getattr(t, op)(*args)
            model = model_apply(model, fn)
        elif level == "bar":
            i = rnd.randrange(len(t.bars))
            getattr(t.bars[i], op)(*args)
            model[i] = model_apply([model[i]], fn)[0]
        else:
            i = rnd.randrange(len(t.bars))
            entries = [k for k, e in enumerate(t.bars[i].bar) if e[2] is not None]
            if not entries:
                continue
            k = rnd.choice(entries)
            getattr(t.bars[i].bar[k][2], op)(*args)
            beat, dur, notes = model[i][k]
            model[i][k] = (beat, dur, [fn(nm, o) for nm, o in notes])
        check(same(snapshot(t), model), "trial %d step %d: %s at %s level" % (trial, step, op, level))

# augment then diminish is the identity on names, at every level
for trial in range(10):
    t = random_track()
    before = snapshot(t)
    t.augment()
    check(same(snapshot(t), model_apply(before, lambda nm, o: (ref_augment(nm), o))), "track augment")
    t.diminish()
    check(snapshot(t) == before, "track augment+diminish identity")
    for b in t.bars:
        b.augment()
        b.diminish()
    check(snapshot(t) == before, "bar augment+diminish identity")
for name in NAMES:
    n = Note(name, 4)
    n.augment()
    check(n.name == ref_augment(name), "note augment " + name)
    n.diminish()
    check((n.name, n.octave) == (name, 4), "note augment+diminish " + name)

# ---- (ii) what the change alters ------------------------------------------------
from fractions import Fraction


def show(label, fn):
    try:
        res = fn()
    except Exception as e:  # noqa
        res = "%s: %s" % (type(e).__name__, e)
    print("OBSERVED: %s -> %s" % (label, res))


def describe(n):
    return "name=%r octave=%r (%s) int=%r" % (n.name, n.octave, type(n.octave).__name__, int(n))


def co(octave, diff):
    n = Note("C", octave)
    try:
        n.change_octave(diff)
    except Exception as e:  # noqa
        return "%s; note left as octave=%r" % (type(e).__name__, n.octave)
    return "octave=%r (%s)" % (n.octave, type(n.octave).__name__)


show("Note('C', 4.0)", lambda: describe(Note("C", 4.0)))
show("Note('C', '5')", lambda: describe(Note("C", "5")))
show("Note('C', 4.5)", lambda: describe(Note("C", 4.5)))
show("Note('C', 4).change_octave(1.0)", lambda: co(4, 1.0))
show("Note('C', 4).change_octave(Fraction(-2))", lambda: co(4, Fraction(-2)))
show("Note('C', 4).change_octave(-0.5)", lambda: co(4, -0.5))
show("Note('C', 1).change_octave(-2.0)", lambda: co(1, -2.0))

if failures:
    print("FAIL (%d)" % len(failures))
    for f in failures[:20]:
        print("  ", f)
    sys.exit(1)
print("PASS")
sys.exit(0)
