"""Demo for C15 / change b (Note.set_note checks everything before it stores anything).

(i)  checks the clauses of property C15 directly (expected values from music
     theory / the MIDI file format) -> prints PASS and exits 0 when all hold;
(ii) prints OBSERVED: lines showing what the change alters.
"""
from __future__ import print_function

import sys

from mingus.core import keys, chords, intervals, progressions
from mingus.containers import Note, NoteContainer, Bar, Track, Composition, Suite
from mingus.midi.midi_track import MidiTrack
from mingus.midi.midi_file_out import MidiFile

failures = []


def check(cond, what):
    if not cond:
        failures.append(what)


# ---------------------------------------------------------------- clause 1
# Theory queries give the same value cold, warm and after other calls.
F_MAJOR = ["F", "G", "A", "Bb", "C", "D", "E"]
C_MINOR = ["C", "D", "Eb", "F", "G", "Ab", "Bb"]
C_TRIADS = [
    ["C", "E", "G"],
    ["D", "F", "A"],
    ["E", "G", "B"],
    ["F", "A", "C"],
    ["G", "B", "D"],
    ["A", "C", "E"],
    ["B", "D", "F"],
]
G_SEVENTHS_FIRST = ["G", "B", "D", "F#"]


def battery(tag):
    check(keys.get_notes("F") == F_MAJOR, "get_notes('F') %s" % tag)
    check(keys.get_notes("c") == C_MINOR, "get_notes('c') %s" % tag)
    check(chords.triads("C") == C_TRIADS, "triads('C') %s" % tag)
    check(chords.sevenths("G")[0] == G_SEVENTHS_FIRST, "sevenths('G') %s" % tag)
    check(chords.triad("E", "C") == ["E", "G", "B"], "triad('E','C') %s" % tag)
    check(
        progressions.to_chords(["I", "V7"], "C") == [["C", "E", "G"], ["G", "B", "D", "F"]],
        "to_chords %s" % tag,
    )
    check(intervals.third("C", "C") == "E", "third %s" % tag)
    check(intervals.invert(["C", "E"]) == ["E", "C"], "invert %s" % tag)
    check(keys.get_key_signature_accidentals("D") == ["F#", "C#"], "accidentals %s" % tag)


battery("cold")
# some other history
for k in ["Gb", "a#", "C#", "d", "Eb"]:
    keys.get_notes(k)
    chords.triads(k)
    chords.sevenths(k)
    progressions.to_chords(["II", "bVIIdim7", "IV7"], k)
battery("warm")

# ---------------------------------------------------------------- clause 2
# No call modifies the lists / dictionaries passed to it.
arg = ["C", "E", "G"]
chords.determine(arg)
chords.first_inversion(arg)
chords.second_inversion(arg)
intervals.invert(arg)
check(arg == ["C", "E", "G"], "chord argument modified")
prog = ["I", "IV", "V", "I"]
progressions.substitute(prog, 0, 1)
progressions.to_chords(prog, "F")
check(prog == ["I", "IV", "V", "I"], "progression argument modified")
dyn = {"velocity": 90}
n = Note("E", 3, dyn)
check(dyn == {"velocity": 90}, "dynamics dictionary modified")
lst = ["A", "C", "E"]
nc = NoteContainer(lst)
Bar().place_notes(lst, 4)
check(lst == ["A", "C", "E"], "note list modified")
pairs = [["C", 5], ["E", 5, {"velocity": 20}]]
NoteContainer(pairs)
check(pairs == [["C", 5], ["E", 5, {"velocity": 20}]], "nested note list modified")

# ---------------------------------------------------------------- clause 3
# Modifying a returned list never changes what a later call returns.
r = keys.get_notes("F")
r.append("X")
r[0] = "Q"
t = chords.triads("C")
t[0].append("X")
t.pop()
s = chords.sevenths("G")
s[0][0] = "Q"
a = keys.get_key_signature_accidentals("D")
a.reverse()
battery("after the results were modified")

# ---------------------------------------------------------------- clause 4
# Separately created objects never share content; class defaults stay.
nc1, nc2 = NoteContainer(), NoteContainer()
nc1.add_notes(["C", "E"])
check(len(nc2) == 0 and len(nc1) == 2, "NoteContainer siblings share notes")
check(len(NoteContainer.notes) == 0, "NoteContainer class default changed")

b1, b2 = Bar(), Bar()
b1.place_notes("C", 4)
check(len(b2) == 0 and b2.current_beat == 0.0 and len(b1) == 1, "Bar siblings share")
check(len(Bar.bar) == 0 and Bar.current_beat == 0.0, "Bar class default changed")

t1, t2 = Track(), Track()
t1.add_notes("C", 4)
t1.add_bar(Bar())
check(len(t2) == 0 and len(t1) == 2, "Track siblings share bars")
check(len(Track.bars) == 0, "Track class default changed")

c1, c2 = Composition(), Composition()
c1.add_track(t1)
c1.set_title("one")
check(len(c2) == 0 and c2.title == "Untitled" and len(c1) == 1, "Composition siblings share")
check(len(Composition.tracks) == 0 and Composition.title == "Untitled", "Composition default")

s1, s2 = Suite(), Suite()
s1.add_composition(c1)
check(len(s2) == 0 and len(s1) == 1, "Suite siblings share compositions")
check(len(Suite.compositions) == 0, "Suite class default changed")

# copies of notes / containers are independent
orig = Note("C", 4, velocity=70)
cp = Note(orig)
cp.transpose("3")
cp.velocity = 10
check((orig.name, orig.octave, orig.velocity) == ("C", 4, 70), "Note copy not independent")
check((cp.name, cp.octave) == ("E", 4), "Note copy transposed wrongly")
onc = NoteContainer(["C", "E", "G"])
cnc = NoteContainer(onc)
cnc.transpose("5")  # C E G -> G B D
cnc.add_note("F", 6)
check([(x.name, x.octave) for x in onc] == [("C", 4), ("E", 4), ("G", 4)], "NC copy shares notes")
check(sorted(x.name for x in cnc) == ["B", "D", "F", "G"], "NC copy wrong")

# MIDI writer classes.  120 bpm = 500000 us per quarter = 0x07A120
TEMPO_120 = b"\x00\xff\x51\x03\x07\xa1\x20"
# 100 bpm = 600000 us per quarter = 0x0927C0
TEMPO_100 = b"\x00\xff\x51\x03\x09\x27\xc0"
m1, m2 = MidiTrack(), MidiTrack(100)
m1.play_Note(Note("C", 4))  # channel 1, key 60, velocity 64
m1.set_deltatime(72)
m1.stop_Note(Note("C", 4))
check(m2.track_data == TEMPO_100, "MidiTrack siblings share track data")
check(m2.delta_time == b"\x00" and m2.bpm == 100, "MidiTrack sibling state changed")
check(
    m1.track_data == TEMPO_120 + b"\x00\x91\x3c\x40" + b"\x48\x81\x3c\x40",
    "MidiTrack event bytes wrong",
)
check(
    MidiTrack.track_data == b"" and MidiTrack.delta_time == b"\x00" and MidiTrack.bpm == 120,
    "MidiTrack class defaults changed",
)
data = m1.get_midi_data()
check(isinstance(data, bytes), "get_midi_data must give bytes")
check(
    data == b"MTrk" + b"\x00\x00\x00\x13" + bytes(m1.track_data) + b"\x00\xff\x2f\x00",
    "track chunk wrong",
)
check(m2.get_midi_data()[8:] == TEMPO_100 + b"\x00\xff\x2f\x00", "sibling chunk wrong")
m3 = MidiTrack()
check(m3.track_data == TEMPO_120, "a later MidiTrack is not fresh")
m1.reset()
check(m1.track_data == b"" and m3.track_data == TEMPO_120, "reset leaked to a sibling")

f1, f2 = MidiFile(), MidiFile()
f1.tracks.append(m2)
check(len(f2.tracks) == 0 and len(f1.tracks) == 1, "MidiFile siblings share tracks")
check(len(MidiFile.tracks) == 0, "MidiFile class default changed")
check(f1.get_midi_data()[:14] == b"MThd\x00\x00\x00\x06\x00\x01\x00\x01\x00\x48", "file header")

# ---------------------------------------------------------------- clause 5
# frequency -> index lookups do not depend on previous lookups.
try:
    from mingus.extra import fft
except ImportError:  # numpy missing
    fft = None
if fft is not None:
    # table index n holds the frequency of note number n (A-4 = 57 = 440 Hz);
    # the lookup gives the first index whose frequency is >= f.
    expected = {440.0: 57, 439.0: 57, 441.0: 58, 261.0: 48, 880.0: 69, 20.0: 4, 30000.0: 128}
    for prior in [None, 20.0, 439.0, 440.0, 441.0, 5000.0, 12000.0, 30000.0]:
        for f, idx in sorted(expected.items()):
            if prior is not None:
                fft._find_log_index(prior)
            check(fft._find_log_index(f) == idx, "lookup %r after %r" % (f, prior))

# set_note on one note leaves a sibling and the class defaults alone, and
# does not touch the dictionary handed in
na, nb = Note("C", 4), Note("G", 5, velocity=30, channel=3)
d = {"velocity": 99, "channel": 7}
check(na.set_note("F#-6", dynamics=d) is na, "set_note must return the note")
check((na.name, na.octave, na.velocity, na.channel) == ("F#", 6, 99, 7), "set_note stored wrongly")
check((nb.name, nb.octave, nb.velocity, nb.channel) == ("G", 5, 30, 3), "sibling note changed")
check(d == {"velocity": 99, "channel": 7}, "set_note modified the dictionary")
check((Note.name, Note.octave, Note.velocity, Note.channel) == ("C", 4, 64, 1), "Note defaults")
check(int(Note("A", 4)) == 57 and int(Note("C-5")) == 60, "note numbers")

# ---------------------------------------------------------------- observed
def outcome(call):
    try:
        call()
        return "accepted"
    except Exception as e:  # the class is what we want to show
        return type(e).__name__


n = Note("C", 4, velocity=64, channel=1)
r1 = outcome(lambda: n.set_note("H", 5, velocity=100, channel=9))
print(
    "OBSERVED: after the rejected set_note('H', 5, velocity=100, channel=9) [%s]: velocity=%r channel=%r"
    % (r1, n.velocity, n.channel)
)
n = Note("C", 4)
r2 = outcome(lambda: n.set_note("D-x"))
print("OBSERVED: after the rejected set_note('D-x') [%s]: name=%r octave=%r" % (r2, n.name, n.octave))
print(
    "OBSERVED: Note('H', 4, velocity=300) (wrong twice) is refused with: %s"
    % outcome(lambda: Note("H", 4, velocity=300))
)

if failures:
    for f in failures:
        print("FAIL: %s" % f)
    sys.exit(1)
print("PASS")
sys.exit(0)
