"""Demo for change a (table-driven, non-recursive determine_triad).

(i) checks property C07 from first principles (chord formulas, note spelling
and inversion ordinals are written down here, not taken from mingus);
(ii) prints OBSERVED lines showing the internal structure that the change alters.
Run with PYTHONPATH pointing at the tree to test."""
from __future__ import print_function
import itertools
import random
import sys

from mingus.core import chords

LETTER_PC = {"C": 0, "D": 2, "E": 4, "F": 5, "G": 7, "A": 9, "B": 11}
LETTERS = "CDEFGAB"

# shorthand -> list of (diatonic steps above the root letter, semitones above root)
# written down from music theory, in the note order mingus documents.
R, m2, M2, A2 = (0, 0), (1, 1), (1, 2), (1, 3)
m3, M3, P4, A4 = (2, 3), (2, 4), (3, 5), (3, 6)
d5, P5, A5, M6 = (4, 6), (4, 7), (4, 8), (5, 9)
d7, m7, M7 = (6, 9), (6, 10), (6, 11)
FORMULAS = {
    "m": [R, m3, P5], "M": [R, M3, P5], "": [R, M3, P5], "dim": [R, m3, d5],
    "aug": [R, M3, A5], "+": [R, M3, A5],
    "7#5": [R, M3, A5, m7], "M7+5": [R, M3, A5, m7], "m7+": [R, M3, A5, m7],
    "M7+": [R, M3, A5, M7], "7+": [R, M3, A5, M7],
    "sus47": [R, P4, P5, m7], "7sus4": [R, P4, P5, m7],
    "sus4": [R, P4, P5], "sus": [R, P4, P5], "sus2": [R, M2, P5],
    "11": [R, P5, m7, P4], "add11": [R, P5, m7, P4],
    "sus4b9": [R, P4, P5, m2], "susb9": [R, P4, P5, m2],
    "m7": [R, m3, P5, m7], "M7": [R, M3, P5, M7], "7": [R, M3, P5, m7],
    "dom7": [R, M3, P5, m7], "m7b5": [R, m3, d5, m7], "dim7": [R, m3, d5, d7],
    "m/M7": [R, m3, P5, M7], "mM7": [R, m3, P5, M7],
    "m6": [R, m3, P5, M6], "M6": [R, M3, P5, M6], "6": [R, M3, P5, M6],
    "6/7": [R, M3, P5, M6, m7], "67": [R, M3, P5, M6, m7],
    "6/9": [R, M3, P5, M6, M2], "69": [R, M3, P5, M6, M2],
    "9": [R, M3, P5, m7, M2], "add9": [R, M3, P5, m7, M2],
    "7b9": [R, M3, P5, m7, m2], "7#9": [R, M3, P5, m7, A2],
    "M9": [R, M3, P5, M7, M2], "m9": [R, m3, P5, m7, M2],
    "7#11": [R, M3, P5, m7, A4], "m11": [R, m3, P5, m7, P4],
    "M11": [R, M3, P5, M7, M2, P4],
    "M13": [R, M3, P5, M7, M2, M6], "m13": [R, m3, P5, m7, M2, M6],
    "13": [R, M3, P5, m7, M2, M6], "add13": [R, M3, P5, m7, M2, M6],
    "7b5": [R, M3, d5, m7], "hendrix": [R, M3, P5, m7, m3],
    "7b12": [R, M3, P5, m7, m3],
}
MEANING = {
    "m": "minor triad", "M": "major triad", "": "major triad",
    "dim": "diminished triad", "aug": "augmented triad", "+": "augmented triad",
    "7#5": "augmented minor seventh", "M7+5": "augmented minor seventh",
    "m7+": "augmented minor seventh", "M7+": "augmented major seventh",
    "7+": "augmented major seventh", "sus47": "suspended seventh",
    "7sus4": "suspended seventh", "sus4": "suspended fourth triad",
    "sus": "suspended fourth triad", "sus2": "suspended second triad",
    "11": "eleventh", "add11": "eleventh", "sus4b9": "suspended fourth ninth",
    "susb9": "suspended fourth ninth", "m7": "minor seventh",
    "M7": "major seventh", "7": "dominant seventh", "dom7": "dominant seventh",
    "m7b5": "half diminished seventh", "dim7": "diminished seventh",
    "m/M7": "minor/major seventh", "mM7": "minor/major seventh",
    "m6": "minor sixth", "M6": "major sixth", "6": "major sixth",
    "6/7": "dominant sixth", "67": "dominant sixth", "6/9": "sixth ninth",
    "69": "sixth ninth", "9": "dominant ninth", "add9": "dominant ninth",
    "7b9": "dominant flat ninth", "7#9": "dominant sharp ninth",
    "M9": "major ninth", "m9": "minor ninth", "7#11": "lydian dominant seventh",
    "m11": "minor eleventh", "M11": "major eleventh", "M13": "major thirteenth",
    "m13": "minor thirteenth", "13": "dominant thirteenth",
    "add13": "dominant thirteenth", "7b5": "dominant flat five",
    "hendrix": "hendrix chord", "7b12": "hendrix chord",
}
ORDINALS = ["", ", first inversion", ", second inversion", ", third inversion",
            ", fourth inversion", ", fifth inversion", ", sixth inversion"]


def acc(note):
    return note[1:].count("#") - note[1:].count("b")


def pc(note):
    return (LETTER_PC[note[0]] + acc(note)) % 12


def spell(root, step, semis):
    """The note `step` letters and `semis` semitones above root, spelled with
    the fewest accidentals (first principles, no mingus call)."""
    letter = LETTERS[(LETTERS.index(root[0]) + step) % 7]
    want = (pc(root) + semis) % 12
    a = (want - LETTER_PC[letter] + 6) % 12 - 6
    return letter + ("#" * a if a > 0 else "b" * -a)


def build(root, sh):
    return [spell(root, st, se) for st, se in FORMULAS[sh]]


def halves(name):
    return name.split("|")


FAILS = []


def fail(msg):
    if len(FAILS) < 15:
        print("FAIL:", msg)
    FAILS.append(msg)


def both(ch):
    try:
        s = chords.determine(list(ch), True)
        l = chords.determine(list(ch), False)
    except Exception as e:  # noqa
        fail("determine(%r) raised %r" % (ch, e))
        return None, None
    if len(s) != len(l):
        fail("length mismatch for %r: %r / %r" % (ch, s, l))
        return None, None
    return s, l


def accepted(name, ch):
    for h in halves(name):
        try:
            chords.from_shorthand(h)
        except Exception as e:  # noqa
            fail("name %r (from %r) rejected by from_shorthand: %r" % (h, ch, e))


def check_property(rng_seed=7, n_double=6, n_big=400):
    rng = random.Random(rng_seed)
    roots = [l + a for l in LETTERS for a in ("", "#", "b")]
    doubles = rng.sample([l + a for l in LETTERS for a in ("##", "bb")], n_double)
    # clause 1, 2, 3 on every shorthand x root x rotation
    for sh in sorted(FORMULAS):
        for root in roots + doubles:
            expected = build(root, sh)
            try:
                got = chords.from_shorthand(root + sh)
            except Exception as e:  # noqa
                fail("from_shorthand(%r) raised %r" % (root + sh, e))
                continue
            if got != expected:
                fail("from_shorthand(%r) = %r, theory says %r" % (root + sh, got, expected))
                continue
            n = len(expected)
            for k in range(n):
                rot = expected[k:] + expected[:k]
                s, l = both(rot)
                if s is None:
                    continue
                for name in s:
                    accepted(name, rot)
                hits = [i for i, name in enumerate(s)
                        if "|" not in name and chords.from_shorthand(name) == expected]
                if not hits:
                    fail("%r rotation %d %r not recognised: %r" % (root + sh, k, rot, s))
                    continue
                # rot = expected rotated left k times -> k-th inversion
                want = "%s %s%s" % (root, MEANING[sh], ORDINALS[k])
                if not any(l[i] == want for i in hits):
                    fail("long form for %r rotation %d: wanted %r at %r in %r"
                         % (root + sh, k, want, hits, l))
    # all 21^3 three-note inputs: clauses 2, 3, 4
    for tri in itertools.product(roots, repeat=3):
        s, l = both(tri)
        if s is None:
            continue
        for name in s:
            accepted(name, tri)
            try:
                built = chords.from_shorthand(name)
            except Exception:  # already reported
                continue
            if not set(tri) <= set(built):
                fail("%r named %r = %r which lacks some given note" % (tri, name, built))
    # sampled 4-7 note inputs: no raise, same length, names accepted
    for _ in range(n_big):
        ch = [rng.choice(roots) for _ in range(rng.randint(4, 7))]
        s, l = both(ch)
        if s is not None:
            for name in s:
                accepted(name, ch)
    for sh in ("M13", "m13", "13", "M11", "m11", "9", "M9", "6/9"):
        for root in ("C", "F#", "Bb"):
            base = build(root, sh)
            for extra in roots[:8]:
                s, l = both(base + [extra])
    # complete (seven-note) thirteenth chords in all seven rotations
    for sh in ("13", "m13", "M13"):
        for root in ("C", "F#", "Bb", "E"):
            base = build(root, sh)
            full = base[:5] + [spell(root, 3, 5)] + base[5:]
            for k in range(7):
                rot = full[k:] + full[:k]
                s, l = both(rot)
                if s is not None:
                    for name in s:
                        accepted(name, rot)
    # trivial answers
    if chords.determine([]) != [] or chords.determine([], True) != []:
        fail("determine([]) is not []")
    for a in roots:
        if chords.determine([a]) != [a] or chords.determine([a], True) != [a]:
            fail("determine([%r]) is not [%r]" % (a, a))
    two = {("C", "G"): "perfect fifth", ("C", "E"): "major third",
           ("C", "Eb"): "minor third", ("A", "G"): "minor seventh",
           ("F", "B"): "augmented fourth", ("G", "Db"): "minor fifth",
           ("E", "F"): "minor second", ("Bb", "G"): "major sixth",
           ("C", "C"): "major unison", ("D", "C#"): "major seventh",
           ("C", "F"): "perfect fourth", ("Eb", "Bb"): "perfect fifth"}
    for (a, b), name in sorted(two.items()):
        for flag in (False, True):
            if chords.determine([a, b], flag) != [name]:
                fail("determine(%r) = %r, expected [%r]"
                     % ([a, b], chords.determine([a, b], flag), name))
    return not FAILS


def observed():
    """Show what change (a) alters: how determine_triad works internally."""
    print("OBSERVED: chords has a module-level _TRIAD_PATTERNS table: %s"
          % hasattr(chords, "_TRIAD_PATTERNS"))
    calls = []

    def prof(frame, event, arg):
        if event == "call":
            calls.append(frame.f_code.co_name)

    sys.setprofile(prof)
    try:
        chords.determine_triad(["C", "E", "G"])
    finally:
        sys.setprofile(None)
    print("OBSERVED: recursive inversion_exhauster() calls inside one determine_triad(): %d"
          % calls.count("inversion_exhauster"))
    print("OBSERVED: nested functions compiled into determine_triad: %s"
          % sorted(c.co_name for c in chords.determine_triad.__code__.co_consts
                   if hasattr(c, "co_name") and c.co_name.isidentifier()))


if __name__ == "__main__":
    observed()
    ok = check_property()
    print("PASS" if ok else "FAILED (%d)" % len(FAILS))
    sys.exit(0 if ok else 1)
