"""Demo for C07 / change c: checks property C07 from first principles and shows
how determine() treats non-list sequences and whether it hands back the caller's
own list (OBSERVED lines)."""
import itertools
import random
import sys

from mingus.core import chords

LETTERS = "CDEFGAB"
NATURAL = [0, 2, 4, 5, 7, 9, 11]

# interval token -> (scale degree, semitones above the root)
TOKENS = {
    "1": (1, 0), "b2": (2, 1), "2": (2, 2), "#2": (2, 3), "b3": (3, 3),
    "3": (3, 4), "4": (4, 5), "#4": (4, 6), "b5": (5, 6), "5": (5, 7),
    "#5": (5, 8), "6": (6, 9), "bb7": (7, 9), "b7": (7, 10), "7": (7, 11),
}

# shorthand -> (chord formula in the order mingus documents it, long name).
# Stated from music theory / the library documentation, not read from mingus.
FORMULAS = {
    "m": ("1 b3 5", "minor triad"),
    "M": ("1 3 5", "major triad"),
    "": ("1 3 5", "major triad"),
    "dim": ("1 b3 b5", "diminished triad"),
    "aug": ("1 3 #5", "augmented triad"),
    "+": ("1 3 #5", "augmented triad"),
    "7#5": ("1 3 #5 b7", "augmented minor seventh"),
    "M7+5": ("1 3 #5 b7", "augmented minor seventh"),
    "m7+": ("1 3 #5 b7", "augmented minor seventh"),
    "aug7": ("1 3 #5 b7", "augmented minor seventh"),
    "M7+": ("1 3 #5 7", "augmented major seventh"),
    "7+": ("1 3 #5 7", "augmented major seventh"),
    "sus47": ("1 4 5 b7", "suspended seventh"),
    "7sus4": ("1 4 5 b7", "suspended seventh"),
    "sus4": ("1 4 5", "suspended fourth triad"),
    "sus": ("1 4 5", "suspended fourth triad"),
    "sus2": ("1 2 5", "suspended second triad"),
    "11": ("1 5 b7 4", "eleventh"),
    "add11": ("1 5 b7 4", "eleventh"),
    "sus4b9": ("1 4 5 b2", "suspended fourth ninth"),
    "susb9": ("1 4 5 b2", "suspended fourth ninth"),
    "m7": ("1 b3 5 b7", "minor seventh"),
    "M7": ("1 3 5 7", "major seventh"),
    "7": ("1 3 5 b7", "dominant seventh"),
    "dom7": ("1 3 5 b7", "dominant seventh"),
    "m7b5": ("1 b3 b5 b7", "half diminished seventh"),
    "dim7": ("1 b3 b5 bb7", "diminished seventh"),
    "m/M7": ("1 b3 5 7", "minor/major seventh"),
    "mM7": ("1 b3 5 7", "minor/major seventh"),
    "m6": ("1 b3 5 6", "minor sixth"),
    "M6": ("1 3 5 6", "major sixth"),
    "6": ("1 3 5 6", "major sixth"),
    "6/7": ("1 3 5 6 b7", "dominant sixth"),
    "67": ("1 3 5 6 b7", "dominant sixth"),
    "6/9": ("1 3 5 6 2", "sixth ninth"),
    "69": ("1 3 5 6 2", "sixth ninth"),
    "9": ("1 3 5 b7 2", "dominant ninth"),
    "add9": ("1 3 5 b7 2", "dominant ninth"),
    "7b9": ("1 3 5 b7 b2", "dominant flat ninth"),
    "7#9": ("1 3 5 b7 #2", "dominant sharp ninth"),
    "M9": ("1 3 5 7 2", "major ninth"),
    "m9": ("1 b3 5 b7 2", "minor ninth"),
    "7#11": ("1 3 5 b7 #4", "lydian dominant seventh"),
    "m11": ("1 b3 5 b7 4", "minor eleventh"),
    "M11": ("1 3 5 7 2 4", "major eleventh"),
    "M13": ("1 3 5 7 2 6", "major thirteenth"),
    "m13": ("1 b3 5 b7 2 6", "minor thirteenth"),
    "13": ("1 3 5 b7 2 6", "dominant thirteenth"),
    "add13": ("1 3 5 b7 2 6", "dominant thirteenth"),
    "7b5": ("1 3 b5 b7", "dominant flat five"),
    "hendrix": ("1 3 5 b7 b3", "hendrix chord"),
    "7b12": ("1 3 5 b7 b3", "hendrix chord"),
    "5": ("1 5", "perfect fifth"),
}
ORDINALS = ["", ", first inversion", ", second inversion", ", third inversion",
            ", fourth inversion", ", fifth inversion", ", sixth inversion"]

failures = []


def fail(msg):
    failures.append(msg)
    if len(failures) <= 15:
        print("FAIL: " + msg)


def split_root(name):
    """'Bbm7' -> ('Bb', 'm7'); mingus reads every '#'/'b' after the letter
    as part of the root."""
    i = 1
    while i < len(name) and name[i] in "#b":
        i += 1
    return name[:i], name[i:]


def spell(root, token):
    deg, semis = TOKENS[token]
    li = LETTERS.index(root[0])
    acc = root.count("#") - root.count("b")
    ti = (li + deg - 1) % 7
    want = (NATURAL[li] + acc + semis) % 12
    a = (want - NATURAL[ti] + 6) % 12 - 6
    return LETTERS[ti] + ("#" * a if a > 0 else "b" * -a)


def build(root, sh):
    return [spell(root, t) for t in FORMULAS[sh][0].split()]


def accepted(name):
    """Every half of a (poly)chord name is accepted by chord construction."""
    try:
        for half in name.split("|"):
            if not isinstance(chords.from_shorthand(half), list):
                return False
        chords.from_shorthand(name)
        return True
    except Exception:
        return False


def both_forms(notes_):
    try:
        short = chords.determine(list(notes_), True)
        long_ = chords.determine(list(notes_))
    except Exception as e:  # clause: neither raises
        fail("determine(%r) raised %r" % (notes_, e))
        return None, None
    if len(short) != len(long_):
        fail("different lengths for %r: %r / %r" % (notes_, short, long_))
        return None, None
    return short, long_


def check_alignment(notes_, short, long_):
    """Same order: entry i of both forms talks about the same chord."""
    for s, l in zip(short, long_):
        if "|" in s:
            if "|" not in l:
                fail("%r: polychord %r is paired with %r" % (notes_, s, l))
            continue
        root, sh = split_root(s)
        if sh not in FORMULAS:
            fail("%r: unknown shorthand answer %r" % (notes_, s))
            continue
        head = root + " " + FORMULAS[sh][1]
        if not (l == head or (l.startswith(head + ", ") and l[len(head):] in ORDINALS)):
            fail("%r: %r is paired with %r" % (notes_, s, l))


def check_inverse():
    names21 = [l + a for l in LETTERS for a in ("", "#", "b")]
    doubles = ["C##", "Fbb", "B##", "Ebb", "G##", "Abb"]  # sample
    shorthands = [sh for sh in chords.chord_shorthand if sh != "5"]
    for sh in shorthands:
        if sh not in FORMULAS:
            fail("no first-principles formula for shorthand %r" % sh)
            continue
        for root in names21 + doubles:
            want = build(root, sh)
            got = chords.from_shorthand(root + sh)
            if got != want:
                fail("from_shorthand(%r) = %r, expected %r" % (root + sh, got, want))
                continue
            for k in range(len(want)):
                rot = want[k:] + want[:k]
                short, long_ = both_forms(rot)
                if short is None:
                    continue
                expected_long = root + " " + FORMULAS[sh][1] + ORDINALS[k]
                ok = False
                for s, l in zip(short, long_):
                    try:
                        rebuilt = chords.from_shorthand(s)
                    except Exception:
                        continue
                    if rebuilt == want and l == expected_long:
                        ok = True
                        break
                if not ok:
                    fail("%s rotation %d %r not recognised: %r / %r"
                         % (root + sh, k, rot, short, long_))
                for s in short:
                    if not accepted(s):
                        fail("answer %r for %r is not accepted by from_shorthand" % (s, rot))
                check_alignment(rot, short, long_)


def check_three_notes():
    names21 = [l + a for l in LETTERS for a in ("", "#", "b")]
    for tri in itertools.product(names21, repeat=3):
        short, long_ = both_forms(tri)
        if short is None:
            continue
        for s in short:
            root, sh = split_root(s)
            if "|" in s or sh not in FORMULAS:
                fail("three notes %r: unexpected answer %r" % (tri, s))
                continue
            if not set(tri) <= set(build(root, sh)):
                fail("three notes %r: %r = %r does not contain them" % (tri, s, build(root, sh)))
            if not accepted(s):
                fail("three notes %r: %r not accepted" % (tri, s))
        check_alignment(tri, short, long_)


def check_trivial():
    for form in (False, True):
        if chords.determine([], form) != []:
            fail("determine([]) != []")
        for n in ["C", "F#", "Bb", "E##"]:
            if chords.determine([n], form) != [n]:
                fail("determine([%r]) != [%r]" % (n, n))
        pairs = {
            ("C", "E"): "major third", ("C", "Eb"): "minor third",
            ("C", "E#"): "augmented third", ("C", "Ebb"): "diminished third",
            ("C", "G"): "perfect fifth", ("C", "F"): "perfect fourth",
            ("C", "C"): "major unison", ("A", "Ab"): "minor unison",
            ("C", "C#"): "augmented unison", ("D", "F#"): "major third",
            ("F", "B"): "augmented fourth", ("G", "F"): "minor seventh",
            ("C", "B"): "major seventh", ("C", "A"): "major sixth",
            ("E", "C"): "minor sixth", ("C", "D"): "major second",
            ("E", "F"): "minor second", ("C", "Bbb"): "diminished seventh",
            ("A", "E"): "perfect fifth",
        }
        for (a, b), name in pairs.items():
            if chords.determine([a, b], form) != [name]:
                fail("determine(%r) = %r, expected [%r]"
                     % ([a, b], chords.determine([a, b], form), name))


def check_samples():
    names21 = [l + a for l in LETTERS for a in ("", "#", "b")]
    rnd = random.Random(7)
    for _ in range(500):
        n = rnd.randint(4, 7)
        ch = [rnd.choice(names21) for _ in range(n)]
        short, long_ = both_forms(ch)
        if short is None:
            continue
        for s in short:
            if not accepted(s):
                fail("%r: answer %r not accepted" % (ch, s))
        check_alignment(ch, short, long_)
    # a few structured big chords (polychords, 6-7 notes)
    for ch in (["C", "E", "G", "B", "D", "F", "A"], ["G", "B", "D", "F", "A", "C"],
               ["D", "F", "A", "C"], ["G", "B", "D", "F", "A"],
               ["A", "C#", "E", "G", "B", "D", "F#"]):
        for k in range(len(ch)):
            rot = ch[k:] + ch[:k]
            short, long_ = both_forms(rot)
            if short is None:
                continue
            for s in short:
                if not accepted(s):
                    fail("%r: answer %r not accepted" % (rot, s))
            check_alignment(rot, short, long_)


def main(observed):
    check_inverse()
    check_three_notes()
    check_trivial()
    check_samples()
    observed()
    if failures:
        print("FAILED (%d problems)" % len(failures))
        sys.exit(1)
    print("PASS")
    sys.exit(0)


def observed():
    """What change c alters: non-list sequences, and aliasing of the answer."""
    def show(label, f):
        try:
            print("OBSERVED: %s -> %r" % (label, f()))
        except Exception as e:
            print("OBSERVED: %s raises %s: %s" % (label, type(e).__name__, e))

    show("determine(('C', 'E', 'G'))", lambda: chords.determine(("C", "E", "G")))
    show("determine(('E', 'G', 'B', 'C'), True)", lambda: chords.determine(("E", "G", "B", "C"), True))
    show("determine(iter(['A', 'C', 'E']))", lambda: chords.determine(iter(["A", "C", "E"])))
    show("determine(('C',))", lambda: chords.determine(("C",)))
    show("determine(())", lambda: chords.determine(()))
    show("determine_polychords(('D', 'F', 'A', 'C'), True)",
         lambda: chords.determine_polychords(("D", "F", "A", "C"), True))
    one = ["C"]
    show("determine(one) is one  [one = ['C']]", lambda: chords.determine(one) is one)
    # unchanged on both trees: the argument itself is left alone
    arg = ["E", "G", "B", "C"]
    chords.determine(arg)
    print("argument after the call: %r" % arg)


if __name__ == "__main__":
    main(observed)
