"""C17 demo, change c: the MIDI writer uses a resolution of 360 ticks per quarter note (declared
in the header) instead of 72.  Checks the clauses of property C17 from first principles (PASS
expected with and without the change; lengths are compared in units of 1/288 whole note, the
unit in which the property's "whole tick counts" domain is defined) and prints OBSERVED lines."""
from __future__ import print_function

import io
import os
import random
import struct
import sys
import tempfile

import mingus
from mingus.containers.bar import Bar
from mingus.containers.composition import Composition
from mingus.containers.instrument import MidiInstrument
from mingus.containers.note import Note
from mingus.containers.note_container import NoteContainer
from mingus.containers.track import Track
from mingus.midi import midi_file_in, midi_file_out
from mingus.midi.midi_track import MidiTrack

TMPDIR = tempfile.mkdtemp(prefix="c17demo_")
__import__("atexit").register(__import__("shutil").rmtree, TMPDIR, True)
FAILURES = []
WHOLE = 288  # mingus' convention: a whole note is 288 ticks (value v -> 288 / v ticks)


def fail(msg):
    FAILURES.append(msg)
    if len(FAILURES) <= 20:
        print("FAIL:", msg)


def tmp(name):
    return os.path.join(TMPDIR, name)


def quiet(fn, *args):
    """Call fn(*args) with stdout silenced (the reader prints diagnostics)."""
    old = sys.stdout
    sys.stdout = io.StringIO()
    try:
        return fn(*args)
    finally:
        sys.stdout = old


# ---------------------------------------------------------------- helpers
# A "spec" is plain data, independent of mingus:
#   track spec = dict(name, instr, key, meter, events=[(value, [(name, octave, channel, velocity), ...]), ...])
# an empty list of notes is a rest.

NOTE_BASE = {"C": 0, "D": 2, "E": 4, "F": 5, "G": 7, "A": 9, "B": 11}


def pitch_of(name, octave):
    """Scientific pitch -> MIDI-independent integer (C-0 = 0), from first principles."""
    p = NOTE_BASE[name[0]] + 12 * octave
    for acc in name[1:]:
        p += 1 if acc == "#" else -1
    return p


def ticks_of(value):
    t = WHOLE / float(value)
    assert abs(t - round(t)) < 1e-6, "spec value %r is not a whole tick count" % (value,)
    return int(round(t))


def build_track(spec):
    t = Track()
    if spec.get("name") is not None:
        t.name = spec["name"]
    if spec.get("instr") is not None:
        i = MidiInstrument()
        i.instrument_nr = spec["instr"]
        t.instrument = i
    b = Bar(spec["key"], spec["meter"])
    for value, chord in spec["events"]:
        nc = NoteContainer()
        for (name, octave, channel, velocity) in chord:
            n = Note(name, octave)
            n.channel = channel
            n.velocity = velocity
            nc + n
        if not b.place_notes(nc, value):
            t + b
            b = Bar(spec["key"], spec["meter"])
            assert b.place_notes(nc, value)
    if len(b.bar):
        t + b
    return t


def expected_flat(spec):
    """[(ticks, frozenset(pitches), {pitch: (channel, velocity)})], rests merged, trailing rests dropped."""
    out = []
    for value, chord in spec["events"]:
        ps = frozenset(pitch_of(n, o) for (n, o, c, v) in chord)
        cv = dict((pitch_of(n, o), (c, v)) for (n, o, c, v) in chord)
        out.append((ticks_of(value), ps, cv))
    return normalise(out)


def normalise(seq):
    res = []
    for (tk, ps, cv) in seq:
        if not ps and res and not res[-1][1]:
            res[-1] = (res[-1][0] + tk, ps, cv)
        else:
            res.append((tk, ps, cv))
    while res and not res[-1][1]:
        res.pop()
    return res


def flat_of_track(track):
    out = []
    for bar in track.bars:
        for (beat, value, nc) in bar.bar:
            t = WHOLE / float(value)
            if abs(t - round(t)) > 1e-6:
                fail("read back value %r is not a whole number of ticks" % (value,))
            notes = [] if nc is None else list(nc)
            ps = frozenset(int(n) for n in notes)
            cv = dict((int(n), (n.channel, n.velocity)) for n in notes)
            out.append((int(round(t)), ps, cv))
    return normalise(out)


def roundtrip(specs, bpm, label):
    c = Composition()
    for s in specs:
        c.add_track(build_track(s))
    path = tmp("rt.mid")
    if os.path.exists(path):
        os.remove(path)
    ok = quiet(midi_file_out.write_Composition, path, c, bpm)
    if not ok:
        fail("%s: write_Composition did not report success" % label)
        return None
    res = quiet(midi_file_in.MIDI_to_Composition, path)
    c2, bpm2 = res
    if bpm2 != bpm:
        fail("%s: bpm %r came back as %r" % (label, bpm, bpm2))
    if len(c2.tracks) != len(specs):
        fail("%s: %d tracks written, %d read" % (label, len(specs), len(c2.tracks)))
        return c2
    for k, (s, t2) in enumerate(zip(specs, c2.tracks)):
        exp = expected_flat(s)
        got = flat_of_track(t2)
        if [(a, b) for (a, b, _) in exp] != [(a, b) for (a, b, _) in got]:
            fail("%s track %d: sequence differs\n   exp %r\n   got %r" % (
                label, k, [(a, sorted(b)) for (a, b, _) in exp], [(a, sorted(b)) for (a, b, _) in got]))
        elif [d for (_, _, d) in exp if d] != [d for (_, _, d) in got if d]:
            fail("%s track %d: channel/velocity differs" % (label, k))
        if s.get("name") is not None and getattr(t2, "name", None) != s["name"]:
            fail("%s track %d: name %r came back as %r" % (label, k, s["name"], getattr(t2, "name", None)))
        if s.get("instr") is not None:
            nr = getattr(t2.instrument, "instrument_nr", None)
            if nr != s["instr"]:
                fail("%s track %d: instrument %r came back as %r" % (label, k, s["instr"], nr))
        tonic = s["key"]
        mode = "minor" if tonic[0].islower() else "major"
        for j, bar in enumerate(t2.bars):
            if tuple(bar.meter) != tuple(s["meter"]):
                fail("%s track %d bar %d: meter %r came back as %r" % (label, k, j, s["meter"], bar.meter))
            kk = bar.key
            kname = getattr(kk, "key", kk)
            kmode = getattr(kk, "mode", None)
            if kname != tonic or kmode != mode:
                fail("%s track %d bar %d: key %r/%s came back as %r/%r" % (label, k, j, tonic, mode, kname, kmode))
    return c2


# ---------------------------------------------------------------- clause 1-3: compositions
N = lambda name, octv, ch=1, vel=100: (name, octv, ch, vel)

MAJOR = ["Cb", "Gb", "Db", "Ab", "Eb", "Bb", "F", "C", "G", "D", "A", "E", "B", "F#", "C#"]
MINOR = ["ab", "eb", "bb", "f", "c", "g", "d", "a", "e", "b", "f#", "c#", "g#", "d#", "a#"]

SPEC_SYSTEMATIC = [
    dict(name="lead", instr=0, key="C", meter=(4, 4), events=[
        (4, [N("C", 4, 0, 1)]), (4, [N("E", 4, 1, 127)]), (4, []), (4, [N("G", 4, 2, 64), N("B", 4, 3, 65)]),
        (2, [N("C", 5, 15, 99)]), (8, []), (8, []), (8, [N("D", 5)]), (8, [N("D", 5)]),
        (1, [N("C", 3), N("E", 3), N("G", 3), N("Bb", 3)]),
    ]),
    dict(name="bass line", instr=33, key="F", meter=(3, 4), events=[
        (4, []), (4, [N("F", 2, 4, 80)]), (4, [N("A", 2, 4, 81)]),
        (8, [N("Bb", 2, 4, 82)]), (8, []), (16, [N("C", 3, 5, 10)]), (16, [N("C#", 3, 5, 11)]), (8, []), (4, [N("Eb", 2)]),
        (2, [N("F", 1)]), (4, [N("F", 2)]),
    ]),
    dict(name="trip", instr=127, key="f#", meter=(6, 8), events=[
        (8, [N("F#", 4)]), (8, [N("G#", 4)]), (8, [N("A", 4)]), (12, [N("B", 4)]), (12, [N("C#", 5)]), (12, [N("D", 5)]), (8, []), (16, [N("E", 5)]), (16, [N("E#", 5)]),
        (8.0 / 3.0, [N("F#", 5), N("A", 5)]), (8, []), (8, [N("A", 5, 9, 33)]),
    ]),
]


def random_spec(rng, idx):
    key = rng.choice(MAJOR + MINOR)
    meter = rng.choice([(4, 4), (3, 4), (2, 4), (6, 8), (2, 2), (5, 4), (12, 8)])
    barlen = WHOLE * meter[0] // meter[1]
    names = ["C", "C#", "Db", "D", "D#", "Eb", "E", "F", "F#", "Gb", "G", "G#", "Ab", "A", "A#", "Bb", "B"]
    events = []
    for _bar in range(rng.randint(1, 5)):
        left = barlen
        while left > 0:
            cands = [v for v in (1, 2, 4, 8, 16, 32, 3, 6, 12, 24, 8.0 / 3.0, 16.0 / 3.0, 4.0 / 3.0)
                     if ticks_of(v) <= left]
            v = rng.choice(cands) if cands else WHOLE / float(left)
            left -= ticks_of(v)
            if rng.random() < 0.25:
                chord = []
            else:
                chord = {}
                for _ in range(rng.choice([1, 1, 1, 2, 3, 4])):
                    nm, oc = rng.choice(names), rng.randint(0, 8)
                    chord[pitch_of(nm, oc)] = (nm, oc, rng.randint(0, 15), rng.randint(1, 127))
                chord = list(chord.values())
            events.append((v, chord))
    if not any(ch for (_, ch) in events):
        events[0] = (events[0][0], [("C", 4, 0, 64)])
    return dict(name="rnd %d" % idx, instr=rng.randint(0, 127), key=key, meter=meter, events=events)


def check_compositions():
    roundtrip(SPEC_SYSTEMATIC, 120, "systematic")
    roundtrip(SPEC_SYSTEMATIC[:1], 90, "single track")
    rng = random.Random(1717)
    for i in range(60):
        specs = [random_spec(rng, j) for j in range(rng.randint(1, 4))]
        roundtrip(specs, rng.randint(4, 1000), "random %d" % i)
    # every one of the 30 keys, several meters
    meters = [(4, 4), (3, 4), (6, 8), (2, 2), (5, 4)]
    for i, key in enumerate(MAJOR + MINOR):
        meter = meters[i % len(meters)]
        unit = meter[1]
        ev = [(unit, [N("C", 4)])] * meter[0] + [(unit, [N("D", 4)])] * meter[0]
        roundtrip([dict(name="k", instr=5, key=key, meter=meter, events=ev)], 120, "key %s" % key)


# ---------------------------------------------------------------- clause: tempo 4..1000
def check_tempo():
    spec = [dict(name=None, instr=None, key="C", meter=(4, 4), events=[(4, [N("C", 4)])])]
    c = Composition()
    c.add_track(build_track(spec[0]))
    path = tmp("tempo.mid")
    for bpm in range(4, 1001):
        quiet(midi_file_out.write_Composition, path, c, bpm)
        (c2, got) = quiet(midi_file_in.MIDI_to_Composition, path)
        if got != bpm:
            fail("bpm %d came back as %r" % (bpm, got))


# ---------------------------------------------------------------- clause: VLQ
def vlq_reference(v):
    """Standard MIDI variable length quantity, from the file format definition."""
    out = [v & 0x7F]
    v >>= 7
    while v:
        out.insert(0, (v & 0x7F) | 0x80)
        v >>= 7
    return bytes(bytearray(out))


def check_vlq():
    vals = set(range(0, 400))
    for k in (7, 14, 21, 28):
        for d in range(-70, 71):
            v = (1 << k) + d
            if 0 <= v < (1 << 28):
                vals.add(v)
    rng = random.Random(7)
    vals.update(rng.randrange(1 << 28) for _ in range(3000))
    w = MidiTrack()
    for v in sorted(vals):
        enc = w.int_to_varbyte(v)
        r = midi_file_in.MidiFile()
        got = r.parse_varbyte_as_int(io.BytesIO(enc + b"\x00\x00"))
        if isinstance(got, tuple):
            val, nread = got[0], got[1]
        else:
            val, nread = got, len(enc)
        if val != v or nread != len(enc):
            fail("VLQ %d -> %r -> %r" % (v, enc, got))
        if bytes(enc) != vlq_reference(v):
            fail("VLQ %d encoded as %r, format says %r" % (v, enc, vlq_reference(v)))


# ---------------------------------------------------------------- clause: not-MIDI files rejected
def good_file_bytes():
    c = Composition()
    c.add_track(build_track(SPEC_SYSTEMATIC[0]))
    path = tmp("good.mid")
    quiet(midi_file_out.write_Composition, path, c, 120)
    with open(path, "rb") as f:
        return f.read()


def read_outcome(data):
    """Return ('error', ExceptionClassName, message) or ('music', repr)."""
    path = tmp("bad.mid")
    with open(path, "wb") as f:
        f.write(data)
    try:
        res = quiet(midi_file_in.MIDI_to_Composition, path)
    except Exception as e:  # the statement only requires "an error"
        return ("error", type(e).__name__, str(e))
    return ("music", repr(res))


def corrupted_variants(good):
    assert good[:4] == b"MThd" and good[14:18] == b"MTrk"
    return [
        ("header tag MThx", b"MThx" + good[4:]),
        ("header tag RIFF", b"RIFF" + good[4:]),
        ("header tag lower case", b"mthd" + good[4:]),
        ("format 3", good[:8] + struct.pack(">H", 3) + good[10:]),
        ("format 0xFFFF", good[:8] + struct.pack(">H", 0xFFFF) + good[10:]),
        ("format 256", good[:8] + struct.pack(">H", 256) + good[10:]),
        ("track tag MTrx", good[:14] + b"MTrx" + good[18:]),
        ("track tag XXXX", good[:14] + b"XXXX" + good[18:]),
        ("plain text", b"this is not a MIDI file at all, just text\n" * 4),
    ]


def check_rejection():
    good = good_file_bytes()
    if read_outcome(good)[0] != "music":
        fail("the uncorrupted file is not accepted: %r" % (read_outcome(good),))
    for label, data in corrupted_variants(good):
        out = read_outcome(data)
        if out[0] != "error":
            fail("corrupted file (%s) was returned as music: %s" % (label, out[1]))


def run_property_checks():
    check_compositions()
    check_tempo()
    check_vlq()
    check_rejection()


# ---------------------------------------------------------------- what this change alters
def observed():
    # (1) the resolution the writer declares in the header and the raw delta of a quarter note
    c = Composition()
    c.add_track(build_track(dict(name=None, instr=None, key="C", meter=(4, 4), events=[(4, [N("C", 4)])])))
    path = tmp("obs.mid")
    quiet(midi_file_out.write_Composition, path, c, 120)
    with open(path, "rb") as f:
        data = f.read()
    division = struct.unpack(">H", data[12:14])[0]
    print("OBSERVED: header declares %d ticks per quarter note; file is %d bytes" % (division, len(data)))
    # (2) outside the property's domain: a quintuplet (value 5) is 57.6 ticks at 288 ticks per whole note
    ev = [(5, [N("C", 4)]), (5, [N("D", 4)]), (5, [N("E", 4)]), (5, [N("F", 4)]), (5, [N("G", 4)])]
    c = Composition()
    c.add_track(build_track(dict(name=None, instr=None, key="C", meter=(4, 4), events=ev)))
    quiet(midi_file_out.write_Composition, path, c, 120)
    (c2, bpm) = quiet(midi_file_in.MIDI_to_Composition, path)
    vals = [round(v, 4) for bar in c2.tracks[0].bars for (_, v, nc) in bar.bar if nc is not None and len(nc)]
    print("OBSERVED: five quintuplet notes (value 5) read back with values %r" % (vals,))


if __name__ == "__main__":
    run_property_checks()
    observed()
    if FAILURES:
        print("FAIL (%d problems)" % len(FAILURES))
        sys.exit(1)
    print("PASS")
    sys.exit(0)
