#!/usr/bin/env python
# -*- coding: utf-8 -*-
"""Property C12 demo: a NoteContainer is a pitch-ordered, duplicate-free set
under any history.

Part (i) checks the clauses of the property against an independent set model
(pitch arithmetic done here, not by mingus).  Part (ii) prints OBSERVED: lines
showing behaviour that the property does not pin down.

The tree under test is chosen by the caller through PYTHONPATH.
"""
from __future__ import print_function

import itertools
import random
import sys

from mingus.containers.note import Note
from mingus.containers.note_container import NoteContainer

FAILURES = []


def check(cond, msg):
    if not cond:
        FAILURES.append(msg)
        if len(FAILURES) <= 20:
            print("FAIL:", msg)


# ---------------------------------------------------------------- arithmetic
BASE = {"C": 0, "D": 2, "E": 4, "F": 5, "G": 7, "A": 9, "B": 11}


def semis(name):
    """Semitones above C of a note name: letter + sharps - flats."""
    return BASE[name[0]] + name.count("#") - name[1:].count("b")


def pitch(name, octave):
    """C-0 is 0, C-4 is 48, A-4 is 57."""
    return octave * 12 + semis(name)


def voice_up(name, top):
    """The (name, octave) with the given name that lies at or above pitch
    `top` and less than an octave above it."""
    o = 0
    while pitch(name, o) < top:
        o += 1
    assert top <= pitch(name, o) < top + 12, (name, top)
    return (name, o)


# --------------------------------------------------------------- set model
class Model(object):
    """pitch -> (name, octave); adding a pitch that is present is a no-op."""

    def __init__(self):
        self.d = {}

    def add(self, name, octave):
        self.d.setdefault(pitch(name, octave), (name, octave))

    def add_bare(self, name):
        if not self.d:
            self.add(name, 4)
        else:
            self.add(*voice_up(name, max(self.d)))

    def remove_name(self, name):
        for p in [p for p, (n, o) in self.d.items() if n == name]:
            del self.d[p]

    def remove_name_octave(self, name, octave):
        for p in [p for p, (n, o) in self.d.items() if n == name and o == octave]:
            del self.d[p]

    def remove_pitch(self, p):
        self.d.pop(p, None)

    def content(self):
        return [self.d[p] for p in sorted(self.d)]


def pair_perfect(a, b, fourths=True):
    d = (semis(b) - semis(a)) % 12
    return d in (0, 7) or (fourths and d == 5)


def pair_imperfect(a, b):
    return (semis(b) - semis(a)) % 12 in (3, 4, 8, 9)


def pair_consonant(a, b, fourths=True):
    return pair_perfect(a, b, fourths) or pair_imperfect(a, b)


UNIVERSE = [(n, o) for o in (3, 4, 5, 6) for n in ("C", "C#", "D", "Eb", "E", "F", "F#", "G", "Ab", "A", "Bb", "B")]


def verify(nc, model, ctx):
    exp = model.content()
    got = [(n.name, n.octave) for n in nc.notes]
    ints = [int(n) for n in nc.notes]
    check(got == exp, "%s: content %r, expected %r" % (ctx, got, exp))
    check(ints == sorted(model.d), "%s: pitches %r, expected %r" % (ctx, ints, sorted(model.d)))
    check(all(a < b for a, b in zip(ints, ints[1:])), "%s: not strictly ascending %r" % (ctx, ints))
    # length
    check(len(nc) == len(exp), "%s: len %d, expected %d" % (ctx, len(nc), len(exp)))
    # iteration / indexing agree
    check([(n.name, n.octave) for n in nc] == exp, "%s: iteration disagrees" % ctx)
    # membership
    for (n, o) in UNIVERSE:
        want = pitch(n, o) in model.d
        check((Note(n, o) in nc) == want, "%s: membership of %s-%d should be %r" % (ctx, n, o, want))
    # unique-name list (in pitch order, each name once)
    names = []
    for (n, o) in exp:
        if n not in names:
            names.append(n)
    check(nc.get_note_names() == names, "%s: names %r, expected %r" % (ctx, nc.get_note_names(), names))
    # equality
    twin = NoteContainer([Note(n, o) for (n, o) in reversed(exp)])
    check(nc == twin and twin == nc, "%s: should equal a container with the same pitches" % ctx)
    check(not (nc != twin), "%s: != should be false for the same pitches" % ctx)
    other = NoteContainer([Note(n, o) for (n, o) in exp] + [Note("D", 8)])
    check(not (nc == other) and not (other == nc), "%s: should differ from a container with an extra pitch" % ctx)
    if exp:
        shifted = NoteContainer([Note(n, o) for (n, o) in exp[:-1]] + [Note("D", 8)])
        check(not (nc == shifted), "%s: should differ from a container with one pitch replaced" % ctx)
    # consonance predicates: true exactly when every pair satisfies it
    pairs = list(itertools.combinations([n for (n, o) in exp], 2))
    check(nc.is_consonant() == all(pair_consonant(a, b) for a, b in pairs), "%s: is_consonant" % ctx)
    check(nc.is_consonant(False) == all(pair_consonant(a, b, False) for a, b in pairs), "%s: is_consonant(False)" % ctx)
    check(nc.is_perfect_consonant() == all(pair_perfect(a, b) for a, b in pairs), "%s: is_perfect_consonant" % ctx)
    check(
        nc.is_perfect_consonant(False) == all(pair_perfect(a, b, False) for a, b in pairs),
        "%s: is_perfect_consonant(False)" % ctx,
    )
    check(nc.is_imperfect_consonant() == all(pair_imperfect(a, b) for a, b in pairs), "%s: is_imperfect_consonant" % ctx)


# ------------------------------------------------------------- operations
# each operation: (label, do-on-container, do-on-model)
def _m_add_list(pairs):
    def f(m):
        for x in pairs:
            if isinstance(x, tuple):
                m.add(*x)
            else:
                m.add_bare(x)
    return f


OPS = [
    ("add_note(Note E-4)", lambda c: c.add_note(Note("E", 4)), lambda m: m.add("E", 4)),
    ("add_note(Note C-5)", lambda c: c.add_note(Note("C", 5)), lambda m: m.add("C", 5)),
    ("add_note(Note G-3, velocity 90)", lambda c: c.add_note(Note("G", 3, velocity=90)), lambda m: m.add("G", 3)),
    ("add_note('C')", lambda c: c.add_note("C"), lambda m: m.add_bare("C")),
    ("add_note('G')", lambda c: c.add_note("G"), lambda m: m.add_bare("G")),
    ("add_notes('E')", lambda c: c.add_notes("E"), lambda m: m.add_bare("E")),
    ("add_note('Bb', 3)", lambda c: c.add_note("Bb", 3), lambda m: m.add("Bb", 3)),
    ("add_note('C-4')", lambda c: c.add_note("C-4"), lambda m: m.add("C", 4)),
    ("add_notes(['A', 'C', 'E'])", lambda c: c.add_notes(["A", "C", "E"]), _m_add_list(["A", "C", "E"])),
    (
        "add_notes([['C', 5], ['E', 4, {}], Note G-5, 'G-3'])",
        lambda c: c.add_notes([["C", 5], ["E", 4, {}], Note("G", 5), "G-3"]),
        _m_add_list([("C", 5), ("E", 4), ("G", 5), ("G", 3)]),
    ),
    (
        "add_notes(NoteContainer D-4 F#-4 C-6)",
        lambda c: c.add_notes(NoteContainer([Note("D", 4), Note("F#", 4), Note("C", 6)])),
        _m_add_list([("D", 4), ("F#", 4), ("C", 6)]),
    ),
    ("+ 'B'", lambda c: c + "B", lambda m: m.add_bare("B")),
    ("+ ['D', 'F']", lambda c: c + ["D", "F"], _m_add_list(["D", "F"])),
    ("+ Note A-4", lambda c: c + Note("A", 4), lambda m: m.add("A", 4)),
    (
        "+ NoteContainer(E-4, G-4)",
        lambda c: c + NoteContainer([Note("E", 4), Note("G", 4)]),
        _m_add_list([("E", 4), ("G", 4)]),
    ),
    ("remove_note('C')", lambda c: c.remove_note("C"), lambda m: m.remove_name("C")),
    ("remove_note('E')", lambda c: c.remove_note("E"), lambda m: m.remove_name("E")),
    ("remove_note('C', 5)", lambda c: c.remove_note("C", 5), lambda m: m.remove_name_octave("C", 5)),
    ("remove_note('G', 4)", lambda c: c.remove_note("G", 4), lambda m: m.remove_name_octave("G", 4)),
    ("remove_note(Note E-4)", lambda c: c.remove_note(Note("E", 4)), lambda m: m.remove_pitch(pitch("E", 4))),
    ("remove_notes(Note C-5)", lambda c: c.remove_notes(Note("C", 5)), lambda m: m.remove_pitch(pitch("C", 5))),
    ("remove_notes('G')", lambda c: c.remove_notes("G"), lambda m: m.remove_name("G")),
    (
        "remove_notes(['A', Note D-4])",
        lambda c: c.remove_notes(["A", Note("D", 4)]),
        lambda m: (m.remove_name("A"), m.remove_pitch(pitch("D", 4))),
    ),
    ("- 'E'", lambda c: c - "E", lambda m: m.remove_name("E")),
    ("- ['C', 'G']", lambda c: c - ["C", "G"], lambda m: (m.remove_name("C"), m.remove_name("G"))),
    ("- Note G-3", lambda c: c - Note("G", 3), lambda m: m.remove_pitch(pitch("G", 3))),
]


def run_sequence(seq):
    nc = NoteContainer()
    m = Model()
    ctx = []
    for i in seq:
        label, do_c, do_m = OPS[i]
        ctx.append(label)
        do_c(nc)
        do_m(m)
        verify(nc, m, " ; ".join(ctx))


def check_histories():
    # exhaustive up to depth 2 over the whole alphabet, depth 3 over a core
    for depth in (1, 2):
        for seq in itertools.product(range(len(OPS)), repeat=depth):
            run_sequence(seq)
    core = [0, 3, 4, 8, 10, 11, 15, 17, 19, 24]
    for seq in itertools.product(core, repeat=3):
        run_sequence(seq)
    rnd = random.Random(12)
    for _ in range(150):
        run_sequence([rnd.randrange(len(OPS)) for _ in range(12)])


def check_voicing():
    # bare names given in order are voiced upward
    nc = NoteContainer(["A", "C", "E", "F", "G", "A"])
    check([(n.name, n.octave) for n in nc.notes] == [("A", 4), ("C", 5), ("E", 5), ("F", 5), ("G", 5), ("A", 5)], "voicing A C E F G A")
    nc = NoteContainer(["C", "C"])
    check([(n.name, n.octave) for n in nc.notes] == [("C", 4)], "C, C is one note")
    nc = NoteContainer(["G", "F", "E", "D"])
    check([int(n) for n in nc.notes] == [55, 65, 76, 86], "G F E D voiced upward: %r" % nc.notes)
    # removal by name: every octave; with octave: only that one
    nc = NoteContainer(["C-3", "C-4", "E-4", "C-5"])
    nc.remove_note("C", 4)
    check([int(n) for n in nc.notes] == [36, 52, 60], "remove C in octave 4 only")
    nc.remove_note("C")
    check([int(n) for n in nc.notes] == [52], "remove C everywhere")


# chord shorthand -> semitone offsets of the chord's notes, in order
CHORDS = {
    "M": [0, 4, 7],
    "m": [0, 3, 7],
    "dim": [0, 3, 6],
    "aug": [0, 4, 8],
    "sus4": [0, 5, 7],
    "sus2": [0, 2, 7],
    "7": [0, 4, 7, 10],
    "m7": [0, 3, 7, 10],
    "M7": [0, 4, 7, 11],
    "m7b5": [0, 3, 6, 10],
    "dim7": [0, 3, 6, 9],
    "6": [0, 4, 7, 9],
    "m6": [0, 3, 7, 9],
    "9": [0, 4, 7, 10, 14],
    "m9": [0, 3, 7, 10, 14],
    "M9": [0, 4, 7, 11, 14],
}
ROOTS = ["C", "C#", "Db", "D", "Eb", "E", "F", "F#", "G", "Ab", "A", "Bb", "B"]
INTERVALS = {"1": 0, "b2": 1, "2": 2, "b3": 3, "3": 4, "4": 5, "#4": 6, "b5": 6, "5": 7, "b6": 8, "6": 9, "b7": 10, "7": 11}
MAJOR = [0, 2, 4, 5, 7, 9, 11]
NUMERALS = ["I", "II", "III", "IV", "V", "VI", "VII"]
KEYS = ["C", "G", "D", "F", "Bb", "A", "E", "Eb"]


def check_constructors():
    for root in ROOTS:
        r = pitch(root, 4)
        for sh, offs in CHORDS.items():
            nc = NoteContainer().from_chord_shorthand(root + sh)
            got = [int(n) for n in nc.notes]
            check(got == [r + o for o in offs], "chord %s%s: %r" % (root, sh, nc.notes))
            check((nc.notes[0].name, nc.notes[0].octave) == (root, 4), "chord %s%s starts on root in octave 4" % (root, sh))
            check(NoteContainer().from_chord(root + sh) == nc, "from_chord is the same as from_chord_shorthand")
        for sh, off in INTERVALS.items():
            nc = NoteContainer().from_interval_shorthand(root, sh)
            got = [int(n) for n in nc.notes]
            check(got == sorted(set([r, r + off])), "interval %s %s: %r" % (root, sh, nc.notes))
            check((nc.notes[0].name, nc.notes[0].octave) == (root, 4), "interval %s %s starts on root" % (root, sh))
            check(NoteContainer().from_interval(root, sh) == nc, "from_interval is the same")
    for key in KEYS:
        k = semis(key)
        for d, num in enumerate(NUMERALS):
            pcs = [(k + MAJOR[(d + s) % 7]) % 12 for s in (0, 2, 4)]
            root_p = 48 + pcs[0]
            exp = [root_p]
            for pc in pcs[1:]:
                p = exp[-1]
                while p % 12 != pc:
                    p += 1
                exp.append(p)
            nc = NoteContainer().from_progression_shorthand(num, key)
            got = [int(n) for n in nc.notes]
            check(got == exp, "progression %s in %s: %r, expected %r" % (num, key, nc.notes, exp))
            check(nc.notes[0].octave == 4, "progression %s in %s starts in octave 4" % (num, key))
            check(NoteContainer().from_progression(num, key) == nc, "from_progression is the same")
            nc7 = NoteContainer().from_progression_shorthand(num + "7", key)
            pc7 = (k + MAJOR[(d + 6) % 7]) % 12
            p = exp[-1]
            while p % 12 != pc7:
                p += 1
            check([int(n) for n in nc7.notes] == exp + [p], "progression %s7 in %s: %r" % (num, key, nc7.notes))


def property_checks():
    check_voicing()
    check_constructors()
    check_histories()


def probe(expr, f):
    try:
        return "%s -> %r" % (expr, f())
    except Exception as e:  # the property says nothing about these inputs
        return "%s -> raises %s: %s" % (expr, type(e).__name__, e)


def observed():
    # Not stated by the property: what `in` does with a STRING on the left
    # (the membership clause is about notes, i.e. pitches).
    nc = NoteContainer(["C", "E", "G"])  # C-4 E-4 G-4
    print("OBSERVED: " + probe("'E-4' in NoteContainer(['C','E','G'])", lambda: "E-4" in nc))
    print("OBSERVED: " + probe("'E-5' in NoteContainer(['C','E','G'])", lambda: "E-5" in nc))
    print("OBSERVED: " + probe("'E' in NoteContainer(['C','E','G'])", lambda: "E" in nc))
    print("OBSERVED: " + probe("'F' in NoteContainer(['C','E','G'])", lambda: "F" in nc))
    print("OBSERVED: " + probe("'E' in NoteContainer()", lambda: "E" in NoteContainer()))


if __name__ == "__main__":
    property_checks()
    observed()
    if FAILURES:
        print("FAIL (%d checks failed)" % len(FAILURES))
        sys.exit(1)
    print("PASS")
    sys.exit(0)
