"""Demo for change a (property C08): diatonic triads/sevenths built by index arithmetic, immutable cache."""
# ---------------------------------------------------------------------------
# Part (i): direct check of the clauses of property C08, with expected values
# computed from first principles (letters + semitone arithmetic), never from
# another mingus call.
# ---------------------------------------------------------------------------
import re
import sys

from mingus.core import chords, progressions

LETTERS = "CDEFGAB"
NATURAL = {"C": 0, "D": 2, "E": 4, "F": 5, "G": 7, "A": 9, "B": 11}
MAJOR_KEYS = ["Cb", "Gb", "Db", "Ab", "Eb", "Bb", "F", "C", "G", "D", "A", "E", "B", "F#", "C#"]
MINOR_KEYS = ["ab", "eb", "bb", "f", "c", "g", "d", "a", "e", "b", "f#", "c#", "g#", "d#", "a#"]
MAJOR_STEPS = [0, 2, 4, 5, 7, 9, 11]
MINOR_STEPS = [0, 2, 3, 5, 7, 8, 10]
NUMERALS = ["I", "II", "III", "IV", "V", "VI", "VII"]
FUNCTIONS = ["tonic", "supertonic", "mediant", "subdominant", "dominant", "submediant", "subtonic"]
DETERMINE_NUMERALS = ["I", "ii", "iii", "IV", "V", "vi", "vii"]

# chord types as (letter steps above the root, semitones above the root)
SUFFIX_MODEL = {
    "M": [(0, 0), (2, 4), (4, 7)],
    "m": [(0, 0), (2, 3), (4, 7)],
    "dim": [(0, 0), (2, 3), (4, 6)],
    "aug": [(0, 0), (2, 4), (4, 8)],
    "sus4": [(0, 0), (3, 5), (4, 7)],
    "sus2": [(0, 0), (1, 2), (4, 7)],
    "M7": [(0, 0), (2, 4), (4, 7), (6, 11)],
    "m7": [(0, 0), (2, 3), (4, 7), (6, 10)],
    "dom7": [(0, 0), (2, 4), (4, 7), (6, 10)],
    "m7b5": [(0, 0), (2, 3), (4, 6), (6, 10)],
    "dim7": [(0, 0), (2, 3), (4, 6), (6, 9)],
    "mM7": [(0, 0), (2, 3), (4, 7), (6, 11)],
    "M6": [(0, 0), (2, 4), (4, 7), (5, 9)],
    "m6": [(0, 0), (2, 3), (4, 7), (5, 9)],
}

failures = []


def check(cond, msg):
    if not cond:
        failures.append(msg)


def acc_value(note):
    return note[1:].count("#") - note[1:].count("b")


def spell(letter, value):
    return letter + ("#" * value if value >= 0 else "b" * (-value))


def pitch(note):
    return (NATURAL[note[0]] + acc_value(note)) % 12


def model_scale(key):
    steps = MAJOR_STEPS if key[0].isupper() else MINOR_STEPS
    tonic = key[0].upper() + key[1:]
    start = LETTERS.index(tonic[0])
    base = NATURAL[tonic[0]] + acc_value(tonic)
    res = []
    for i in range(7):
        letter = LETTERS[(start + i) % 7]
        want = base + steps[i]
        diff = (want - NATURAL[letter] + 6) % 12 - 6
        res.append(spell(letter, diff))
    return res


def model_chord(key, degree, size):
    sc = model_scale(key)
    return [sc[(degree + 2 * k) % 7] for k in range(size)]


def shift(chord, n):
    return [spell(x[0], acc_value(x) + n) for x in chord]


def build(root, pattern):
    res = []
    for (lsteps, semis) in pattern:
        letter = LETTERS[(LETTERS.index(root[0]) + lsteps) % 7]
        want = NATURAL[root[0]] + acc_value(root) + semis
        diff = (want - NATURAL[letter] + 6) % 12 - 6
        res.append(spell(letter, diff))
    return res


def same_notes(got, want):
    """Same letters and same accidental value note by note."""
    return (
        isinstance(got, list)
        and len(got) == len(want)
        and all(g[0] == w[0] and acc_value(g) == acc_value(w) for g, w in zip(got, want))
    )


def prefix(n):
    return "#" * n if n >= 0 else "b" * (-n)


# --- clause 1: functions, numeral aliases, progression strings in 30 keys ---
for key in MAJOR_KEYS + MINOR_KEYS:
    for d in range(7):
        for size, seven in ((3, ""), (4, "7")):
            want = model_chord(key, d, size)
            names = [FUNCTIONS[d] + seven, NUMERALS[d] + seven]
            if NUMERALS[d] in ("II", "III", "VI", "VII"):
                names.append(NUMERALS[d].lower() + seven)
            for nm in names:
                check(getattr(chords, nm)(key) == want, "chords.%s(%r) != %r" % (nm, key, want))
            for s in (NUMERALS[d] + seven, NUMERALS[d].lower() + seven):
                check(progressions.to_chords(s, key) == [want], "to_chords(%r, %r)" % (s, key))
                check(progressions.to_chords([s], key) == [want], "to_chords([%r], %r)" % (s, key))
            # clause 2a: accidental prefixes -3..+3
            for n in range(-3, 4):
                got = progressions.to_chords(prefix(n) + NUMERALS[d] + seven, key)
                check(
                    len(got) == 1 and same_notes(got[0], shift(want, n)),
                    "prefix %d on %s%s in %r: %r" % (n, NUMERALS[d], seven, key, got),
                )
        # clause 2b: chord suffixes rebuild the type on the degree's root
        root = model_scale(key)[d]
        for suff, pattern in SUFFIX_MODEL.items():
            for n in (-1, 0, 2):
                got = progressions.to_chords(prefix(n) + NUMERALS[d].lower() + suff, key)
                want = shift(build(root, pattern), n)
                check(
                    len(got) == 1 and same_notes(got[0], want),
                    "suffix %s on %s in %r (prefix %d): %r != %r" % (suff, NUMERALS[d], key, n, got, want),
                )
    # clause 2c: unrecognised numerals give the documented empty answer
    for bad in ("VIII", "IIII", "X", "", "7", "IVI", "bVV7"):
        check(progressions.to_chords(bad, key) == [], "to_chords(%r) should be []" % bad)
        check(progressions.to_chords(["I", bad], key) == [], "to_chords(['I', %r]) should be []" % bad)

# --- clause 3: determine in every major key, inverse, parse/format ---
for key in MAJOR_KEYS:
    for d in range(7):
        tri = model_chord(key, d, 3)
        sev = model_chord(key, d, 4)
        r = progressions.determine(list(tri), key)
        check(len(r) >= 1 and r[0] == FUNCTIONS[d], "determine triad %r in %r: %r" % (tri, key, r))
        r = progressions.determine(list(tri), key, True)
        check(len(r) >= 1 and r[0] == DETERMINE_NUMERALS[d], "determine short %r in %r: %r" % (tri, key, r))
        r = progressions.determine(list(sev), key)
        check(len(r) >= 1 and r[0] == FUNCTIONS[d] + " seventh", "determine seventh %r in %r: %r" % (sev, key, r))
        r = progressions.determine(list(sev), key, True)
        check(len(r) >= 1 and r[0] == DETERMINE_NUMERALS[d] + "7", "determine short seventh %r in %r: %r" % (sev, key, r))
        # inverse both ways
        for ch in (tri, sev):
            num = progressions.determine(list(ch), key, True)[0]
            check(progressions.to_chords(num, key) == [ch], "inverse %r in %r" % (ch, key))
        for s in (DETERMINE_NUMERALS[d], DETERMINE_NUMERALS[d] + "7"):
            back = progressions.determine(progressions.to_chords(s, key)[0], key, True)
            check(back[0] == s, "inverse numeral %r in %r: %r" % (s, key, back))

ALL_SUFFIXES = sorted(chords.chord_shorthand.keys())
for num in NUMERALS:
    for suff in ALL_SUFFIXES:
        for n in range(-3, 4):
            s = prefix(n) + num + suff
            parsed = progressions.parse_string(s)
            check(parsed == (num, n, suff), "parse_string(%r) = %r" % (s, parsed))
            check(progressions.tuple_to_string(parsed) == s, "parse/format %r" % s)

# --- clause 4: substitutions ---
WELL_FORMED = re.compile(r"^([b#]*)(VII|VI|V|IV|III|II|I)(.*)$")
NUM_SEMIS = dict(zip(NUMERALS, MAJOR_STEPS))


def parse_model(s):
    m = WELL_FORMED.match(s)
    if m is None or m.group(3) not in chords.chord_shorthand:
        return None
    a = m.group(1)
    return (m.group(2), a.count("#") - a.count("b"), m.group(3))


def root_of(parsed):
    """(letter index, semitone) of the root relative to the tonic."""
    return (NUMERALS.index(parsed[0]), NUM_SEMIS[parsed[0]] + parsed[1])


def interval_between(p1, p2):
    (l1, s1), (l2, s2) = root_of(p1), root_of(p2)
    return ((l2 - l1) % 7, (s2 - s1) % 12)


SUB_SUFFIXES = ["", "7", "m", "M", "m7", "M7", "dim", "dim7", "dom7", "sus4", "6"]
for num in NUMERALS:
    for suff in SUB_SUFFIXES:
        for n in range(-3, 4):
            s = prefix(n) + num + suff
            src = (num, n, suff)
            for ignore in (False, True):
                for position, prog in ((0, [s, "IV", "V"]), (1, ["I", s])):
                    before = list(prog)
                    # harmonic
                    res = progressions.substitute_harmonic(prog, position, ignore)
                    check(prog == before, "substitute_harmonic changed the progression")
                    for r in res:
                        p = parse_model(r)
                        check(p is not None, "harmonic: ill-formed %r from %r" % (r, s))
                        if p is None:
                            continue
                        for key in ("C", "F#", "Eb"):
                            a = set(progressions.to_chords(prefix(n) + num, key)[0])
                            b = set(progressions.to_chords(prefix(p[1]) + p[0], key)[0])
                            check(len(a & b) == 2, "harmonic: %r for %r shares %d notes" % (r, s, len(a & b)))
                    # minor for major: root a minor third (2 letters, 3 semitones) up
                    res = progressions.substitute_minor_for_major(prog, position, ignore)
                    check(prog == before, "substitute_minor_for_major changed the progression")
                    for r in res:
                        p = parse_model(r)
                        check(p is not None and interval_between(src, p) == (2, 3), "minor_for_major %r -> %r" % (s, r))
                    # major for minor: root a major sixth (5 letters, 9 semitones) up
                    res = progressions.substitute_major_for_minor(prog, position, ignore)
                    check(prog == before, "substitute_major_for_minor changed the progression")
                    for r in res:
                        p = parse_model(r)
                        check(p is not None and interval_between(src, p) == (5, 9), "major_for_minor %r -> %r" % (s, r))
                    # diminished for diminished: cycle of minor thirds
                    res = progressions.substitute_diminished_for_diminished(prog, position, ignore)
                    check(prog == before, "substitute_diminished_for_diminished changed the progression")
                    last = src
                    for r in res:
                        p = parse_model(r)
                        check(p is not None and interval_between(last, p) == (2, 3), "dim_for_dim %r -> %r" % (s, res))
                        if p is None:
                            break
                        last = p
                    res = progressions.substitute_diminished_for_dominant(prog, position, ignore)
                    check(prog == before, "substitute_diminished_for_dominant changed the progression")
                    for r in res:
                        check(parse_model(r) is not None, "dim_for_dom: ill-formed %r" % r)
            # general substitute, depth 0..2
            for depth in (0, 1, 2):
                prog = ["I", s, "V"]
                before = list(prog)
                res = progressions.substitute(prog, 1, depth)
                check(prog == before, "substitute changed the progression")
                check(isinstance(res, list), "substitute does not return a list")
                for r in set(res):
                    p = parse_model(r)
                    check(p is not None, "substitute(%r, depth %d): ill-formed %r" % (s, depth, r))
                    if p is not None and depth < 2:
                        for key in ("C", "Ab"):
                            got = progressions.to_chords(r, key)
                            check(len(got) == 1 and len(got[0]) >= 2, "substitute result %r does not denote a chord" % r)

# documented examples of the substitution rules
check("III" in progressions.substitute(["I", "IV", "V", "I"], 0), "substitute example")
check(set(progressions.substitute(["I", "IV", "V", "I"], 0)) == {"III", "III7", "VI", "VI7", "I7"}, "substitute example set")
check(progressions.substitute_minor_for_major(["Vm"], 0) == ["bVIIM"], "Vm -> bVIIM")
check(progressions.substitute_major_for_minor(["VM7"], 0) == ["IIIm7"], "VM7 -> IIIm7")
check(progressions.substitute_diminished_for_diminished(["VII"], 0) == ["IIdim", "IVdim", "bVIdim"], "VII dim cycle")
check(set(progressions.substitute_harmonic(["I"], 0)) == {"III", "VI"}, "harmonic I")


def finish():
    if failures:
        print("FAIL (%d)" % len(failures))
        for f in failures[:20]:
            print("  ", f)
        sys.exit(1)
    print("PASS")
    sys.exit(0)

# ---------------------------------------------------------------------------
# Part (ii): behaviour that the change alters (not pinned by the property)
# ---------------------------------------------------------------------------
chords.triads("C")
chords.sevenths("C")
print("OBSERVED: type of chords._triads_cache['C'] = %s of %s" % (
    type(chords._triads_cache["C"]).__name__, type(chords._triads_cache["C"][0]).__name__))
print("OBSERVED: type of chords._sevenths_cache['C'] = %s of %s" % (
    type(chords._sevenths_cache["C"]).__name__, type(chords._sevenths_cache["C"][0]).__name__))

calls = []
_orig_triad = chords.triad


def _counting_triad(note, key):
    calls.append((note, key))
    return _orig_triad(note, key)


chords._triads_cache.clear()
chords.triad = _counting_triad
try:
    result = chords.triads("G")
finally:
    chords.triad = _orig_triad
print("OBSERVED: an uncached triads('G') called chords.triad() %d times (result %r ...)" % (len(calls), result[0]))
print("OBSERVED: chords has helper _stack_thirds: %s" % hasattr(chords, "_stack_thirds"))

finish()
