#!/usr/bin/env python
"""Demo for C15 / change a: the hand-written memo dictionaries of
mingus.core.keys and mingus.core.chords become functools.lru_cache helpers.

(i)  checks property C15 clause by clause (prints PASS / exit 0 when it holds);
(ii) prints OBSERVED: lines showing what the change alters (private module
     attributes that hold the memo tables).

The tree under test is chosen by the caller through PYTHONPATH.
"""
from __future__ import print_function

import sys
import warnings

warnings.simplefilter("ignore")


def property_checks():
    """Check every clause of property C15 directly; return a list of failures.

    All expected values are written down from music theory / arithmetic /
    the MIDI file format, never taken from a second mingus call.
    """
    import copy
    import random

    from mingus.core import chords, intervals, keys, notes, progressions, scales
    from mingus.containers import Bar, Composition, Note, NoteContainer, Suite, Track
    from mingus.midi.midi_file_out import MidiFile
    from mingus.midi.midi_track import MidiTrack
    from mingus.midi.sequencer import Sequencer

    failures = []

    def check(cond, what):
        if not cond:
            failures.append(what)

    # ------------------------------------------------------------------
    # Clause 1: every query returns the same value whatever was called
    # before it (cold / warm memo tables, any interleaving).
    # The battery: (label, thunk, value expected from music theory).
    # ------------------------------------------------------------------
    battery = [
        ("get_notes C", lambda: keys.get_notes("C"), ["C", "D", "E", "F", "G", "A", "B"]),
        ("get_notes F", lambda: keys.get_notes("F"), ["F", "G", "A", "Bb", "C", "D", "E"]),
        ("get_notes c", lambda: keys.get_notes("c"), ["C", "D", "Eb", "F", "G", "Ab", "Bb"]),
        ("get_notes Eb", lambda: keys.get_notes("Eb"), ["Eb", "F", "G", "Ab", "Bb", "C", "D"]),
        ("get_notes f#", lambda: keys.get_notes("f#"), ["F#", "G#", "A", "B", "C#", "D", "E"]),
        ("get_notes Cb", lambda: keys.get_notes("Cb"), ["Cb", "Db", "Eb", "Fb", "Gb", "Ab", "Bb"]),
        ("get_notes a#", lambda: keys.get_notes("a#"), ["A#", "B#", "C#", "D#", "E#", "F#", "G#"]),
        ("get_notes default", lambda: keys.get_notes(), ["C", "D", "E", "F", "G", "A", "B"]),
        ("signature accidentals A", lambda: keys.get_key_signature_accidentals("A"), ["F#", "C#", "G#"]),
        ("signature accidentals Eb", lambda: keys.get_key_signature_accidentals("Eb"), ["Bb", "Eb", "Ab"]),
        ("get_key -3", lambda: keys.get_key(-3), ("Eb", "c")),
        ("key signature b", lambda: keys.get_key_signature("b"), 2),
        (
            "triads C",
            lambda: chords.triads("C"),
            [
                ["C", "E", "G"],
                ["D", "F", "A"],
                ["E", "G", "B"],
                ["F", "A", "C"],
                ["G", "B", "D"],
                ["A", "C", "E"],
                ["B", "D", "F"],
            ],
        ),
        (
            "triads d",
            lambda: chords.triads("d"),
            [
                ["D", "F", "A"],
                ["E", "G", "Bb"],
                ["F", "A", "C"],
                ["G", "Bb", "D"],
                ["A", "C", "E"],
                ["Bb", "D", "F"],
                ["C", "E", "G"],
            ],
        ),
        (
            "sevenths G",
            lambda: chords.sevenths("G"),
            [
                ["G", "B", "D", "F#"],
                ["A", "C", "E", "G"],
                ["B", "D", "F#", "A"],
                ["C", "E", "G", "B"],
                ["D", "F#", "A", "C"],
                ["E", "G", "B", "D"],
                ["F#", "A", "C", "E"],
            ],
        ),
        ("tonic c", lambda: chords.tonic("c"), ["C", "Eb", "G"]),
        ("dominant7 C", lambda: chords.dominant7("C"), ["G", "B", "D", "F"]),
        ("subdominant Bb", lambda: chords.subdominant("Bb"), ["Eb", "G", "Bb"]),
        ("vii7 C", lambda: chords.vii7("C"), ["B", "D", "F", "A"]),
        ("triad E in B", lambda: chords.triad("E", "B"), ["E", "G#", "B"]),
        ("seventh C in C", lambda: chords.seventh("C", "C"), ["C", "E", "G", "B"]),
        ("major_triad C", lambda: chords.major_triad("C"), ["C", "E", "G"]),
        ("from_shorthand Am7", lambda: chords.from_shorthand("Am7"), ["A", "C", "E", "G"]),
        ("chords.invert", lambda: chords.invert(["C", "E", "G"]), ["E", "G", "C"]),
        ("second_inversion", lambda: chords.second_inversion(["C", "E", "G"]), ["G", "C", "E"]),
        ("chords.determine CEG", lambda: chords.determine(["C", "E", "G"])[0], "C major triad"),
        ("determine_triad ACE", lambda: chords.determine_triad(["A", "C", "E"], True), ["Am", "CM6"]),
        ("third E in C", lambda: intervals.third("E", "C"), "G"),
        ("fifth E in F", lambda: intervals.fifth("E", "F"), "Bb"),
        ("seventh E in B", lambda: intervals.seventh("E", "B"), "D#"),
        ("major_third E", lambda: intervals.major_third("E"), "G#"),
        ("minor_seventh Cb", lambda: intervals.minor_seventh("Cb"), "Bbb"),
        ("perfect_fifth B", lambda: intervals.perfect_fifth("B"), "F#"),
        ("measure D C", lambda: intervals.measure("D", "C"), 10),
        ("intervals.determine", lambda: intervals.determine("C", "Eb"), "minor third"),
        ("intervals.invert", lambda: intervals.invert(["C", "E"]), ["E", "C"]),
        ("from_shorthand A b3", lambda: intervals.from_shorthand("A", "b3"), "C"),
        (
            "to_chords I V7",
            lambda: progressions.to_chords(["I", "V7"], "C"),
            [["C", "E", "G"], ["G", "B", "D", "F"]],
        ),
        ("to_chords bIV in C", lambda: progressions.to_chords("bIV", "C"), [["Fb", "Ab", "Cb"]]),
        ("to_chords VIm7 in F", lambda: progressions.to_chords("VIm7", "F"), [["D", "F", "A", "C"]]),
        ("progressions.determine", lambda: progressions.determine(["G", "B", "D"], "C"), ["dominant"]),
        (
            "progressions.determine list",
            lambda: progressions.determine([["C", "E", "G"], ["G", "B", "D"]], "C", True),
            [["I"], ["V"]],
        ),
        (
            "substitute",
            lambda: progressions.substitute(["I", "IV", "V", "I"], 0),
            ["III", "III7", "VI", "VI7", "I7"],
        ),
        ("parse_string", lambda: progressions.parse_string("bIM7"), ("I", -1, "M7")),
        ("skip VII", lambda: progressions.skip("VII"), "I"),
        ("int_to_note", lambda: notes.int_to_note(10, "b"), "Bb"),
        ("augment", lambda: notes.augment("Cb"), "C"),
    ]

    def run_battery(stage):
        for label, thunk, expected in battery:
            try:
                got = thunk()
            except Exception as exc:  # pragma: no cover
                check(False, "%s: %s raised %r" % (stage, label, exc))
                continue
            check(got == expected, "%s: %s gave %r, expected %r" % (stage, label, got, expected))

    # (a) cold: the battery is the very first thing this process asks
    run_battery("cold")
    # (b) warm, the same order, and in reverse
    run_battery("warm")
    battery.reverse()
    run_battery("warm, reversed")

    # (c) random call histories over the public theory API, then the battery
    all_keys = [k for couple in keys.keys for k in couple]
    note_names = ["C", "D#", "Eb", "F##", "Gb", "A", "Bbb", "B#", "Cb", "E"]
    numerals = ["I", "ii", "III7", "IV", "V7", "bVI", "#VIIdim7", "VIm", "IIM7", "Vdom7"]
    shorthands = ["C", "Am7", "Gdim", "F#m7b5", "BbM7", "D7", "Esus4", "Ab6", "C/G", "Dm|G"]

    def one_random_call(rnd):
        k = rnd.choice(all_keys + ["H", "", "c##"])
        n = rnd.choice(note_names + ["X", ""])
        pool = [
            lambda: keys.get_notes(k),
            lambda: keys.get_notes(k).reverse(),
            lambda: keys.get_notes(k).append("junk"),
            lambda: keys.get_key_signature(k),
            lambda: keys.get_key_signature_accidentals(k).append("junk"),
            lambda: keys.relative_major(k),
            lambda: keys.relative_minor(k),
            lambda: keys.Key(k),
            lambda: chords.triads(k)[rnd.randrange(7)].append("junk"),
            lambda: chords.triads(k).pop(),
            lambda: chords.sevenths(k)[rnd.randrange(7)].reverse(),
            lambda: chords.sevenths(k).clear(),
            lambda: chords.tonic(k).append("junk"),
            lambda: chords.dominant7(k).pop(),
            lambda: chords.subtonic(k).reverse(),
            lambda: chords.triad(n, k),
            lambda: chords.seventh(n, k),
            lambda: chords.major_triad(n),
            lambda: chords.minor_seventh(n),
            lambda: chords.dominant_thirteenth(n),
            lambda: chords.from_shorthand(rnd.choice(shorthands)).append("junk"),
            lambda: chords.determine(rnd.choice([["C", "E", "G"], ["A", "C", "E", "G"], ["C"], []])),
            lambda: chords.invert(rnd.choice([["C", "E", "G"], ["D", "F#", "A", "C"]])),
            lambda: intervals.interval(k, n, rnd.randrange(-3, 9)),
            lambda: intervals.second(n, k),
            lambda: intervals.sixth(n, k),
            lambda: intervals.unison(n),
            lambda: intervals.minor_second(n),
            lambda: intervals.major_sixth(n),
            lambda: intervals.get_interval(n, rnd.randrange(12), k),
            lambda: intervals.determine(n, rnd.choice(note_names)),
            lambda: intervals.invert([n, rnd.choice(note_names)]),
            lambda: intervals.from_shorthand(n, rnd.choice(["1", "b3", "#4", "5", "bb7", "9"])),
            lambda: intervals.is_consonant(n, rnd.choice(note_names)),
            lambda: progressions.to_chords([rnd.choice(numerals), rnd.choice(numerals)], k),
            lambda: progressions.to_chords(rnd.choice(numerals), k)[0].append("junk"),
            lambda: progressions.determine(["C", "E", "G"], k, rnd.choice([True, False])),
            lambda: progressions.substitute([rnd.choice(numerals)], 0, rnd.randrange(2)),
            lambda: progressions.substitute_harmonic([rnd.choice(numerals)], 0),
            lambda: notes.reduce_accidentals(n),
            lambda: notes.note_to_int(n),
            lambda: scales.determine(["C", "D", "E", "F", "G", "A", "B"]),
        ]
        try:
            rnd.choice(pool)()
        except Exception:
            pass  # rejected input is part of a history as well

    for seed in range(12):
        rnd = random.Random(seed)
        for _ in range(150):
            one_random_call(rnd)
        rnd.shuffle(battery)
        run_battery("after random history %d" % seed)

    # ------------------------------------------------------------------
    # Clause 3: modifying a returned list never changes a later result.
    # ------------------------------------------------------------------
    def wreck(value):
        if isinstance(value, list):
            for item in value:
                wreck(item)
            value.append("junk")
            value.reverse()
            if len(value) > 1:
                value[1] = "junk2"

    for label, thunk, expected in battery:
        try:
            first = thunk()
            wreck(first)
            again = thunk()
        except Exception as exc:
            check(False, "after wrecking the result: %s raised %r" % (label, exc))
            continue
        check(again == expected, "after wrecking the result: %s gave %r" % (label, again))
        if isinstance(first, list):
            check(again is not first, "%s handed out the same list twice" % label)
    run_battery("after wrecking every result")

    # ------------------------------------------------------------------
    # Clause 2: no library call modifies the lists / dicts passed to it.
    # ------------------------------------------------------------------
    def untouched(label, func, *args):
        before = copy.deepcopy(args)
        try:
            func(*args)
        except Exception as exc:
            check(False, "argument check %s raised %r" % (label, exc))
        check(list(args) == list(before), "%s modified its arguments: %r -> %r" % (label, before, args))

    untouched("chords.determine/1", chords.determine, ["C"])
    untouched("chords.determine/2", chords.determine, ["C", "G"])
    untouched("chords.determine/3", chords.determine, ["E", "G", "C"])
    untouched("chords.determine/4", chords.determine, ["A", "C", "E", "G"], True)
    untouched("chords.determine/5", chords.determine, ["C", "E", "G", "B", "D"])
    untouched("chords.determine/6", chords.determine, ["C", "E", "G", "B", "D", "F"])
    untouched("chords.determine/7", chords.determine, ["C", "E", "G", "B", "D", "F", "A"])
    untouched("chords.invert", chords.invert, ["C", "E", "G"])
    untouched("chords.first_inversion", chords.first_inversion, ["C", "E", "G"])
    untouched("chords.second_inversion", chords.second_inversion, ["C", "E", "G"])
    untouched("chords.third_inversion", chords.third_inversion, ["C", "E", "G", "B"])
    untouched("intervals.invert", intervals.invert, ["C", "E"])
    untouched("progressions.to_chords", progressions.to_chords, ["I", "bIV", "V7"], "D")
    untouched("progressions.determine", progressions.determine, ["G", "B", "D"], "C")
    untouched("progressions.determine/list", progressions.determine, [["C", "E", "G"], ["G", "B", "D"]], "C")
    untouched("progressions.substitute", progressions.substitute, ["I", "IV", "V", "I"], 0, 1)
    untouched("progressions.substitute_harmonic", progressions.substitute_harmonic, ["I", "IV"], 1)
    untouched("progressions.substitute_minor_for_major", progressions.substitute_minor_for_major, ["VIm7"], 0)
    untouched("progressions.substitute_major_for_minor", progressions.substitute_major_for_minor, ["VM7"], 0)
    untouched(
        "progressions.substitute_diminished_for_diminished",
        progressions.substitute_diminished_for_diminished,
        ["VII"],
        0,
    )
    untouched("scales.determine", scales.determine, ["C", "D", "E", "F", "G", "A", "B"])
    untouched("Note(dynamics)", Note, "C", 4, {"velocity": 20, "channel": 3})
    untouched("NoteContainer(list)", NoteContainer, ["G", "C", "E"])
    untouched("NoteContainer(list of lists)", NoteContainer, [["C", 5, {"velocity": 20}], ["E", 6]])
    untouched("NoteContainer.add_note(dynamics)", NoteContainer().add_note, "C", 4, {"velocity": 9})
    untouched("NoteContainer.remove_notes", NoteContainer(["C", "E", "G"]).remove_notes, ["E", "C"])
    untouched("Bar.place_notes", Bar().place_notes, ["G", "C", "E"], 4)
    untouched("Track.from_chords", Track().from_chords, ["C", ["Am", "Dm"], "G7"], 1)
    track_list = [MidiTrack(), MidiTrack(90)]
    track_list_before = list(track_list)
    data_before = [t.track_data for t in track_list]
    mf = MidiFile(track_list)
    mf.get_midi_data()
    mf.header()
    check(
        len(track_list) == 2 and all(a is b for a, b in zip(track_list, track_list_before)),
        "MidiFile() modified the list of tracks passed to it",
    )
    check([t.track_data for t in track_list] == data_before, "MidiFile() modified the tracks passed to it")

    # ------------------------------------------------------------------
    # Clause 4: sibling instances never share content; class defaults stay
    # as they were; copies are independent.
    # ------------------------------------------------------------------
    def class_defaults(cls):
        res = {}
        for name, value in vars(cls).items():
            if name.startswith("__") or callable(value):
                continue
            if isinstance(value, (property, staticmethod, classmethod)):
                continue
            res[name] = copy.deepcopy(value)
        return res

    classes = [Note, NoteContainer, Bar, Track, Composition, Suite, MidiFile, MidiTrack, Sequencer]
    defaults_before = dict((c, class_defaults(c)) for c in classes)

    # NoteContainer
    a, b = NoteContainer(), NoteContainer()
    a.add_notes(["C", "E", "G"])
    a + "B"
    a.transpose("3")
    check(len(b) == 0 and b.notes == [], "NoteContainer siblings share notes")
    check([n.name for n in a] == ["E", "G#", "B", "D#"], "NoteContainer A has the wrong content")
    b.add_note("D")
    a.empty()
    check([n.name for n in b] == ["D"], "emptying NoteContainer A changed B")

    # Note: copies
    n1 = Note("C", 4, velocity=70, channel=2)
    n2 = Note(n1)
    check((n2.name, n2.octave, n2.velocity, n2.channel) == ("C", 4, 70, 2), "Note copy differs")
    n2.augment()
    n2.octave_up()
    n2.set_velocity(10)
    n2.set_channel(5)
    n2.transpose("5")
    check(
        (n1.name, n1.octave, n1.velocity, n1.channel) == ("C", 4, 70, 2),
        "changing the copy of a Note changed the original",
    )
    n1.diminish()
    check(n2.name == "G#" and n2.octave == 5, "changing the original Note changed the copy")
    n3 = Note()
    check(
        (n3.name, n3.octave, n3.velocity, n3.channel) == ("C", 4, 64, 1), "a fresh Note is not C-4 vel 64 ch 1"
    )

    # NoteContainer: copies
    nc1 = NoteContainer(["C", "E", "G"])
    nc2 = NoteContainer(nc1)
    check([n.name for n in nc2] == ["C", "E", "G"], "NoteContainer copy differs")
    nc2.augment()
    nc2[0].octave_up()
    nc2.add_note("B")
    check(
        [(n.name, n.octave) for n in nc1] == [("C", 4), ("E", 4), ("G", 4)],
        "changing the copy of a NoteContainer changed the original",
    )
    nc1.transpose("3")
    check(
        sorted((n.name, n.octave) for n in nc2) == sorted([("C#", 5), ("E#", 4), ("G#", 4), ("B", 4)]),
        "changing the original NoteContainer changed the copy: %r" % nc2,
    )

    # Bar
    a, b = Bar(), Bar("D", (3, 4))
    a.place_notes(["C", "E"], 4)
    a.place_rest(4)
    a + "G"
    a.transpose("3")
    a.set_meter((6, 8))
    check(len(b) == 0 and b.bar == [] and b.current_beat == 0.0, "Bar siblings share content")
    check(b.meter == (3, 4) and b.key.key == "D" and b.length == 0.75, "Bar B lost its meter / key")
    check(len(a) == 3 and a.current_beat == 0.75, "Bar A has the wrong content")
    b.place_notes("A", 2)
    a.empty()
    check(len(b) == 1 and b.current_beat == 0.5, "emptying Bar A changed B")

    # Track
    a, b = Track(), Track()
    a.add_notes("C", 4)
    a.add_bar(Bar())
    a.from_chords(["C", "G7"], 2)
    a.name = "first"
    check(len(b) == 0 and b.bars == [] and b.name == "Untitled", "Track siblings share content")
    check(len(a) >= 2, "Track A has the wrong content")

    # Composition
    a, b = Composition(), Composition()
    a.add_track(Track())
    a.add_note("C")
    a.set_title("one", "sub")
    a.set_author("me", "me@example.org")
    check(
        len(b) == 0 and b.tracks == [] and b.selected_tracks == [] and b.title == "Untitled" and b.author == "",
        "Composition siblings share content",
    )
    check(len(a) == 1 and a.selected_tracks == [0], "Composition A has the wrong content")
    b.add_track(Track())
    a.reset()
    check(len(b) == 1 and b.selected_tracks == [0], "resetting Composition A changed B")

    # Suite
    a, b = Suite(), Suite()
    a.add_composition(Composition())
    a + Composition()
    a.set_title("t", "s")
    a.set_author("x", "y")
    check(len(b) == 0 and b.compositions == [] and b.title == "Untitled" and b.author == "", "Suite siblings share")
    check(len(a) == 2, "Suite A has the wrong content")

    # MidiTrack: a fresh track holds exactly one tempo event
    # 00 ff 51 03 + 60000000/120 = 500000 = 0x07a120 microseconds per quarter note
    tempo120 = b"\x00\xff\x51\x03\x07\xa1\x20"
    a, b = MidiTrack(), MidiTrack()
    check(b.track_data == tempo120, "a fresh MidiTrack does not hold one 120 bpm tempo event")
    a.set_deltatime(5)
    a.play_Note(Note("C", 4))
    bar = Bar()
    bar.place_notes("E", 4)
    bar.place_rest(4)
    a.play_Bar(bar)
    a.change_instrument = True
    a.instrument = 9
    a.set_tempo(90)
    check(
        b.track_data == tempo120
        and b.delta_time == b"\x00"
        and b.delay == 0
        and b.bpm == 120
        and b.change_instrument is False
        and b.instrument == 1,
        "MidiTrack siblings share content",
    )
    check(len(a.track_data) > len(tempo120) and a.bpm == 90 and a.delay == 72, "MidiTrack A is wrong")
    b.play_Note(Note("D", 4))
    a.reset()
    # note on, channel 1, key 50 + 12, velocity 64
    check(b.track_data == tempo120 + b"\x00\x91\x3e\x40", "resetting MidiTrack A changed B")

    # MidiFile
    a, b = MidiFile(), MidiFile()
    a.tracks.append(MidiTrack())
    a.time_division = b"\x01\xe0"
    check(b.tracks == [] and b.time_division == b"\x00\x48", "MidiFile siblings share content")
    # MThd, length 6, format 1, no tracks, 72 ticks per quarter note
    check(b.get_midi_data() == b"MThd\x00\x00\x00\x06\x00\x01\x00\x00\x00\x48", "empty MidiFile B is wrong")
    check(a.get_midi_data()[:14] == b"MThd\x00\x00\x00\x06\x00\x01\x00\x01\x01\xe0", "MidiFile A is wrong")
    c, d = MidiFile([MidiTrack()]), MidiFile([MidiTrack(), MidiTrack()])
    c.tracks.append(MidiTrack())
    c.tracks[0].play_Note(Note("C"))
    check(len(d.tracks) == 2 and all(t.track_data == tempo120 for t in d.tracks), "MidiFile(list) siblings share")

    # Sequencer
    class Listener(object):
        def __init__(self):
            self.seen = []

        def notify(self, msg_type, params):
            self.seen.append(msg_type)

    a, b = Sequencer(), Sequencer()
    la, lb = Listener(), Listener()
    a.attach(la)
    b.attach(lb)
    a.play_Note(Note("C"))
    check(a.listeners == [la] and b.listeners == [lb], "Sequencer siblings share their listeners")
    check(len(la.seen) > 0 and lb.seen == [], "a listener of Sequencer B heard Sequencer A")
    a.detach(la)
    check(b.listeners == [lb], "detaching from Sequencer A changed B")

    for c in classes:
        check(class_defaults(c) == defaults_before[c], "class defaults of %s changed" % c.__name__)
    check(NoteContainer.notes == type(NoteContainer.notes)(), "NoteContainer.notes class default not empty")
    check(len(Bar.bar) == 0 and len(Track.bars) == 0, "Bar.bar / Track.bars class default not empty")
    check(len(Composition.tracks) == 0 and len(Suite.compositions) == 0, "class default not empty")
    check(len(MidiFile.tracks) == 0 and MidiTrack.track_data == b"", "MIDI class default not empty")
    fresh = [NoteContainer(), Bar(), Track(), Composition(), Suite(), MidiFile()]
    check(all(len(getattr(x, "tracks", x)) == 0 for x in fresh), "a fresh container is not empty")

    # ------------------------------------------------------------------
    # Clause 5: the frequency-to-note index does not depend on earlier
    # lookups.  Table entry n is 440 * 2 ** ((n - 57) / 12) Hz; the index of
    # f is the first entry that is not below f, 128 when out of range.
    # ------------------------------------------------------------------
    try:
        from mingus.extra import fft
    except ImportError as exc:  # numpy missing
        fft = None
        print("note: mingus.extra.fft not importable (%s); clause 5 skipped" % exc)
    if fft is not None:

        def expected_index(f):
            if f <= 0:
                return 128
            for n in range(128):
                if f <= 440.0 * 2.0 ** ((n - 57) / 12.0):
                    return n
            return 128

        rnd = random.Random(99)
        freqs = [rnd.uniform(1.0, 13000.0) for _ in range(300)]
        freqs += [rnd.uniform(8.0, 40.0) for _ in range(60)]
        freqs += [27.5 * 1.001, 261.0, 262.0, 439.9, 440.1, 880.5, 12543.0, 12544.0, 20000.0, 0.0, -3.0, 1e-9]
        expected = dict((f, expected_index(f)) for f in freqs)
        orders = [
            sorted(freqs),
            sorted(freqs, reverse=True),
            list(freqs),
            [f for f in freqs for _ in range(2)],
        ]
        for s in range(4):
            shuffled = list(freqs)
            random.Random(s).shuffle(shuffled)
            orders.append(shuffled)
        for order in orders:
            for f in order:
                got = fft._find_log_index(f)
                if got != expected[f]:
                    check(False, "_find_log_index(%r) gave %r, expected %r" % (f, got, expected[f]))
                    break
        # alternate between two far apart inputs
        for _ in range(5):
            check(fft._find_log_index(30.0) == expected_index(30.0), "_find_log_index(30.0) after a high lookup")
            check(fft._find_log_index(9000.0) == expected_index(9000.0), "_find_log_index(9000.0) after a low one")
        table = [(440.0, 1.0), (442.0, 0.5), (100.0, 0.25), (441.0, 0.125)]
        table_before = list(table)
        res1 = fft.find_notes(table)
        res2 = fft.find_notes(list(reversed(table)))
        check(table == table_before, "find_notes modified its argument")
        amp1 = dict((int(n), a) for (n, a) in res1 if n is not None and a > 0)
        amp2 = dict((int(n), a) for (n, a) in res2 if n is not None and a > 0)
        # 440 Hz is A-4 (note number 57); 441 and 442 fall into the next bin (58); 100 Hz lies
        # between G-2 (31, 97.999 Hz) and G#-2 (32, 103.83 Hz) and so goes to 32
        check(amp1 == {57: 1.0, 58: 0.625, 32: 0.25}, "find_notes gave %r" % amp1)
        check(amp2 == amp1, "find_notes depends on the order of the table: %r" % amp2)

    return failures


def observed():
    from mingus.core import chords, keys

    # warm everything up so that tables that are filled lazily exist
    keys.get_notes("C")
    keys.get_notes("eb")
    chords.triads("C")
    chords.sevenths("G")
    for mod, names in ((keys, ["_key_cache"]), (chords, ["_triads_cache", "_sevenths_cache"])):
        for name in names:
            table = getattr(mod, name, None)
            if table is None:
                print("OBSERVED: %s.%s does not exist" % (mod.__name__, name))
            else:
                print(
                    "OBSERVED: %s.%s is a %s with keys %r"
                    % (mod.__name__, name, type(table).__name__, sorted(table))
                )
    for mod in (keys, chords):
        memoised = sorted(
            name for name, obj in vars(mod).items() if callable(obj) and hasattr(obj, "cache_info")
        )
        print("OBSERVED: functions of %s that offer cache_info()/cache_clear(): %r" % (mod.__name__, memoised))


def main():
    failures = property_checks()
    observed()
    if failures:
        for f in failures[:40]:
            print("FAIL:", f)
        print("FAIL (%d checks failed)" % len(failures))
        return 1
    print("PASS")
    return 0


if __name__ == "__main__":
    sys.exit(main())
