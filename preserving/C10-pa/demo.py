# -*- coding: utf-8 -*-
"""Standalone demo for property C10 (Note = totally ordered pitch number with
lossless text and Hz forms).

Part (i) checks the clauses of the property from first principles and prints
PASS / FAIL.  Part (ii) prints OBSERVED: lines that show the behaviour the
accompanying patch alters (behaviour the property does not pin down).

The tree under test is chosen by the caller via PYTHONPATH.
"""
from __future__ import print_function

import copy
import operator
import sys

from mingus.containers.note import Note

NATURAL = {"C": 0, "D": 2, "E": 4, "F": 5, "G": 7, "A": 9, "B": 11}
ACCIDENTALS = ["", "#", "##", "b", "bb"]
NAMES = [l + a for l in "CDEFGAB" for a in ACCIDENTALS]
OCTAVES = list(range(10))

failures = []


def check(cond, msg):
    if not cond:
        failures.append(msg)


def expected_int(name, octave):
    return 12 * octave + NATURAL[name[0]] + name.count("#") - name[1:].count("b")


def rejected(fn, *args, **kwargs):
    """True when the call is refused with an exception (any class)."""
    try:
        fn(*args, **kwargs)
    except Exception:
        return True
    return False


def printed_text(note):
    """The printed form of a note is 'Name-octave' between quotes."""
    return str(note).strip("'\"")


# ---- clause 1: integer value -------------------------------------------------
for name in NAMES:
    for octave in OCTAVES:
        n = Note(name, octave)
        e = expected_int(name, octave)
        check(int(n) == e, "int(Note(%r,%d)) = %r, expected %d" % (name, octave, int(n), e))
        check(type(int(n)) is int, "int() of a note is not an int")

# ---- clause 2: from integer / text / printed form / other note --------------
for i in range(128):
    check(int(Note(i)) == i, "Note(%d) has pitch %d" % (i, int(Note(i))))
    check(int(Note().from_int(i)) == i, "from_int(%d) has pitch %d" % (i, int(Note().from_int(i))))
    m = Note(i)
    check(int(Note(printed_text(m))) == i, "printed form of Note(%d) reads back differently" % i)
    check(int(Note(m)) == i, "Note(Note(%d)) differs" % i)
for name in NAMES:
    for octave in OCTAVES:
        e = expected_int(name, octave)
        text = "%s-%d" % (name, octave)
        check(int(Note(text)) == e, "Note(%r) has pitch %d, expected %d" % (text, int(Note(text)), e))
        check(int(Note().set_note(text)) == e, "set_note(%r) differs" % text)
        n = Note(name, octave)
        check(int(Note(printed_text(n))) == e, "printed form %s reads back differently" % n)
        check(int(Note(n)) == e, "Note(Note(%r)) differs" % text)

# ---- clause 3: the six comparison operators agree with the integers ----------
OPS = [operator.lt, operator.le, operator.eq, operator.ne, operator.ge, operator.gt]
sample = [(name, octave) for name in NAMES for octave in (0, 3, 4, 5, 9)]
sample_notes = [(Note(nm, o), expected_int(nm, o)) for nm, o in sample]
for a, ia in sample_notes:
    for b, ib in sample_notes:
        for op in OPS:
            r = op(a, b)
            if bool(r) != op(ia, ib) or not isinstance(r, bool):
                failures.append("%s(%s, %s) = %r" % (op.__name__, a, b, r))
check(Note("C#", 4) == Note("Db", 4), "enharmonic notes are not equal")
check(Note("B#", 3) == Note("C", 4) == Note("Dbb", 4), "B#-3, C-4, Dbb-4 should be equal")
check(not (Note("B#", 3) != Note("C", 4)), "B#-3 != C-4 should be False")
shuffled = [Note(nm, o) for nm, o in sample[::7] + sample[::5] + sample[::3]]
ints_sorted = [int(n) for n in sorted(shuffled)]
check(ints_sorted == sorted(ints_sorted), "sorted() does not sort by pitch")

# ---- clause 4: Hz ------------------------------------------------------------
PITCHES = [440, 415, 432, 442, 466.16, 392.0]


def close(a, b, rel=1e-9):
    return abs(a - b) <= rel * max(abs(a), abs(b))


check(close(Note("A", 4).to_hertz(), 440.0), "A-4 is not 440 Hz by default")
for sp in PITCHES:
    check(close(Note("A", 4).to_hertz(sp), sp), "A-4 is not at standard pitch %r" % sp)
    for i in range(128):
        hz = Note(i).to_hertz(sp)
        check(close(hz, sp * 2.0 ** ((i - 57) / 12.0)), "Note(%d).to_hertz(%r) = %r" % (i, sp, hz))
        if i + 12 < 128:
            check(close(Note(i + 12).to_hertz(sp), 2 * hz), "no doubling per octave at %d" % i)
        for cents in (-40, -25, -10, 0, 10, 25, 40):
            detuned = hz * 2.0 ** (cents / 1200.0)
            back = Note().from_hertz(detuned, sp)
            check(int(back) == i, "Hz round trip of %d (%+d cents, A=%r) gives %d" % (i, cents, sp, int(back)))
for name in NAMES:
    for octave in OCTAVES:
        e = expected_int(name, octave)
        check(close(Note(name, octave).to_hertz(), 440.0 * 2.0 ** ((e - 57) / 12.0)),
              "%s-%d has the wrong frequency" % (name, octave))

# ---- clause 5: Helmholtz shorthand ------------------------------------------
for text, sh in [("C-4", "c'"), ("C-3", "c"), ("C-2", "C"), ("C-1", "C,"), ("C-0", "C,,"), ("A-5", "a''")]:
    check(Note(text).to_shorthand() == sh, "Helmholtz of %s is %r" % (text, Note(text).to_shorthand()))
for name in NAMES:
    for octave in OCTAVES:
        sh = Note(name, octave).to_shorthand()
        back = Note().from_shorthand(sh)
        check(back.name == name and back.octave == octave,
              "shorthand %r of %s-%d reads back as %s-%s" % (sh, name, octave, back.name, back.octave))

# ---- clause 6: rejections ----------------------------------------------------
for v in (-2, -1, 128, 129, 1000):
    check(rejected(Note, "C", 4, velocity=v), "Note(velocity=%d) accepted" % v)
    check(rejected(Note().set_velocity, v), "set_velocity(%d) accepted" % v)
    check(rejected(Note().set_note, "C", 4, velocity=v), "set_note(velocity=%d) accepted" % v)
for v in (0, 1, 64, 126, 127):
    check(Note("C", 4, velocity=v).velocity == v, "velocity %d refused or lost" % v)
    n = Note(); n.set_velocity(v)
    check(n.velocity == v, "set_velocity(%d) lost" % v)
for c in (-2, -1, 16, 17, 100):
    check(rejected(Note, "C", 4, channel=c), "Note(channel=%d) accepted" % c)
    check(rejected(Note().set_channel, c), "set_channel(%d) accepted" % c)
    check(rejected(Note().set_note, "C", 4, channel=c), "set_note(channel=%d) accepted" % c)
for c in (0, 1, 8, 14, 15):
    check(Note("C", 4, channel=c).channel == c, "channel %d refused or lost" % c)
    n = Note(); n.set_channel(c)
    check(n.channel == c, "set_channel(%d) lost" % c)
for bad in ("H", "c", "X", "C#x", "Cx", "#C", "C 23", "C# 123", "H-4", "c-4", "C-4-5", "C$", "1", "Cis"):
    check(rejected(Note, bad), "malformed name %r accepted by Note()" % bad)
    check(rejected(Note().set_note, bad), "malformed name %r accepted by set_note()" % bad)

# ---- clause 7: copies are independent ---------------------------------------
for maker in (Note, copy.copy, copy.deepcopy):
    orig = Note("Eb", 5, velocity=100, channel=3)
    dup = maker(orig)
    check(dup is not orig, "%s returned the same object" % maker.__name__)
    check((dup.name, dup.octave, dup.velocity, dup.channel) == ("Eb", 5, 100, 3),
          "%s did not copy the note" % maker.__name__)
    dup.name = "F#"; dup.octave = 2; dup.set_velocity(1); dup.set_channel(9)
    check((orig.name, orig.octave, orig.velocity, orig.channel) == ("Eb", 5, 100, 3),
          "changing the copy made by %s changed the original" % maker.__name__)
    dup2 = maker(orig)
    orig.from_int(0); orig.set_velocity(2)
    check((dup2.name, dup2.octave, dup2.velocity) == ("Eb", 5, 100),
          "changing the original changed the copy made by %s" % maker.__name__)


def finish():
    if failures:
        print("FAIL (%d)" % len(failures))
        for f in failures[:20]:
            print("  " + f)
        sys.exit(1)
    print("PASS")
    sys.exit(0)


# ---- part (ii): behaviour the patch alters (not pinned by the property) -----
# Exact float results of to_hertz: the property only says "doubles per octave"
# and "A-4 at the standard pitch", which (in floating point) fixes the values
# only up to rounding.  Show the last digits and whether octaves are *exactly*
# a factor two apart.
for text, sp in [("D-0", 440), ("C#-0", 442), ("G-3", 440), ("F#-7", 415)]:
    print("OBSERVED: Note(%r).to_hertz(%r) = %r" % (text, sp, Note(text).to_hertz(sp)))
exact = sum(1 for i in range(116) for sp in PITCHES
            if Note(i + 12).to_hertz(sp) == 2 * Note(i).to_hertz(sp))
print("OBSERVED: octave pairs that are bit-exactly a factor 2 apart: %d of %d" % (exact, 116 * len(PITCHES)))
bitexact = sum(1 for i in range(128) if Note(i).to_hertz() == 2 ** ((i - 57) / 12.0) * 440)
print("OBSERVED: notes 0..127 whose Hz is bit-identical to 2**((n-57)/12.0)*440: %d of 128" % bitexact)
finish()
