"""Demo for property C05 (scales realise their step pattern; recognition is exact).

Part (i) checks the clauses of the property from first principles (own
pitch arithmetic, own heptatonic speller, own brute-force recognition spec).
Part (ii) prints OBSERVED: lines for behaviour the property does not pin down.
"""
from __future__ import print_function

import random
import sys

import mingus.core.scales as scales

# ---------------------------------------------------------------- first principles
LETTERS = "CDEFGAB"
NATURAL = {"C": 0, "D": 2, "E": 4, "F": 5, "G": 7, "A": 9, "B": 11}


def pitch(note):
    """Pitch class of a note name such as 'F##' or 'Bb'."""
    return (NATURAL[note[0]] + note.count("#") - note.count("b")) % 12


def spell(tonic, steps):
    """Heptatonic spelling: consecutive letters, the given semitone steps.

    Returns the 7 notes (without the closing tonic).
    """
    res = [tonic]
    for step in steps[:-1]:
        prev = res[-1]
        letter = LETTERS[(LETTERS.index(prev[0]) + 1) % 7]
        want = (pitch(prev) + step) % 12
        diff = (want - NATURAL[letter] + 6) % 12 - 6
        res.append(letter + ("#" * diff if diff > 0 else "b" * (-diff)))
    return res


MAJOR = [2, 2, 1, 2, 2, 2, 1]


def rot(k):
    return MAJOR[k:] + MAJOR[:k]


PATTERNS = {
    "Ionian": rot(0),
    "Dorian": rot(1),
    "Phrygian": rot(2),
    "Lydian": rot(3),
    "Mixolydian": rot(4),
    "Aeolian": rot(5),
    "Locrian": rot(6),
    "Major": [2, 2, 1, 2, 2, 2, 1],
    "HarmonicMajor": [2, 2, 1, 2, 1, 3, 1],
    "NaturalMinor": [2, 1, 2, 2, 1, 2, 2],
    "HarmonicMinor": [2, 1, 2, 2, 1, 3, 1],
    "MelodicMinor": [2, 1, 2, 2, 2, 2, 1],
    "Bachian": [2, 1, 2, 2, 2, 2, 1],
    "MinorNeapolitan": [1, 2, 2, 2, 1, 3, 1],
    "Chromatic": [1] * 12,
    "WholeTone": [2] * 6,
    "Octatonic": [2, 1] * 4,
}
assert len(PATTERNS) == 17 and all(sum(p) == 12 for p in PATTERNS.values())

# the 15 key pairs (circle of fifths, 7 flats .. 7 sharps)
MAJOR_TONICS = ["Cb", "Gb", "Db", "Ab", "Eb", "Bb", "F", "C", "G", "D", "A", "E", "B", "F#", "C#"]
MINOR_TONICS = ["Ab", "Eb", "Bb", "F", "C", "G", "D", "A", "E", "B", "F#", "C#", "G#", "D#", "A#"]
ANY_TONICS = [l + a for l in LETTERS for a in ("", "#", "b")]

MAJOR_FAMILY = ["Major", "HarmonicMajor"]
MINOR_FAMILY = ["NaturalMinor", "HarmonicMinor", "MelodicMinor", "Bachian", "MinorNeapolitan"]


def tonics_for(cls):
    if cls in MAJOR_FAMILY:
        return MAJOR_TONICS
    if cls in MINOR_FAMILY:
        return MINOR_TONICS
    if cls == "Chromatic":
        # Chromatic takes a key: major keys and (lower-case) minor keys
        return MAJOR_TONICS + [t[0].lower() + t[1:] for t in MINOR_TONICS]
    return ANY_TONICS


NAT_MINOR_DOWN = list(reversed(PATTERNS["NaturalMinor"]))
PHRYGIAN = rot(2)  # natural minor with the lowered second

failures = []


def check(cond, msg):
    if not cond:
        failures.append(msg)


def steps_of(notes, direction):
    ps = [pitch(n) for n in notes]
    return [((b - a) * direction) % 12 for a, b in zip(ps, ps[1:])]


def expected_descending(cls, tonic, asc, n):
    """Expected descending list (None: only the pitches are pinned)."""
    if cls == "MelodicMinor":
        one = spell(tonic, PATTERNS["NaturalMinor"])
    elif cls == "MinorNeapolitan":
        one = spell(tonic, PHRYGIAN)
    else:
        return list(reversed(asc))
    down = [one[0]] + list(reversed(one[1:]))
    return down * n + [tonic]


def check_scales(max_octaves=3):
    for cls in sorted(PATTERNS):
        pattern = PATTERNS[cls]
        klass = getattr(scales, cls)
        for key in tonics_for(cls):
            tonic = key[0].upper() + key[1:]
            for n in range(1, max_octaves + 1):
                s = klass(key, n)
                tag = "%s(%r, %d)" % (cls, key, n)
                asc = s.ascending()
                desc = s.descending()
                # ascending: the pattern n times, tonic at both ends
                check(steps_of(asc, 1) == pattern * n, tag + " ascending steps " + repr(asc))
                check(asc[0] == tonic and asc[-1] == tonic, tag + " ascending tonic")
                if len(pattern) == 7:
                    exp = spell(tonic, pattern) * n + [tonic]
                    check(asc == exp, tag + " ascending spelling %r != %r" % (asc, exp))
                    letters = [x[0] for x in asc]
                    check(
                        all(LETTERS.index(b) == (LETTERS.index(a) + 1) % 7 for a, b in zip(letters, letters[1:])),
                        tag + " consecutive letters",
                    )
                # descending
                check(desc[0] == tonic and desc[-1] == tonic, tag + " descending tonic")
                if cls == "Chromatic":
                    check(
                        [pitch(x) for x in desc] == [pitch(x) for x in reversed(asc)],
                        tag + " descending pitches",
                    )
                else:
                    exp_d = expected_descending(cls, tonic, asc, n)
                    check(desc == exp_d, tag + " descending %r != %r" % (desc, exp_d))
                if cls == "MelodicMinor":
                    check(steps_of(desc, -1) == NAT_MINOR_DOWN * n, tag + " desc steps")
                if cls == "MinorNeapolitan":
                    check(steps_of(desc, -1) == list(reversed(PHRYGIAN)) * n, tag + " desc steps")
                # length, degrees
                check(len(s) == len(pattern) * n + 1 == len(asc), tag + " len")
                check(len(desc) == len(asc), tag + " len desc")
                up = asc[:-1]
                down = list(reversed(desc))[:-1]
                for d in range(1, len(up) + 1):
                    check(s.degree(d) == up[d - 1], tag + " degree a %d" % d)
                    check(s.degree(d, "a") == up[d - 1], tag + " degree a %d" % d)
                    check(s.degree(d, "d") == down[d - 1], tag + " degree d %d" % d)
                # the returned lists are plain lists
                check(type(asc) is list and type(desc) is list, tag + " list type")


def check_equality():
    for t in MAJOR_TONICS:
        check(scales.Major(t) == scales.Ionian(t), "Major == Ionian " + t)
        check(not (scales.Major(t) != scales.Ionian(t)), "Major != Ionian " + t)
        check(scales.Major(t) != scales.HarmonicMajor(t), "Major vs HarmonicMajor " + t)
        check(scales.Major(t, 2) != scales.Major(t, 1), "octaves matter " + t)
        check(scales.Major(t, 2) == scales.Major(t, 2), "same octaves " + t)
    for t in MINOR_TONICS:
        check(scales.NaturalMinor(t) == scales.Aeolian(t), "NaturalMinor == Aeolian " + t)
        # same ascending list, different descending list -> not equal
        check(scales.MelodicMinor(t) != scales.Bachian(t), "Melodic vs Bachian " + t)
        check(not (scales.MelodicMinor(t) == scales.Bachian(t)), "Melodic vs Bachian " + t)
        check(scales.NaturalMinor(t) != scales.Dorian(t), "minor vs dorian " + t)


NAMES = {
    "Major": "%s major",
    "HarmonicMajor": "%s harmonic major",
    "NaturalMinor": "%s natural minor",
    "HarmonicMinor": "%s harmonic minor",
    "MelodicMinor": "%s melodic minor",
    "Bachian": "%s Bachian",
    "MinorNeapolitan": "%s minor Neapolitan",
}


def recognition_spec():
    """[(name, ascending note set, descending note set)] from first principles."""
    table = []
    for fam, tonics in ((MAJOR_FAMILY, MAJOR_TONICS), (MINOR_FAMILY, MINOR_TONICS)):
        for cls in fam:
            for t in tonics:
                asc = spell(t, PATTERNS[cls])
                if cls == "MelodicMinor":
                    desc = spell(t, PATTERNS["NaturalMinor"])
                elif cls == "MinorNeapolitan":
                    desc = spell(t, PHRYGIAN)
                else:
                    desc = asc
                table.append((NAMES[cls] % t, set(asc), set(desc)))
    return table


def check_recognition(samples=400):
    table = recognition_spec()
    assert len(table) == 7 * 15
    rnd = random.Random(5)
    pool = [l + a for l in LETTERS for a in ("", "#", "b", "##", "bb")]
    queries = [[], ["C"], ["A", "Bb", "E", "F#", "G"], ["C", "E", "G"], ["E#"], ["H"], ["C", "C#", "D"]]
    for name, asc, desc in table:
        for src in (asc, desc):
            src = sorted(src)
            queries.append(src)
            queries.append(rnd.sample(src, rnd.randint(1, 6)))
    for _ in range(samples):
        queries.append(rnd.sample(pool, rnd.randint(1, 5)))
    for q in queries:
        want = sorted(name for name, asc, desc in table if set(q) <= asc or set(q) <= desc)
        got = scales.determine(list(q))
        # exactly these scales, each once; the statement does not order them
        check(sorted(got) == want, "determine(%r): %r != %r" % (q, sorted(got), want))
        check(type(got) is list, "determine returns a list")
    # other iterables of notes work the same way
    check(
        sorted(scales.determine(("A", "Bb", "E", "F#", "G")))
        == ["D harmonic major", "G Bachian", "G melodic minor"],
        "determine docstring example",
    )


def run_property_checks():
    check_scales()
    check_equality()
    check_recognition()
    if failures:
        for f in failures[:20]:
            print("FAIL:", f)
        print("FAIL (%d failures)" % len(failures))
        return 1
    print("PASS")
    return 0


def outcome(call):
    try:
        return "returned %r" % (call(),)
    except Exception as e:  # report whatever the library raises
        return "%s: %s" % (type(e).__name__, e)


def observed():
    s = scales.Major("C")
    print("OBSERVED: Major('C').degree(8) -> " + outcome(lambda: s.degree(8)))
    print("OBSERVED: Major('C').degree(8, 'd') -> " + outcome(lambda: s.degree(8, "d")))
    print("OBSERVED: Major('C', 2).degree(15) -> " + outcome(lambda: scales.Major("C", 2).degree(15)))
    print("OBSERVED: Major('C').degree(0) -> " + outcome(lambda: s.degree(0)))
    print("OBSERVED: Major('C').degree(0, 'x') -> " + outcome(lambda: s.degree(0, "x")))


if __name__ == "__main__":
    rc = run_property_checks()
    observed()
    sys.exit(rc)
