from __future__ import print_function

import sys

from mingus.core import intervals, keys
from mingus.core.mt_exceptions import NoteFormatError, RangeError

FIFTHS = "FCGDAEB"  # circle of fifths over the letters
LETTERS = "CDEFGAB"
SEMI = {"C": 0, "D": 2, "E": 4, "F": 5, "G": 7, "A": 9, "B": 11}
failures = []


def check(cond, msg):
    if not cond:
        failures.append(msg)


def spell(pos):
    """Name of the pitch class at position pos on the line of fifths (F=0)."""
    letter = FIFTHS[pos % 7]
    acc = pos // 7
    return letter + "#" * acc + "b" * -acc


def pitch(note):
    return (SEMI[note[0].upper()] + note.count("#") - note[1:].count("b")) % 12


def expected(n):
    """(major, minor, signature accidentals, {letter: spelled note}) for n."""
    major = spell(1 + n)  # C is position 1
    minor = spell(4 + n)  # A is position 4
    minor = minor[0].lower() + minor[1:]
    if n >= 0:
        acc = [FIFTHS[i] + "#" for i in range(n)]
    else:
        acc = [FIFTHS[6 - i] + "b" for i in range(-n)]
    by_letter = dict((l, l) for l in LETTERS)
    for a in acc:
        by_letter[a[0]] = a
    return major, minor, acc, by_letter


def raises(exc, f, *args):
    try:
        f(*args)
    except exc:
        return True
    except Exception:
        return False
    return False


def check_property():
    all_keys = []
    for n in range(-7, 8):
        major, minor, acc, by_letter = expected(n)
        pair = keys.get_key(n)
        check(len(pair) == 2 and pair[0] == major and pair[1] == minor,
              "get_key(%d) -> %r" % (n, pair))
        for key, pattern in ((major, [2, 2, 1, 2, 2, 2, 1]), (minor, [2, 1, 2, 2, 1, 2, 2])):
            all_keys.append(key)
            check(keys.is_valid_key(key), "is_valid_key(%r)" % key)
            check(keys.get_key_signature(key) == n, "signature of %r" % key)
            got_acc = keys.get_key_signature_accidentals(key)
            check(list(got_acc) == acc, "accidentals of %r: %r" % (key, got_acc))
            check(len(got_acc) == abs(n), "count of accidentals of %r" % key)
            ns = keys.get_notes(key)
            start = LETTERS.index(key[0].upper())
            want = [by_letter[LETTERS[(start + i) % 7]] for i in range(7)]
            check(list(ns) == want, "notes of %r: %r" % (key, ns))
            check(ns[0] == key[0].upper() + key[1:], "tonic of %r" % key)
            check([x[0] for x in ns] == [LETTERS[(start + i) % 7] for i in range(7)],
                  "letters of %r" % key)
            steps = [(pitch(ns[(i + 1) % 7]) - pitch(ns[i])) % 12 for i in range(7)]
            check(steps == pattern, "steps of %r: %r" % (key, steps))
            check(sorted(x for x in ns if len(x) > 1) == sorted(acc),
                  "altered notes of %r" % key)
            k = keys.Key(key)
            check(k.key == key, "Key(%r).key" % key)
            check(k.mode == ("major" if key[0].isupper() else "minor"), "Key(%r).mode" % key)
            check(k.signature == n, "Key(%r).signature" % key)
            check(isinstance(k.name, str) and k.name[0] == key[0].upper()
                  and k.name.endswith(k.mode)
                  and ("sharp" in k.name) == ("#" in key)
                  and ("flat" in k.name) == (len(key) > 1 and key[1] == "b"),
                  "Key(%r).name = %r" % (key, k.name))
        check(keys.relative_minor(major) == minor, "relative_minor(%r)" % major)
        check(keys.relative_major(minor) == major, "relative_major(%r)" % minor)
        check(set(keys.get_notes(major)) == set(keys.get_notes(minor)), "note set %r" % major)
        check((pitch(minor) - pitch(major)) % 12 == 9, "minor tonic of %r" % major)
    check(len(set(all_keys)) == 30, "30 distinct keys")

    # rejected input
    for n in list(range(-30, -7)) + list(range(8, 30)) + [100, -100, 10 ** 9]:
        check(raises(RangeError, keys.get_key, n), "get_key(%d) must raise RangeError" % n)
    candidates = ["", "H", "h", "C##", "Fb", "fb", "G#", "d##", "Cmaj", "c ", " C", "CB",
                  "cB", "E#", "B#", "db", "gb", "cb", "D#", "A#", "e#", "X", "1", "C#m",
                  "am", "A b", "Ab ", "#", "b#"]
    for letter in LETTERS + LETTERS.lower():
        for suffix in ("", "#", "b", "##", "bb"):
            candidates.append(letter + suffix)
    for cand in candidates:
        if cand in all_keys:
            continue
        check(not keys.is_valid_key(cand), "is_valid_key(%r) must be False" % cand)
        for f in (keys.get_key_signature, keys.get_key_signature_accidentals, keys.get_notes,
                  keys.relative_major, keys.relative_minor, keys.Key):
            check(raises(NoteFormatError, f, cand),
                  "%s(%r) must raise NoteFormatError" % (getattr(f, "__name__", f), cand))
    for key in all_keys:  # a major key has no relative major, and so on
        if key[0].isupper():
            check(raises(NoteFormatError, keys.relative_major, key), "relative_major(%r)" % key)
        else:
            check(raises(NoteFormatError, keys.relative_minor, key), "relative_minor(%r)" % key)

    # diatonic steps
    funcs = [intervals.second, intervals.third, intervals.fourth, intervals.fifth,
             intervals.sixth, intervals.seventh]
    for n in range(-7, 8):
        major, minor, acc, by_letter = expected(n)
        for key in (major, minor):
            for letter in LETTERS:
                for suffix in ("", "#", "b", "##", "bb", "#b", "###"):
                    note = letter + suffix
                    for step in range(1, 7):
                        want = by_letter[LETTERS[(LETTERS.index(letter) + step) % 7]]
                        got = funcs[step - 1](note, key)
                        check(got == want, "step %d of %r in %r: %r" % (step, note, key, got))
                        got = intervals.interval(key, note, step)
                        check(got == want, "interval(%r, %r, %d): %r" % (key, note, step, got))


def describe(f, *args):
    try:
        return "returns %r" % (f(*args),)
    except Exception as e:  # noqa
        return "raises %s.%s: %s" % (type(e).__module__, type(e).__name__, e)


def finish():
    if failures:
        for f in failures[:20]:
            print("FAIL:", f)
        print("FAILED (%d)" % len(failures))
        sys.exit(1)
    print("PASS")
    sys.exit(0)


if __name__ == "__main__":
    from decimal import Decimal
    from fractions import Fraction

    check_property()
    # not integers, hence outside the statement: stay rejected with RangeError
    for odd in (2.5, -7.5, "2", None, float("nan"), float("inf"), [1], 8.0, -8.0):
        check(raises(RangeError, keys.get_key, odd), "get_key(%r) must raise RangeError" % (odd,))
    # behaviour the change alters: whole numbers that are not of type int, and
    # the text of the range error
    print("OBSERVED: get_key(2.0)", describe(keys.get_key, 2.0))
    print("OBSERVED: get_key(-7.0)", describe(keys.get_key, -7.0))
    print("OBSERVED: get_key(Fraction(6, 2))", describe(keys.get_key, Fraction(6, 2)))
    print("OBSERVED: get_key(Decimal(-1))", describe(keys.get_key, Decimal(-1)))
    print("OBSERVED: get_key(8)", describe(keys.get_key, 8))
    finish()
