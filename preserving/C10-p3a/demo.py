"""Property C10 demo for change a (strict regular-expression Helmholtz reader)."""
import copy
import math
import sys

from mingus.containers import Note

NATURAL = {"C": 0, "D": 2, "E": 4, "F": 5, "G": 7, "A": 9, "B": 11}
ACCIDENTALS = ["", "#", "##", "b", "bb"]
NAMES = [l + a for l in "CDEFGAB" for a in ACCIDENTALS]
OCTAVES = list(range(10))
STANDARD_PITCHES = [415.0, 432, 440, 442.5, 466.16]

failures = []


def check(cond, what):
    if not cond:
        failures.append(what)


def pitch(name, octave):
    """12 x octave + natural pitch of the letter + sharps - flats."""
    return 12 * octave + NATURAL[name[0]] + name.count("#") - name[1:].count("b")


def rejected(fn):
    try:
        fn()
    except Exception:
        return True
    return False


def printed_form(note):
    """What print(note) shows, without any quotation marks around it."""
    return str(note).strip("'\"")


def property_checks():
    # -- integer value, and the four ways of setting a note -----------------
    for name in NAMES:
        for octave in OCTAVES:
            want = pitch(name, octave)
            n = Note(name, octave)
            check(int(n) == want, "int(Note(%r, %d))" % (name, octave))
            text = "%s-%d" % (name, octave)
            t = Note(text)
            check(int(t) == want and t.name == name and t.octave == octave, "Note(%r)" % text)
            check(int(Note().set_note(text)) == want, "set_note(%r)" % text)
            check(int(Note(printed_form(n))) == want, "printed form of %s" % text)
            check(int(Note(repr(n).strip("'\""))) == want, "repr form of %s" % text)
            check(int(Note(n)) == want, "Note(Note(%r))" % text)
    for i in range(128):
        check(int(Note(i)) == i, "Note(%d)" % i)
        check(int(Note().from_int(i)) == i, "from_int(%d)" % i)
        check(int(Note(printed_form(Note(i)))) == i, "printed form of Note(%d)" % i)

    # -- comparisons agree with the integers --------------------------------
    sample = [(nm, o) for nm in NAMES for o in (0, 3, 4, 5, 9)]
    objs = [(Note(nm, o), pitch(nm, o)) for nm, o in sample]
    for a, pa in objs:
        for b, pb in objs:
            ok = (
                (a == b) == (pa == pb)
                and (a != b) == (pa != pb)
                and (a < b) == (pa < pb)
                and (a <= b) == (pa <= pb)
                and (a > b) == (pa > pb)
                and (a >= b) == (pa >= pb)
            )
            check(ok, "comparison %r ? %r" % (a, b))
    for i in range(0, 128, 5):
        for j in range(128):
            a, b = Note(i), Note(j)
            ok = (
                (a == b) == (i == j)
                and (a != b) == (i != j)
                and (a < b) == (i < j)
                and (a <= b) == (i <= j)
                and (a > b) == (i > j)
                and (a >= b) == (i >= j)
            )
            check(ok, "comparison of ints %d ? %d" % (i, j))
    check(Note("C#", 4) == Note("Db", 4) and Note("B#", 3) == Note("C", 4), "enharmonic equality")
    check(Note("E##", 4) == Note("Gb", 4) and Note("Cb", 4) == Note("B", 3), "enharmonic equality 2")
    mixed = [Note(nm, o) for nm, o in reversed(sample)]
    srt = [int(x) for x in sorted(mixed)]
    check(srt == sorted(pitch(nm, o) for nm, o in sample), "sorting is by pitch")

    # -- Hz ------------------------------------------------------------------
    for sp in STANDARD_PITCHES:
        check(abs(Note("A", 4).to_hertz(sp) - sp) < 1e-9 * sp, "A-4 at %r Hz" % sp)
        for i in range(128):
            hz = Note(i).to_hertz(sp)
            if i + 12 < 128:
                up = Note(i + 12).to_hertz(sp)
                check(abs(up - 2 * hz) < 1e-9 * up, "octave doubling from %d at %r" % (i, sp))
            expected = sp * 2.0 ** ((i - 57) / 12.0)
            check(abs(hz - expected) < 1e-9 * expected, "to_hertz(%d) at %r" % (i, sp))
            for cents in (-40, -17, 0, 23, 40):
                back = Note().from_hertz(hz * 2.0 ** (cents / 1200.0), sp)
                check(int(back) == i, "Hz round trip %d %+d cents at %r" % (i, cents, sp))
    check(abs(Note("A", 4).to_hertz() - 440) < 1e-9, "default standard pitch")

    # -- Helmholtz -------------------------------------------------------------
    for name in NAMES:
        for octave in OCTAVES:
            sh = Note(name, octave).to_shorthand()
            back = Note().from_shorthand(sh)
            check(
                back.name == name and back.octave == octave,
                "Helmholtz %s-%d -> %r -> %r" % (name, octave, sh, back),
            )
    for sh, (nm, o) in {
        "c'": ("C", 4),
        "c": ("C", 3),
        "C": ("C", 2),
        "C,": ("C", 1),
        "C,,": ("C", 0),
        "a'": ("A", 4),
        "bb''": ("Bb", 5),
        "f#": ("F#", 3),
        "Bb,": ("Bb", 1),
    }.items():
        got = Note().from_shorthand(sh)
        check(got.name == nm and got.octave == o, "from_shorthand(%r)" % sh)
        check(Note(nm, o).to_shorthand() == sh, "to_shorthand(%s-%d)" % (nm, o))

    # -- refusals ----------------------------------------------------------------
    for v in (-2, -1, 128, 129, 1000):
        check(rejected(lambda: Note("C", 4, velocity=v)), "velocity %d accepted" % v)
        check(rejected(lambda: Note("C", 4).set_velocity(v)), "set_velocity(%d) accepted" % v)
        check(rejected(lambda: Note("C", 4, {"velocity": v})), "dynamics velocity %d accepted" % v)
    for c in (-2, -1, 16, 17, 100):
        check(rejected(lambda: Note("C", 4, channel=c)), "channel %d accepted" % c)
        check(rejected(lambda: Note("C", 4).set_channel(c)), "set_channel(%d) accepted" % c)
        check(rejected(lambda: Note("C", 4, {"channel": c})), "dynamics channel %d accepted" % c)
    for v in (0, 1, 64, 126, 127):
        check(Note("C", 4, velocity=v).velocity == v, "velocity %d refused" % v)
    for c in (0, 1, 9, 14, 15):
        check(Note("C", 4, channel=c).channel == c, "channel %d refused" % c)
    for bad in ("", "H", "c", "X#", "C!", "Cx", "#C", "C-4-5", "C 4", "4", "Cis"):
        check(rejected(lambda: Note(bad)), "malformed name %r accepted" % bad)
        check(rejected(lambda: Note().set_note(bad)), "set_note(%r) accepted" % bad)

    # -- copies are independent ----------------------------------------------------
    for make in (lambda n: Note(n), copy.copy, copy.deepcopy):
        orig = Note("Eb", 5, velocity=100, channel=3)
        dup = make(orig)
        check(dup is not orig, "copy is the same object")
        check((dup.name, dup.octave, dup.velocity, dup.channel) == ("Eb", 5, 100, 3), "copy content")
        dup.set_note("G#", 2)
        dup.set_velocity(1)
        dup.set_channel(0)
        dup.octave_up()
        dup.augment()
        check(
            (orig.name, orig.octave, orig.velocity, orig.channel) == ("Eb", 5, 100, 3),
            "original changed through its copy",
        )
        orig.from_int(0)
        check(int(dup) == pitch("G##", 3), "copy changed through its original")


def outcome(fn):
    try:
        return "returned %r" % (fn(),)
    except Exception as e:
        return "raised %s" % type(e).__name__


def observed():
    # Text that is NOT Helmholtz shorthand (outside the property's domain).
    for text in ("c'x", "cd", " c'", "c,'", "c' ", "C-4", "do"):
        n = Note("G", 6)
        res = outcome(lambda: n.from_shorthand(text))
        print("OBSERVED: Note('G-6').from_shorthand(%r) %s; note afterwards is %s-%d" % (text, res, n.name, n.octave))


if __name__ == "__main__":
    property_checks()
    observed()
    if failures:
        for f in failures[:20]:
            print("FAILED: " + f)
        print("FAIL (%d)" % len(failures))
        sys.exit(1)
    print("PASS")
    sys.exit(0)
