# ---------------------------------------------------------------------------
# Property C11 checked from first principles (no mingus call is used as oracle)
# ---------------------------------------------------------------------------
import random

from mingus.containers import Note, NoteContainer, Bar, Track

LETTERS = "CDEFGAB"
NATURAL = {"C": 0, "D": 2, "E": 4, "F": 5, "G": 7, "A": 9, "B": 11}
MAJOR = {1: 0, 2: 2, 3: 4, 4: 5, 5: 7, 6: 9, 7: 11}  # major / perfect sizes
PREFIX = {"bb": -2, "b": -1, "": 0, "#": 1, "##": 2}
NAMES = [l + a for l in LETTERS for a in ("", "#", "b", "##", "bb")]
SHORTHANDS = []  # (shorthand, number, size in semitones), size 0-11 only
for number in range(1, 8):
    for prefix, shift in PREFIX.items():
        size = MAJOR[number] + shift
        if 0 <= size <= 11:
            SHORTHANDS.append((prefix + str(number), number, size))

FAILURES = []


def fail(msg):
    if len(FAILURES) < 15:
        print("FAIL: " + msg)
    FAILURES.append(msg)


def acc(name):
    return name.count("#") - name.count("b")


def spell(letter, a):
    return letter + "#" * a + "b" * -a


def pitch(name, octave):
    return octave * 12 + NATURAL[name[0]] + acc(name)


def expected_transpose(name, octave, number, size, up):
    """Letter arithmetic: the interval number fixes the letter (and whether the
    octave line C is crossed), the size fixes the accidentals."""
    i = LETTERS.index(name[0])
    steps = number - 1
    if up:
        j = i + steps
        letter, new_octave = LETTERS[j % 7], octave + j // 7
        natural_distance = NATURAL[letter] + 12 * (j // 7) - NATURAL[name[0]]
        a = acc(name) + size - natural_distance
    else:
        j = i - steps
        letter, new_octave = LETTERS[j % 7], octave + j // 7  # floor division
        natural_distance = NATURAL[name[0]] - (NATURAL[letter] + 12 * (j // 7))
        a = acc(name) - (size - natural_distance)
    return spell(letter, a), new_octave


def expected_augment(name):
    return name[:-1] if name.endswith("b") else name + "#"


def expected_diminish(name):
    return name[:-1] if name.endswith("#") else name + "b"


def check_notes():
    for name in NAMES:
        for octave in range(0, 9):
            for sh, number, size in SHORTHANDS:
                for up in (True, False):
                    n = Note(name, octave)
                    before = pitch(n.name, n.octave)
                    n.transpose(sh, up)
                    where = "Note(%r,%d).transpose(%r,%r)" % (name, octave, sh, up)
                    after = pitch(n.name, n.octave)
                    if after - before != (size if up else -size):
                        fail("%s moved %d semitones" % (where, after - before))
                    steps = number - 1
                    want_letter = LETTERS[(LETTERS.index(name[0]) + (steps if up else -steps)) % 7]
                    if n.name[0] != want_letter:
                        fail("%s letter %s, wanted %s" % (where, n.name[0], want_letter))
                    want = expected_transpose(name, octave, number, size, up)
                    if (n.name, n.octave) != want:
                        fail("%s gave %s-%s, wanted %s-%s" % (where, n.name, n.octave, want[0], want[1]))
                    if int(n) != after:
                        fail("%s int() is %r, pitch number is %d" % (where, int(n), after))
                    n.transpose(sh, not up)
                    if (n.name, n.octave) != (name, octave):
                        fail("%s and back gave %s-%s" % (where, n.name, n.octave))
    # up-then-down explicitly
    for name in NAMES:
        n = Note(name, 4)
        n.augment()
        if n.name != expected_augment(name):
            fail("augment %s gave %s" % (name, n.name))
        n.diminish()
        if n.name != name or n.octave != 4:
            fail("augment+diminish %s gave %s-%s" % (name, n.name, n.octave))
    # octave floor
    for octave in range(0, 9):
        for diff in range(-10, 4):
            n = Note("C", octave)
            n.change_octave(diff)
            if n.octave != max(0, octave + diff) or n.name != "C":
                fail("change_octave(%d) from %d gave %r" % (diff, octave, n.octave))
    n = Note("E", 0)
    n.octave_down()
    if n.octave != 0:
        fail("octave_down below 0")
    n.octave_up()
    if n.octave != 1:
        fail("octave_up")


def random_chord(rng, size):
    """size notes of pairwise different pitch."""
    res, seen = [], set()
    while len(res) < size:
        name, octave = rng.choice(NAMES), rng.randint(1, 6)
        if pitch(name, octave) not in seen:
            seen.add(pitch(name, octave))
            res.append((name, octave))
    return res


def random_track(rng):
    t = Track()
    for _ in range(rng.randint(4, 14)):
        duration = rng.choice([1, 2, 4, 4, 8, 8, 16])
        kind = rng.random()
        if kind < 0.25:
            what = None
        elif kind < 0.6:
            what = NoteContainer([Note(*random_chord(rng, 1)[0])])
        else:
            what = NoteContainer([Note(n, o) for n, o in random_chord(rng, rng.randint(2, 4))])
        t.add_notes(what, duration)  # False (does not fit) is fine: nothing is placed
    return t


def snapshot(track):
    """Plain data: per bar a list of (beat, duration, None | sorted [(name, octave)])."""
    res = []
    for bar in track.bars:
        entries = []
        for beat, duration, cont in bar.bar:
            if cont is None:
                entries.append((beat, duration, None))
            else:
                entries.append((beat, duration, sorted((n.name, n.octave) for n in cont.notes)))
        res.append(entries)
    return res


def apply_model(model, step):
    res = []
    for entries in model:
        new = []
        for beat, duration, notes_ in entries:
            if notes_ is None:
                new.append((beat, duration, None))
                continue
            if step[0] == "transpose":
                _, (sh, number, size), up = step
                moved = [expected_transpose(n, o, number, size, up) for n, o in notes_]
            elif step[0] == "augment":
                moved = [(expected_augment(n), o) for n, o in notes_]
            else:
                moved = [(expected_diminish(n), o) for n, o in notes_]
            new.append((beat, duration, sorted(moved)))
        res.append(new)
    return res


def apply_real(obj, step):
    if step[0] == "transpose":
        obj.transpose(step[1][0], step[2])
    elif step[0] == "augment":
        obj.augment()
    else:
        obj.diminish()


def max_acc(model):
    return max([abs(acc(n)) for entries in model for e in entries if e[2] for n, _ in e[2]] or [0])


def random_step(rng):
    k = rng.random()
    if k < 0.6:
        return ("transpose", rng.choice(SHORTHANDS), rng.random() < 0.5)
    return ("augment",) if k < 0.8 else ("diminish",)


def check_containers():
    rng = random.Random(1100)
    rests = chords = 0
    for case in range(120):
        t = random_track(rng)
        model = snapshot(t)
        for entries in model:
            for e in entries:
                rests += e[2] is None
                chords += e[2] is not None and len(e[2]) > 1
        for stepno in range(rng.randint(1, 5)):
            step = random_step(rng)
            if max_acc(apply_model(model, step)) > 3:
                # stay with names of at most three accidentals (at six and
                # beyond the spelling has to be folded, which the statement
                # does not describe)
                continue
            level = rng.choice(["track", "bar", "container"])
            if level == "track":
                apply_real(t, step)
            elif level == "bar":
                for b in t.bars:
                    apply_real(b, step)
            else:
                for b in t.bars:
                    for e in b.bar:
                        if e[2] is not None:
                            apply_real(e[2], step)
            model = apply_model(model, step)
            got = snapshot(t)
            if got != model:
                fail("case %d step %d %r at %s level: track differs from the model" % (case, stepno, step, level))
                break
        # transpose up then down, augment then diminish: identity
        base = snapshot(t)
        sh = rng.choice(SHORTHANDS)
        while max_acc(apply_model(base, ("transpose", sh, True))) > 3:
            sh = rng.choice(SHORTHANDS)
        t.transpose(sh[0], True)
        t.transpose(sh[0], False)
        t.augment()
        t.diminish()
        if snapshot(t) != base:
            fail("case %d: up/down + augment/diminish is not the identity" % case)
    if rests < 50 or chords < 100:
        fail("sample too thin (%d rests, %d chords)" % (rests, chords))


def run_property_checks():
    check_notes()
    check_containers()
    return not FAILURES


def observed():
    # (1) does the bar keep the very container / note objects it was handed?
    nc = NoteContainer(["C", "E"])
    b = Bar()
    b.place_notes(nc, 4)
    print("OBSERVED: bar entry is the caller's NoteContainer object: %r" % (b[0][2] is nc))
    n = Note("G", 4)
    b.place_notes(n, 4)
    print("OBSERVED: bar entry holds the caller's Note object: %r" % (b[1][2].notes[0] is n))
    # (2) the same container placed twice, then the bar transposed a major third up
    nc = NoteContainer(["C", "E"])
    b = Bar()
    b.place_notes(nc, 4)
    b.place_notes(nc, 4)
    b.transpose("3")
    print("OBSERVED: one container placed twice, bar transposed by '3': %r" % ([e[2] for e in b.bar],))
    print("OBSERVED: ... and the caller's own container afterwards: %r" % (nc,))


if __name__ == "__main__":
    import sys

    ok = run_property_checks()
    observed()
    print("PASS" if ok else "FAILED (%d)" % len(FAILURES))
    sys.exit(0 if ok else 1)
