# ---------------------------------------------------------------------------
# Property C12 checked from first principles (no mingus call is used to
# compute an expected value).
# ---------------------------------------------------------------------------
from __future__ import print_function
import itertools
import random
import sys

from mingus.containers.note import Note
from mingus.containers.note_container import NoteContainer

LETTER = {"C": 0, "D": 2, "E": 4, "F": 5, "G": 7, "A": 9, "B": 11}
FAILS = []


def fail(msg):
    if len(FAILS) < 20:
        FAILS.append(msg)


def pc(name):
    """Semitones above C of a note name (accidentals applied, not wrapped)."""
    return LETTER[name[0]] + name.count("#") - name[1:].count("b")


def pitch(name, octave):
    return 12 * octave + pc(name)


class Model(object):
    """A set of pitches; every pitch remembers the (name, octave) it came with."""

    def __init__(self):
        self.d = {}  # pitch -> (name, octave)

    def add(self, name, octave):
        p = pitch(name, octave)
        if p not in self.d:  # a set: adding an element it already has is a no-op
            self.d[p] = (name, octave)

    def add_bare(self, name):
        if not self.d:
            return self.add(name, 4)
        top = max(self.d)
        o = 0
        while pitch(name, o) < top:  # lowest octave at or above the top note
            o += 1
        assert pitch(name, o) - top < 12
        self.add(name, o)

    def add_str(self, s):
        if "-" in s:
            n, o = s.split("-")
            self.add(n, int(o))
        else:
            self.add_bare(s)

    def remove_name(self, name):
        for p in [p for p, (n, o) in self.d.items() if n == name]:
            del self.d[p]

    def remove_name_octave(self, name, octave):
        for p in [p for p, (n, o) in self.d.items() if n == name and o == octave]:
            del self.d[p]

    def remove_pitch(self, p):
        self.d.pop(p, None)

    def pitches(self):
        return sorted(self.d)


# the alphabet: (label, action on the container, action on the model)
def _other():
    return NoteContainer(["D-3", "A-4", "C#-5"])


OPS = [
    ("add Note C-4", lambda c: c.add_note(Note("C", 4)), lambda m: m.add("C", 4)),
    ("add Note Db-5", lambda c: c.add_note(Note("Db", 5)), lambda m: m.add("Db", 5)),
    ("add bare E", lambda c: c.add_note("E"), lambda m: m.add_bare("E")),
    ("add bare C", lambda c: c.add_note("C"), lambda m: m.add_bare("C")),
    ("add bare Bb", lambda c: c.add_notes("Bb"), lambda m: m.add_bare("Bb")),
    ("add 'G-5'", lambda c: c.add_note("G-5"), lambda m: m.add("G", 5)),
    ("add E,3", lambda c: c.add_note("E", 3), lambda m: m.add("E", 3)),
    (
        "add list",
        lambda c: c.add_notes(["C", ["E", 5], "G-3", Note("A", 4)]),
        lambda m: (m.add_bare("C"), m.add("E", 5), m.add("G", 3), m.add("A", 4)),
    ),
    (
        "add container",
        lambda c: c.add_notes(_other()),
        lambda m: (m.add("D", 3), m.add("A", 4), m.add("C#", 5)),
    ),
    ("+ 'G'", lambda c: c + "G", lambda m: m.add_bare("G")),
    (
        "+ ['F#', 'A']",
        lambda c: c + ["F#", "A"],
        lambda m: (m.add_bare("F#"), m.add_bare("A")),
    ),
    ("remove C", lambda c: c.remove_note("C"), lambda m: m.remove_name("C")),
    ("remove E", lambda c: c.remove_notes("E"), lambda m: m.remove_name("E")),
    ("remove E,5", lambda c: c.remove_note("E", 5), lambda m: m.remove_name_octave("E", 5)),
    ("remove Note G-5", lambda c: c.remove_note(Note("G", 5)), lambda m: m.remove_pitch(pitch("G", 5))),
    ("remove Note C#-5", lambda c: c.remove_notes(Note("C#", 5)), lambda m: m.remove_pitch(pitch("C#", 5))),
    (
        "remove list",
        lambda c: c.remove_notes(["A", Note("C", 4)]),
        lambda m: (m.remove_name("A"), m.remove_pitch(pitch("C", 4))),
    ),
    ("- 'G'", lambda c: c - "G", lambda m: m.remove_name("G")),
    ("- ['D', 'Bb']", lambda c: c - ["D", "Bb"], lambda m: (m.remove_name("D"), m.remove_name("Bb"))),
]


def up(a, b):
    """Semitones from name a up to name b, inside one octave."""
    return (pc(b) - pc(a)) % 12


PAIRWISE = {
    "perfect": lambda a, b: up(a, b) in (0, 7, 5),  # unison/octave, fifth, fourth
    "perfect_no4": lambda a, b: up(a, b) in (0, 7),
    "imperfect": lambda a, b: up(a, b) in (3, 4, 8, 9),  # thirds and sixths
    "consonant": lambda a, b: up(a, b) in (0, 7, 5, 3, 4, 8, 9),
    "consonant_no4": lambda a, b: up(a, b) in (0, 7, 3, 4, 8, 9),
}


def every_pair(names, pred):
    return all(pred(a, b) for a, b in itertools.combinations(names, 2))


def check_state(c, m, label):
    want = m.pitches()
    got = [12 * n.octave + pc(n.name) for n in c.notes]
    if got != want:
        return fail("%s: pitches %r, model %r" % (label, got, want))
    if any(x >= y for x, y in zip(got, got[1:])):
        fail("%s: not strictly ascending %r" % (label, got))
    if [int(n) for n in c.notes] != want:
        fail("%s: int() of the notes disagrees" % label)
    if len(c) != len(want):
        fail("%s: len %r" % (label, len(c)))
    for p in range(30, 90):
        if (Note(p) in c) != (p in m.d):
            fail("%s: membership of pitch %d" % (label, p))
    # names: what the model remembers for each pitch
    names = [m.d[p][0] for p in want]
    if [n.name for n in c.notes] != names:
        fail("%s: names %r, model %r" % (label, [n.name for n in c.notes], names))
    u = c.get_note_names()
    if len(u) != len(set(u)) or set(u) != set(names):
        fail("%s: unique names %r vs %r" % (label, u, names))
    # equality
    twin = NoteContainer([Note(m.d[p][0], m.d[p][1]) for p in want])
    if not (c == twin) or (c != twin):
        fail("%s: not equal to a container with the same content" % label)
    other = NoteContainer([Note(m.d[p][0], m.d[p][1]) for p in want] + [Note("F", 8)])
    if c == other:
        fail("%s: equal to a container with one more note" % label)
    if want:
        shifted = NoteContainer([Note(m.d[p][0], m.d[p][1]) for p in want[:-1]] + [Note("F", 8)])
        if c == shifted:
            fail("%s: equal to a container with another top note" % label)
    # consonance
    exp = dict((k, every_pair(names, f)) for k, f in PAIRWISE.items())
    if bool(c.is_perfect_consonant()) != exp["perfect"]:
        fail("%s: is_perfect_consonant" % label)
    if bool(c.is_perfect_consonant(False)) != exp["perfect_no4"]:
        fail("%s: is_perfect_consonant(False)" % label)
    if bool(c.is_imperfect_consonant()) != exp["imperfect"]:
        fail("%s: is_imperfect_consonant" % label)
    if bool(c.is_consonant()) != exp["consonant"]:
        fail("%s: is_consonant" % label)
    if bool(c.is_consonant(False)) != exp["consonant_no4"]:
        fail("%s: is_consonant(False)" % label)
    if bool(c.is_dissonant()) != (not exp["consonant"]):
        fail("%s: is_dissonant" % label)


def run_sequence(seq):
    c, m = NoteContainer(), Model()
    label = ""
    for i in seq:
        name, fc, fm = OPS[i]
        label += " / " + name
        fc(c)
        fm(m)
        check_state(c, m, label)


def check_histories():
    n = 0
    for depth in (1, 2, 3):
        for seq in itertools.product(range(len(OPS)), repeat=depth):
            run_sequence(seq)
            n += 1
    rnd = random.Random(12)
    for _ in range(300):
        run_sequence([rnd.randrange(len(OPS)) for _ in range(rnd.randint(4, 12))])
        n += 1
    return n


# --- constructors ----------------------------------------------------------
CHORDS = {
    "": (0, 4, 7), "M": (0, 4, 7), "m": (0, 3, 7), "dim": (0, 3, 6), "aug": (0, 4, 8),
    "7": (0, 4, 7, 10), "M7": (0, 4, 7, 11), "m7": (0, 3, 7, 10), "m7b5": (0, 3, 6, 10),
    "dim7": (0, 3, 6, 9), "6": (0, 4, 7, 9), "m6": (0, 3, 7, 9), "sus4": (0, 5, 7),
    "sus2": (0, 2, 7), "9": (0, 4, 7, 10, 14), "M9": (0, 4, 7, 11, 14), "m9": (0, 3, 7, 10, 14),
}
ROOTS = ["C", "C#", "D", "Eb", "E", "F", "F#", "G", "Ab", "A", "Bb", "B"]
INTERVALS = {"1": 0, "b2": 1, "2": 2, "b3": 3, "3": 4, "4": 5, "#4": 6, "b5": 6, "5": 7,
             "b6": 8, "6": 9, "b7": 10, "7": 11}
MAJOR = (0, 2, 4, 5, 7, 9, 11)
NUMERALS = ["I", "II", "III", "IV", "V", "VI", "VII"]
KEYS = ["C", "G", "D", "A", "F", "Bb", "Eb"]


def pitches_of(c):
    return [12 * n.octave + pc(n.name) for n in c.notes]


def check_constructors():
    for root in ROOTS:
        base = 48 + pc(root)  # the root in octave 4
        for sh, offs in CHORDS.items():
            for make in (lambda s: NoteContainer().from_chord_shorthand(s),
                         lambda s: NoteContainer().from_chord(s)):
                c = make(root + sh)
                if pitches_of(c) != [base + o for o in offs]:
                    fail("chord %s%s: %r" % (root, sh, pitches_of(c)))
                if c.notes[0].name != root or c.notes[0].octave != 4:
                    fail("chord %s%s does not start on the root in octave 4" % (root, sh))
        for sh, off in INTERVALS.items():
            c = NoteContainer().from_interval_shorthand(root, sh)
            if pitches_of(c) != sorted(set([base, base + off])):
                fail("interval %s %s: %r" % (root, sh, pitches_of(c)))
            c = NoteContainer().from_interval(Note(root, 4), sh)
            if pitches_of(c) != sorted(set([base, base + off])):
                fail("interval (Note) %s %s: %r" % (root, sh, pitches_of(c)))
    for key in KEYS:
        for d, numeral in enumerate(NUMERALS):
            for seventh in (False, True):
                degs = [d, d + 2, d + 4] + ([d + 6] if seventh else [])
                offs = [MAJOR[x % 7] + 12 * (x // 7) for x in degs]
                root_pc = (pc(key) + offs[0]) % 12
                want = [48 + root_pc + (o - offs[0]) for o in offs]
                sh = numeral + ("7" if seventh else "")
                c = NoteContainer().from_progression_shorthand(sh, key)
                if pitches_of(c) != want:
                    fail("numeral %s in %s: %r, expected %r" % (sh, key, pitches_of(c), want))
                c2 = NoteContainer().from_progression(sh, key)
                if not c == c2:
                    fail("from_progression differs from from_progression_shorthand")


def check_all():
    n = check_histories()
    check_constructors()
    # a few literal examples
    c = NoteContainer(["A", "C", "E"])
    if [(x.name, x.octave) for x in c.notes] != [("A", 4), ("C", 5), ("E", 5)]:
        fail("A C E is not voiced A-4 C-5 E-5")
    c = NoteContainer(["C-4", "C-5", "C-6", "E-4"])
    c.remove_note("C", 5)
    if pitches_of(c) != [48, 52, 72]:
        fail("remove C,5 left %r" % pitches_of(c))
    c.remove_note("C")
    if pitches_of(c) != [52]:
        fail("remove C left %r" % pitches_of(c))
    return n


def finish(n):
    if FAILS:
        for f in FAILS:
            print("FAIL:", f)
        print("FAIL")
        sys.exit(1)
    print("PASS (%d operation sequences and the constructor tables checked)" % n)
    sys.exit(0)


# ---------------------------------------------------------------------------
# What the change alters: the content of a container after an add_notes /
# '+' / constructor call that FAILS half-way (input the statement does not
# talk about: a list holding something that is not a note).
# ---------------------------------------------------------------------------
def observed():
    for bad in (["E", "G", 7], ["E", "H", "G"], [["E", 5], None]):
        c = NoteContainer(["C"])
        try:
            c.add_notes(bad)
            err = "no error"
        except Exception as e:
            err = type(e).__name__
        print("OBSERVED: NoteContainer(['C']).add_notes(%r) -> %s, container afterwards %r"
              % (bad, err, c.notes))
    c = NoteContainer(["C", "E"])
    try:
        c + ["G", "B", object]
    except Exception as e:
        pass
    print("OBSERVED: ['C','E'] + ['G', 'B', <not a note>] leaves %d notes" % len(c))


if __name__ == "__main__":
    n = check_all()
    observed()
    finish(n)
