"""Demo for property C20 (tunings and tablature).

(i)  Checks the clauses of the property from first principles (plain semitone
     arithmetic, a brute-force fingering enumeration and an independent ASCII
     tablature reader) and prints PASS / exits 0 when they all hold.
(ii) Prints OBSERVED: lines that show the behaviour the accompanying patch
     changes (they differ between the unchanged and the patched tree).

The tree under test is chosen by the caller through PYTHONPATH.
"""
from __future__ import print_function

import itertools
import os
import random
import sys

import mingus.extra.tunings as tunings
import mingus.extra.tablature as tablature
from mingus.containers import Note, NoteContainer, Bar, Track, Composition
from mingus.core.mt_exceptions import RangeError, FingerError

FAILURES = []


def check(cond, msg):
    if not cond:
        if len(FAILURES) < 25:
            print("FAIL:", msg)
        FAILURES.append(msg)


# ---------------------------------------------------------------- arithmetic
SHARPS = ["C", "C#", "D", "D#", "E", "F", "F#", "G", "G#", "A", "A#", "B"]
BASE = {"C": 0, "D": 2, "E": 4, "F": 5, "G": 7, "A": 9, "B": 11}


def pitch_of(name, octave):
    """Semitones above C-0 of a note name such as 'Bb' in an octave."""
    v = BASE[name[0]]
    for acc in name[1:]:
        v += 1 if acc == "#" else -1
    return octave * 12 + v


def name_of(p):
    return "%s-%d" % (SHARPS[p % 12], p // 12)


def open_pitches(t):
    """Open-string pitches; a course counts through its first string."""
    res = []
    for x in t.tuning:
        if isinstance(x, list):
            x = x[0]
        res.append(pitch_of(x.name, x.octave))
    return res


ALL = tunings.get_tunings()
check(70 <= len(ALL) <= 80, "about 76 registered tunings, got %d" % len(ALL))
# A few open strings stated by hand (C-0 = 0, so E-2 = 28, A-4 = 57 ...)
HAND = {
    ("guitar", "standard", 6, 1): [28, 33, 38, 43, 47, 52],
    ("bass guitar", "standard 4", None, None): [16, 21, 26, 31],
    ("ukulele", "standard", None, None): [55, 48, 52, 57],
    ("violin", "standard", None, None): [43, 50, 57, 64],
    ("mandolin", "standard", 4, 2): [43, 50, 57, 64],
}
for key, expect in HAND.items():
    t = tunings.get_tuning(*key)
    check(t is not None and open_pitches(t) == expect, "open strings of %r" % (key,))


# ------------------------------------------------ clause 1: find_frets
def check_find_frets():
    for t in ALL:
        opens = open_pitches(t)
        for maxfret in (0, 1, 11, 12, 24, 36):
            for p in range(128):
                expect = [p - o if 0 <= p - o <= maxfret else None for o in opens]
                got = t.find_frets(Note(p), maxfret)
                if got != expect:
                    check(False, "find_frets %s/%s note %d maxfret %d: %r != %r"
                          % (t.instrument, t.description, p, maxfret, got, expect))
                    return
        # default maxfret is 24, strings are accepted too
        for p in (0, 40, 52, 64, 76, 127):
            expect = [p - o if 0 <= p - o <= 24 else None for o in opens]
            check(t.find_frets(name_of(p)) == expect, "find_frets default maxfret / string input")


# ------------------------------------------------ clause 2: get_Note
def check_get_Note():
    for t in ALL:
        opens = open_pitches(t)
        for s, o in enumerate(opens):
            for fret in range(0, 25):
                n = t.get_Note(s, fret)
                if int(n) != o + fret:
                    check(False, "get_Note %s string %d fret %d" % (t.instrument, s, fret))
                    return
            for maxfret in (0, 5, 30):
                check(int(t.get_Note(s, maxfret, maxfret)) == o + maxfret, "get_Note at maxfret")
                for bad in (-1, maxfret + 1):
                    try:
                        t.get_Note(s, bad, maxfret)
                        check(False, "get_Note accepted fret %d (maxfret %d)" % (bad, maxfret))
                    except RangeError:
                        pass
        for bad in (-1, len(opens), len(opens) + 3):
            try:
                t.get_Note(bad, 0)
                check(False, "get_Note accepted string %d" % bad)
            except RangeError:
                pass


# ------------------------------------------------ clause 3: lookup
def n_courses(t):
    return sum(len(x) if isinstance(x, list) else 1 for x in t.tuning) / float(len(t.tuning))


def check_lookup():
    instruments = sorted(set(t.instrument for t in ALL))
    prefixes = set([None, "b", "ba", "bass", "gui", "guitar", "man", "mandolin", "v", "zzz", "GUITAR"])
    for i in instruments:
        prefixes.update([i, i[:3], i.lower()])
    for pre in prefixes:
        for ns in (None, 3, 4, 5, 6):
            for nc in (None, 1, 2, 3):
                res = tunings.get_tunings(pre, ns, nc)
                for t in res:
                    ok = pre is None or t.instrument.upper().startswith(pre.upper())
                    ok = ok and (ns is None or len(t.tuning) == ns)
                    ok = ok and (nc is None or n_courses(t) == nc)
                    check(ok, "get_tunings(%r,%r,%r) returned %s/%s" % (pre, ns, nc, t.instrument, t.description))
                    check(any(t is a for a in ALL), "get_tunings returned an unregistered tuning")
                if pre is None:
                    continue
                for desc in ("", "s", "standard", "open", "Irish", "qqq"):
                    t = tunings.get_tuning(pre, desc, ns, nc)
                    if t is None:
                        continue
                    ok = t.instrument.upper().startswith(pre.upper())
                    ok = ok and t.description.upper().startswith(desc.upper())
                    ok = ok and (ns is None or len(t.tuning) == ns)
                    ok = ok and (nc is None or n_courses(t) == nc)
                    check(ok, "get_tuning(%r,%r,%r,%r) returned %s/%s"
                          % (pre, desc, ns, nc, t.instrument, t.description))
    check(tunings.get_tuning("guitar", "standard", 6, 1).instrument == "Guitar", "guitar lookup")
    check(len(tunings.get_tunings("bass")) == 4, "'bass' prefix gives the four bass guitar tunings")


# ------------------------------------------------ clause 4: find_fingering
def brute_fingerings(opens, pitches, max_distance=4, maxfret=24):
    res = []
    for strings in itertools.permutations(range(len(opens)), len(pitches)):
        frets = [p - opens[s] for s, p in zip(strings, pitches)]
        if any(f < 0 or f > maxfret for f in frets):
            continue
        pressed = [f for f in frets if f != 0]
        if pressed and max(pressed) - min(pressed) >= max_distance:
            continue
        res.append(tuple(zip(strings, frets)))
    return res


def check_find_fingering(rng):
    for t in ALL:
        opens = open_pitches(t)
        lo, hi = min(opens), max(opens) + 24
        for trial in range(12):
            k = rng.randint(1, min(4, len(opens)))
            if trial % 3 == 0:  # a shape that certainly exists
                pos = rng.randint(0, 12)
                strings = rng.sample(range(len(opens)), k)
                pitches = [opens[s] + rng.choice([0, pos, pos + 1, pos + 2, pos + 3]) for s in strings]
            else:
                pitches = [rng.randint(lo - 2, hi + 2) for _ in range(k)]
            max_distance = rng.choice([4, 4, 2, 6])
            got = t.find_fingering([name_of(p) for p in pitches], max_distance)
            expect = brute_fingerings(opens, pitches, max_distance)
            got_t = [tuple((s, f) for (s, f) in fing) for fing in got]
            ok = len(got_t) == len(set(got_t)) and set(got_t) == set(expect)
            totals = [sum(f for (_, f) in fing) for fing in got_t]
            ok = ok and totals == sorted(totals)
            if not ok:
                check(False, "find_fingering %s/%s %r max_distance %d"
                      % (t.instrument, t.description, pitches, max_distance))
                return
    g = tunings.get_tuning("guitar", "standard", 6, 1)
    check(g.find_fingering(NoteContainer(["E-2", "A-2"]))[0] == [(0, 0), (1, 0)], "open E/A fingering first")


# ------------------------------------------------ clause 5: find_chord_fingering
CHORDS = {  # shorthand -> semitones above the root
    "M": [0, 4, 7], "m": [0, 3, 7], "7": [0, 4, 7, 10], "m7": [0, 3, 7, 10],
    "M7": [0, 4, 7, 11], "dim": [0, 3, 6], "sus4": [0, 5, 7], "6": [0, 4, 7, 9],
}
ROOTS = ["C", "C#", "D", "Eb", "E", "F", "F#", "G", "Ab", "A", "Bb", "B"]


def my_fingers(fing):
    """Fingers needed, read from the highest string down: every pressed string
    costs a finger, except that the index finger bars all strings at the lowest
    pressed fret as long as no open string has been passed yet."""
    pressed = [f for f in fing if f]
    lowest = min(pressed)
    count, barred, seen_open = 0, False, False
    for f in reversed(fing):
        if f == 0 and f is not None:
            seen_open = True
        elif f:
            if f == lowest and not seen_open:
                if not barred:
                    count += 1
                    barred = True
            else:
                count += 1
    return count


def check_chords():
    n = 0
    for t in tunings.get_tunings("guitar", 6, 1) + tunings.get_tunings("bass guitar") + tunings.get_tunings("ukulele"):
        opens = open_pitches(t)
        for root in ROOTS:
            for sh, ivs in CHORDS.items():
                pcs = set((pitch_of(root, 0) + i) % 12 for i in ivs)
                chord = NoteContainer().from_chord(root + sh)
                check(set(pitch_of(x.name, 0) % 12 for x in chord) == pcs, "chord spelling %s%s" % (root, sh))
                for (md, mf, fingers) in ((4, 18, 4), (3, 12, 3)):
                    for fing in t.find_chord_fingering(chord, md, mf, fingers):
                        n += 1
                        ok = len(fing) == len(opens)
                        sounding = [(o + f) % 12 for o, f in zip(opens, fing) if f is not None]
                        ok = ok and set(sounding) == pcs
                        ok = ok and all(f is None or 0 <= f <= mf for f in fing)
                        pressed = [f for f in fing if f]
                        ok = ok and (not pressed or max(pressed) - min(pressed) < md)
                        ok = ok and (not pressed or my_fingers(fing) <= fingers)
                        if not ok:
                            check(False, "chord fingering %s%s on %s: %r" % (root, sh, t.description, fing))
                            return
    check(n > 1000, "chord fingerings were produced (%d)" % n)


# ------------------------------------------------ clause 6: tablature
def string_lines(text):
    """Split a rendering into systems: runs of consecutive string lines."""
    systems, cur = [], []
    for line in text.split(os.linesep):
        is_string = "||" in line and "*" not in line and "-" in line.split("||", 1)[1]
        if is_string:
            cur.append(line)
        elif cur:
            systems.append(cur)
            cur = []
    if cur:
        systems.append(cur)
    return systems


def decode_system(lines, opens):
    """Read one system column by column; return the list of entries, each a
    sorted list of pitches.  Top line = highest-numbered string."""
    start = lines[0].index("||") + 2
    width = len(lines[0])
    occupied = [any(l[c].isdigit() for l in lines) for c in range(start, width)]
    entries, c = [], 0
    while c < len(occupied):
        if not occupied[c]:
            c += 1
            continue
        e = c
        while e < len(occupied) and occupied[e]:
            e += 1
        pitches = []
        for i, l in enumerate(lines):
            cell = "".join(ch for ch in l[start + c:start + e] if ch.isdigit())
            if cell:
                pitches.append(opens[len(lines) - 1 - i] + int(cell))
        entries.append(sorted(pitches))
        c = e
    return entries


def decode(text, opens_per_system):
    systems = string_lines(text)
    out = []
    for k, lines in enumerate(systems):
        opens = opens_per_system(k)
        check(len(lines) == len(opens), "one line per string (%d lines, %d strings)" % (len(lines), len(opens)))
        check(len(set(len(l) for l in lines)) == 1, "string lines equally long")
        if len(lines) != len(opens):
            return None
        out.append(decode_system(lines, opens))
    return out


def playable_entry(rng, opens):
    k = rng.choice([1, 1, 2, 3, min(4, len(opens))])
    pos = rng.randint(0, 14)
    strings = rng.sample(range(len(opens)), k)
    # identical pitches collapse in a NoteContainer, so keep each pitch once
    return sorted(set(opens[s] + rng.choice([0, pos, pos + 1, pos + 2, pos + 3]) for s in strings))


def random_bar(rng, opens):
    bar, expect = Bar(), []
    while not bar.is_full():
        dur = rng.choice([2, 4, 4, 8, 8])
        if rng.random() < 0.15:
            ok = bar.place_rest(dur)
            ent = None
        else:
            ent = playable_entry(rng, opens)
            ok = bar.place_notes(NoteContainer([name_of(p) for p in ent]), dur)
        if ok and ent is not None:
            expect.append(ent)
        if not ok:
            left = bar.value_left()
            ent = playable_entry(rng, opens)
            if bar.place_notes(NoteContainer([name_of(p) for p in ent]), left):
                expect.append(ent)
            else:
                break
    return bar, expect


TAB_TUNINGS = [("guitar", "standard", 6, 1), ("guitar", "drop d", 6, 1), ("bass guitar", "standard 5", None, None),
               ("ukulele", "standard", None, None), ("violin", "standard", None, None),
               ("banjo (5", "open g", None, None), ("soprano guitar", "standard", None, None)]


def check_tablature(rng):
    for key in TAB_TUNINGS:
        t = tunings.get_tuning(*key)
        opens = open_pitches(t)
        # single notes and note containers
        for width in (20, 40, 80, 100):
            for p in range(min(opens), max(opens) + 25, 5):
                got = decode(tablature.from_Note(Note(name_of(p)), width, t), lambda k: opens)
                check(got == [[[p]]], "from_Note %s %d width %d -> %r" % (key[0], p, width, got))
            for _ in range(6):
                ent = playable_entry(rng, opens)
                got = decode(tablature.from_NoteContainer(NoteContainer([name_of(p) for p in ent]), width, t),
                             lambda k: opens)
                check(got == [[ent]], "from_NoteContainer %s %r width %d -> %r" % (key[0], ent, width, got))
        # bars
        for width in (40, 50, 64, 80):
            for _ in range(6):
                bar, expect = random_bar(rng, opens)
                text = tablature.from_Bar(bar, width, t)
                got = decode(text, lambda k: opens)
                check(got == [expect], "from_Bar %s width %d: %r != %r\n%s" % (key[0], width, got, expect, text))
        # tracks
        for maxwidth in (40, 60, 80, 100, 120, 150):
            track, expect = Track(), []
            for _ in range(rng.randint(1, 5)):
                bar, e = random_bar(rng, opens)
                track.add_bar(bar)
                expect += e
            text = tablature.from_Track(track, maxwidth, t)
            got = decode(text, lambda k: opens)
            flat = None if got is None else [e for system in got for e in system]
            check(flat == expect, "from_Track %s maxwidth %d: %r != %r\n%s" % (key[0], maxwidth, flat, expect, text))
    # compositions: two or three tracks with their own tunings
    for width in (40, 60, 80, 120, 150):
        keys = rng.sample(TAB_TUNINGS, rng.choice([1, 2, 3]))
        comp = Composition()
        comp.set_title("Demo piece")
        comp.set_author("Nobody", "nobody@example.org")
        tuns, expects = [], []
        nbars = rng.randint(1, 4)
        for key in keys:
            t = tunings.get_tuning(*key)
            track, expect = Track(), []
            track.set_tuning(t)
            for _ in range(nbars):
                bar, e = random_bar(rng, open_pitches(t))
                track.add_bar(bar)
                expect.append(e)
            comp.add_track(track)
            tuns.append(open_pitches(t))
            expects.append(expect)
        text = tablature.from_Composition(comp, width)
        got = decode(text, lambda k: tuns[k % len(tuns)])
        if got is None:
            continue
        per_track = [[] for _ in tuns]
        for k, system in enumerate(got):
            per_track[k % len(tuns)] += system
        for i in range(len(tuns)):
            flat = [e for bar in expects[i] for e in bar]
            check(per_track[i] == flat, "from_Composition width %d track %d: %r != %r\n%s"
                  % (width, i, per_track[i], flat, text))
    # entries that cannot be fingered
    g = tunings.get_tuning("guitar", "standard", 6, 1)
    for fn, arg in ((tablature.from_Note, Note("D-2")), (tablature.from_Note, Note("C-7")),
                    (tablature.from_NoteContainer, NoteContainer(["D-2", "E-3"])),
                    (tablature.from_NoteContainer, NoteContainer(["E-2", "F-2"])),
                    (tablature.from_NoteContainer, NoteContainer(["F-2", "F#-2"])),
                    (tablature.from_NoteContainer, NoteContainer(["F-2", "E-5"]))):
        try:
            fn(arg, 60, g)
            check(False, "%s(%r) did not raise" % (fn.__name__, arg))
        except (RangeError, FingerError):
            pass
    bar = Bar()
    bar.place_notes("E-3", 4)
    bar.place_notes(NoteContainer(["E-2", "F-2"]), 4)
    track = Track()
    track.add_bar(bar)
    comp = Composition()
    comp.add_track(track)
    for fn, arg in ((tablature.from_Bar, bar), (tablature.from_Track, track), (tablature.from_Composition, comp)):
        try:
            fn(arg, 60)
            check(False, "%s with an unplayable entry did not raise" % fn.__name__)
        except (RangeError, FingerError):
            pass


def run_checks():
    rng = random.Random(20)
    check_find_frets()
    check_get_Note()
    check_lookup()
    check_find_fingering(rng)
    check_chords()
    check_tablature(rng)


def observed():
    """Tablature for a tuning with courses (pairs of strings): outside what the
    property quantifies over - it used to die with an AttributeError."""
    m = tunings.get_tuning("mandolin", "standard", 4, 2)
    bar = Bar()
    bar.place_notes(NoteContainer(["G-3", "B-4"]), 2)
    bar.place_notes("E-5", 4)
    bar.place_notes("C-5", 4)
    for fn, arg, width in ((tablature.from_Note, Note("A-4"), 30), (tablature.from_Bar, bar, 40)):
        try:
            text = fn(arg, width, m)
        except Exception as e:
            print("OBSERVED: %s on the mandolin tuning raises %s: %s" % (fn.__name__, type(e).__name__, e))
            continue
        print("OBSERVED: %s on the mandolin tuning renders" % fn.__name__)
        for line in text.split(os.linesep):
            print("OBSERVED:   |%s" % line)
        print("OBSERVED:   decoded pitches %r" % (decode(text, lambda k: open_pitches(m)),))
    try:
        print("OBSERVED: _get_qsize(mandolin, 60) = %r" % tablature._get_qsize(m, 60))
    except Exception as e:
        print("OBSERVED: _get_qsize(mandolin, 60) raises %s" % type(e).__name__)


if __name__ == "__main__":
    run_checks()
    observed()
    if FAILURES:
        print("FAILED (%d checks)" % len(FAILURES))
        sys.exit(1)
    print("PASS")
    sys.exit(0)
