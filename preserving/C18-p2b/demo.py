"""Property C18 demo: sequencer playback emits a balanced, ordered, correctly
timed event stream.  Part (i) checks the clauses of the property against an
event model written from first principles (MIDI pitch arithmetic, 240/bpm
seconds per whole note); part (ii) prints OBSERVED lines.
"""
from __future__ import print_function

import random
import sys
from fractions import Fraction

from mingus.containers import Bar, Composition, Note, NoteContainer, Track
from mingus.containers.instrument import MidiInstrument, Piano
from mingus.midi.sequencer import Sequencer
from mingus.midi.sequencer_observer import SequencerObserver

FAILURES = []


def check(cond, what):
    if not cond:
        FAILURES.append(what)


# --------------------------------------------------------------- recorders
class RecSeq(Sequencer):
    """A sequencer whose hooks write a log."""

    def init(self):
        self.log = []

    def play_event(self, note, channel, velocity):
        self.log.append(("play", note, channel, velocity))

    def stop_event(self, note, channel):
        self.log.append(("stop", note, channel))

    def cc_event(self, channel, control, value):
        self.log.append(("cc", channel, control, value))

    def instr_event(self, channel, instr, bank):
        self.log.append(("instr", channel, instr))

    def sleep(self, seconds):
        self.log.append(("sleep", seconds))


class RecObs(SequencerObserver):
    """An observer that writes the same kind of log."""

    def __init__(self):
        self.log = []

    def play_int_note_event(self, int_note, channel, velocity):
        self.log.append(("play", int_note, channel, velocity))

    def stop_int_note_event(self, int_note, channel):
        self.log.append(("stop", int_note, channel))

    def cc_event(self, channel, control, value):
        self.log.append(("cc", channel, control, value))

    def instr_event(self, channel, instr, bank):
        self.log.append(("instr", channel, instr))

    def sleep(self, seconds):
        self.log.append(("sleep", seconds))


def rig():
    seq = RecSeq()
    obs = RecObs()
    seq.attach(obs)
    return seq, obs


# ------------------------------------------------------------ first principles
SEMITONE = {"C": 0, "D": 2, "E": 4, "F": 5, "G": 7, "A": 9, "B": 11}


def midi_pitch(name, octave):
    """Scientific pitch -> MIDI key number (C-4 = 60, A-4 = 69)."""
    acc = name[1:].count("#") - name[1:].count("b")
    return 12 * (octave + 1) + SEMITONE[name[0]] + acc


# General MIDI programs, numbered from 0
GM = {"Acoustic Grand Piano": 0, "Harpsichord": 6, "Violin": 40, "Flute": 73}

PITCHES = [("C", 3), ("E", 3), ("G", 3), ("A#", 3), ("C", 4), ("D", 4), ("F#", 4),
           ("G", 4), ("B", 4), ("C", 5), ("Eb", 5), ("G", 5)]

# rhythms that fill a 4/4 bar exactly (note values: 4 = quarter, 8/3 = dotted
# quarter, 6 = quarter triplet, 12 = eighth triplet)
D = Fraction
PATTERNS = [
    [D(1)],
    [D(2), D(2)],
    [D(4)] * 4,
    [D(2), D(4), D(4)],
    [D(4), D(8), D(8), D(2)],
    [D(8, 3), D(8), D(2)],
    [D(6), D(6), D(6), D(2)],
    [D(8)] * 8,
    [D(4), D(12), D(12), D(12), D(2)],
    [D(16)] * 4 + [D(4), D(2)],
    [D(4, 3), D(4)],
]


class Entry(object):
    def __init__(self, value, notes, bpm=None):
        self.value = value  # Fraction note value
        self.notes = notes  # list of (name, octave, velocity), ascending
        self.bpm = bpm


def native(value):
    return int(value) if value.denominator == 1 else float(value)


def build_bar(entries, note_channel):
    bar = Bar("C", (4, 4))
    for e in entries:
        if not e.notes and e.bpm is None:
            ok = bar.place_rest(native(e.value))
        else:
            nc = NoteContainer()
            for (name, octave, vel) in e.notes:
                nc.add_note(Note(name, octave, velocity=vel, channel=note_channel))
            if e.bpm is not None:
                nc.bpm = e.bpm
            ok = bar.place_notes(nc, native(e.value))
        assert ok, "demo built an overfull bar"
    return bar


class Piece(object):
    """tracks: list of dicts {chan, note_chan, instr, bars: [[Entry]]}"""

    def __init__(self, tracks, bpm):
        self.tracks = tracks
        self.bpm = bpm

    def mingus_tracks(self):
        res = []
        for t in self.tracks:
            tr = Track(t["instr"])
            for entries in t["bars"]:
                tr.add_bar(build_bar(entries, t["note_chan"]))
            res.append(tr)
        return res

    # the model ----------------------------------------------------------
    def tempo_map(self):
        """[(position in whole notes, bpm)] sorted; tempo marks sit on the
        start of the entry that carries them."""
        marks = {}
        for t in self.tracks:
            pos = Fraction(0)
            for entries in t["bars"]:
                for e in entries:
                    if e.bpm is not None:
                        marks[pos] = e.bpm
                    pos += 1 / e.value
        return sorted(marks.items())

    def seconds_at(self, position):
        """Seconds from the start up to `position` (whole notes):
        240/bpm seconds per whole note under the tempo in force."""
        t = Fraction(0)
        cur = Fraction(0)
        bpm = self.bpm
        for (p, b) in self.tempo_map():
            if p >= position:
                break
            t += (p - cur) * Fraction(240) / bpm
            cur, bpm = p, b
        t += (position - cur) * Fraction(240) / bpm
        return t

    def final_bpm(self):
        tm = self.tempo_map()
        return tm[-1][1] if tm else self.bpm

    def total_whole_notes(self):
        return sum((1 / e.value for entries in self.tracks[0]["bars"] for e in entries),
                   Fraction(0))

    def expected_channel_events(self, t):
        """Timed events for one track: (seconds, kind, pitch, velocity|None)."""
        res = []
        pos = Fraction(0)
        for entries in t["bars"]:
            for e in entries:
                end = pos + 1 / e.value
                for (name, octave, vel) in e.notes:
                    res.append((self.seconds_at(pos), "play", midi_pitch(name, octave), vel))
                for (name, octave, vel) in e.notes:
                    res.append((self.seconds_at(end), "stop", midi_pitch(name, octave), None))
                pos = end
        return res


def timed(log):
    """Stamp the play/stop events of a hook log with the time slept so far."""
    now = 0.0
    res = []
    for ev in log:
        if ev[0] == "sleep":
            now += ev[1]
        elif ev[0] == "play":
            res.append((now, "play", ev[1], ev[2], ev[3]))
        elif ev[0] == "stop":
            res.append((now, "stop", ev[1], ev[2], None))
    return res, now


def normalise(events):
    """Sort every run of consecutive stop events (the statement orders the
    notes as they start; the stops of one chord happen at the same moment)."""
    res, run = [], []
    for ev in events:
        if ev[1] == "stop":
            run.append(ev)
        else:
            res.extend(sorted(run))
            run = []
            res.append(ev)
    res.extend(sorted(run))
    return res


def check_balance(log, tag):
    sounding = {}
    for ev in log:
        if ev[0] == "play":
            key = (ev[1], ev[2])
            check(sounding.get(key, 0) == 0, tag + ": note started twice %r" % (key,))
            sounding[key] = sounding.get(key, 0) + 1
        elif ev[0] == "stop":
            key = (ev[1], ev[2])
            check(sounding.get(key, 0) == 1, tag + ": stop without start %r" % (key,))
            sounding[key] = sounding.get(key, 0) - 1
    check(all(v == 0 for v in sounding.values()), tag + ": something left sounding")


def restrict(piece, mode):
    """The part of the piece that the given play_* call gets to see."""
    tracks = piece.tracks
    if mode in ("track", "bar"):
        tracks = tracks[:1]
    if mode in ("bars", "bar"):
        tracks = [dict(t, bars=t["bars"][:1]) for t in tracks]
    return Piece(tracks, piece.bpm)


def check_piece(piece, mode, tag):
    piece = restrict(piece, mode)
    seq, obs = rig()
    tracks = piece.mingus_tracks()
    chans = [t["chan"] for t in piece.tracks]
    if mode == "tracks":
        res = seq.play_Tracks(tracks, chans, piece.bpm)
    elif mode == "composition":
        comp = Composition()
        for tr in tracks:
            comp.add_track(tr)
        res = seq.play_Composition(comp, chans, piece.bpm)
    elif mode == "track":
        res = seq.play_Track(tracks[0], chans[0], piece.bpm)
    elif mode == "bars":
        res = seq.play_Bars([tr[0] for tr in tracks], chans, piece.bpm)
    elif mode == "bar":
        res = seq.play_Bar(tracks[0][0], chans[0], piece.bpm)
    log = seq.log

    # observers see what the hooks see
    check(obs.log == log, tag + ": observer log differs from hook log")

    # instrument announcements come first, one per track, on its channel
    if mode in ("tracks", "composition"):
        head = log[: len(tracks)]
        want = []
        for t in piece.tracks:
            prog = 1
            if isinstance(t["instr"], MidiInstrument):
                prog = GM.get(t["instr"].name, 1)
            want.append(("instr", t["chan"], prog))
        check(sorted(head) == sorted(want), tag + ": instrument announcements %r" % (head,))
        check(not any(ev[0] == "instr" for ev in log[len(tracks):]),
              tag + ": extra instrument change")
    else:
        check(not any(ev[0] == "instr" for ev in log), tag + ": unexpected instrument change")

    # balanced
    check_balance(log, tag)

    # timing, per track (every track has its own note channel)
    got, total = timed(log)
    for t in piece.tracks:
        want = normalise([(float(s), k, p, t["note_chan"], v)
                          for (s, k, p, v) in piece.expected_channel_events(t)])
        mine = normalise([ev for ev in got if ev[3] == t["note_chan"]])
        ok = len(want) == len(mine) and all(
            w[1:] == m[1:] and abs(w[0] - m[0]) < 1e-6 for w, m in zip(want, mine))
        check(ok, tag + ": channel %d stream differs from the model" % t["note_chan"])
    check(len(got) == sum(len(piece.expected_channel_events(t)) for t in piece.tracks),
          tag + ": number of note events")

    # total time slept
    want_total = float(piece.seconds_at(piece.total_whole_notes()))
    check(abs(total - want_total) < 1e-6, tag + ": slept %r, expected %r" % (total, want_total))

    # the result reports the final tempo
    try:
        check(res["bpm"] == piece.final_bpm(), tag + ": final tempo %r" % (res,))
    except Exception:
        check(False, tag + ": result %r does not report the tempo" % (res,))


def random_entries(rng, tempo_ok):
    entries = []
    for value in rng.choice(PATTERNS):
        r = rng.random()
        if r < 0.2:
            notes = []
        elif r < 0.7:
            notes = [rng.choice(PITCHES)]
        else:
            notes = sorted(rng.sample(PITCHES, rng.randint(2, 4)),
                           key=lambda p: midi_pitch(*p))
        notes = [(n, o, rng.randint(1, 127)) for (n, o) in notes]
        bpm = None
        if tempo_ok and rng.random() < 0.2:
            bpm = rng.choice([60, 72, 90, 120, 150, 200])
        entries.append(Entry(value, notes, bpm))
    return entries


def random_piece(rng, ntracks, nbars, equal_rhythm):
    instruments = [None, MidiInstrument("Acoustic Grand Piano"), MidiInstrument("Harpsichord"),
                   MidiInstrument("Violin"), MidiInstrument("Flute"),
                   MidiInstrument("No such instrument"), Piano()]
    chans = rng.sample(range(0, 8), ntracks)
    note_chans = chans if rng.random() < 0.5 else rng.sample(range(8, 16), ntracks)
    tracks = []
    for i in range(ntracks):
        tracks.append({"chan": chans[i], "note_chan": note_chans[i],
                       "instr": rng.choice(instruments), "bars": []})
    for b in range(nbars):
        first = random_entries(rng, True)
        tracks[0]["bars"].append(first)
        for t in tracks[1:]:
            if equal_rhythm:
                other = random_entries(rng, False)
                # same rhythm, other notes
                t["bars"].append([Entry(f.value, o.notes) for f, o in
                                  zip(first, other * len(first))])
            else:
                t["bars"].append(random_entries(rng, False))
    return Piece(tracks, rng.choice([60, 100, 120, 132, 180]))


def property_checks():
    rng = random.Random(1808)

    # single notes and containers --------------------------------------
    seq, obs = rig()
    n = Note("A", 4, velocity=77, channel=9)
    seq.play_Note(n)
    seq.stop_Note(n)
    check(seq.log == [("play", 69, 9, 77), ("stop", 69, 9)], "play_Note/stop_Note A-4")
    check(obs.log == seq.log, "observer for play_Note")
    seq, obs = rig()
    nc = NoteContainer([Note("C", 4, velocity=10, channel=2), Note("E", 4, velocity=20, channel=3),
                        Note("G", 4, velocity=30, channel=4)])
    seq.play_NoteContainer(nc)
    seq.stop_NoteContainer(nc)
    check(seq.log[:3] == [("play", 60, 2, 10), ("play", 64, 3, 20), ("play", 67, 4, 30)],
          "play_NoteContainer C major")
    check(sorted(seq.log[3:]) == [("stop", 60, 2), ("stop", 64, 3), ("stop", 67, 4)],
          "stop_NoteContainer C major")
    check(obs.log == seq.log, "observer for play_NoteContainer")

    # a hand-written bar: C-4 quarter, rest quarter, tempo change to 60 on a
    # half-note chord -> 0.5 s + 0.5 s at 120 bpm, then 2 s at 60 bpm
    piece = Piece([{"chan": 3, "note_chan": 3, "instr": None, "bars": [[
        Entry(D(4), [("C", 4, 90)]), Entry(D(4), []),
        Entry(D(2), [("E", 4, 50), ("G", 4, 51)], bpm=60)]]}], 120)
    seq, obs = rig()
    res = seq.play_Bar(piece.mingus_tracks()[0][0], 3, 120)
    want = [("play", 60, 3, 90), ("sleep", 0.5), ("stop", 60, 3), ("sleep", 0.5),
            ("play", 64, 3, 50), ("play", 67, 3, 51), ("sleep", 2.0)]
    got = [ev for ev in seq.log]
    check(len(got) == 9 and got[:4] == want[:4] and got[4:6] == want[4:6]
          and got[6][0] == "sleep" and abs(got[6][1] - 2.0) < 1e-9
          and sorted(got[7:]) == [("stop", 64, 3), ("stop", 67, 3)], "hand-written bar: %r" % got)
    check(res["bpm"] == 60, "hand-written bar reports 60 bpm")
    check_piece(piece, "bar", "hand bar")
    check_piece(piece, "track", "hand track")

    # two tracks with different rhythms: halves against quarters+eighths
    piece = Piece([
        {"chan": 1, "note_chan": 1, "instr": MidiInstrument("Violin"), "bars": [[
            Entry(D(2), [("C", 4, 64)]), Entry(D(2), [("D", 4, 65)])]]},
        {"chan": 2, "note_chan": 2, "instr": None, "bars": [[
            Entry(D(4), [("G", 3, 70)]), Entry(D(8), []), Entry(D(8), [("A#", 3, 71)]),
            Entry(D(4), [("C", 3, 72), ("G", 3, 73)], bpm=90), Entry(D(4), [])]]},
    ], 120)
    for mode in ("tracks", "composition", "bars"):
        check_piece(piece, mode, "two tracks/" + mode)

    # random pieces ------------------------------------------------------
    for i in range(120):
        ntracks = rng.randint(1, 4)
        piece = random_piece(rng, ntracks, rng.randint(1, 3), rng.random() < 0.4)
        mode = rng.choice(["tracks", "composition", "bars"])
        check_piece(piece, mode, "random %d/%s" % (i, mode))
        if i % 3 == 0:
            check_piece(piece, "track", "random %d/track" % i)
            check_piece(piece, "bar", "random %d/bar" % i)

    # attach twice / detach ------------------------------------------------
    seq, obs = rig()
    seq.attach(obs)
    seq.play_Note(Note("C", 4, velocity=5, channel=0))
    check(obs.log == [("play", 60, 0, 5)], "attaching twice must not duplicate")
    seq.detach(obs)
    seq.stop_Note(Note("C", 4, velocity=5, channel=0))
    check(obs.log == [("play", 60, 0, 5)], "detached observer must not receive")
    check(seq.log == [("play", 60, 0, 5), ("stop", 60, 0)], "hooks after detach")
    seq.detach(obs)  # detaching again is harmless
    seq.attach(obs)
    seq.play_Note(Note("D", 4, velocity=6, channel=0))
    check(obs.log[-1] == ("play", 62, 0, 6) and len(obs.log) == 2, "re-attached observer")

    # control changes --------------------------------------------------------
    seq, obs = rig()
    for (control, value) in [(-1, 10), (129, 10), (7, -1), (7, 129), (-3, 400), (1000, -1000)]:
        seq.control_change(1, control, value)
    check(seq.log == [] and obs.log == [], "out-of-range control changes must emit nothing")
    seq.control_change(2, 7, 100)
    seq.modulation(3, 0)
    seq.pan(4, 127)
    seq.main_volume(5, 64)
    check(seq.log == [("cc", 2, 7, 100), ("cc", 3, 1, 0), ("cc", 4, 10, 127), ("cc", 5, 7, 64)],
          "valid control changes: %r" % seq.log)
    check(obs.log == seq.log, "observer for control changes")


def finish():
    if FAILURES:
        print("FAIL (%d)" % len(FAILURES))
        for f in FAILURES[:20]:
            print("  -", f)
        sys.exit(1)
    print("PASS")
    sys.exit(0)


# ------------------------------------------------------------------ OBSERVED
def observed():
    # a 2/4 bar of three quarter-note triplets (value 6) at 100 bpm: every one
    # lasts 240 / (100 * 6) = 0.4 s
    bar = Bar("C", (2, 4))
    for name in ("C", "D", "E"):
        bar.place_notes(Note(name, 4), 6)
    seq = RecSeq()
    seq.play_Bar(bar, 1, 100)
    sleeps = [ev[1] for ev in seq.log if ev[0] == "sleep"]
    print("OBSERVED: play_Bar, quarter triplets at 100 bpm, sleep() arguments:",
          [repr(s) for s in sleeps])
    # the same bar against one half note, played together at 132 bpm
    other = Bar("C", (2, 4))
    other.place_notes(Note("G", 3), 2)
    seq = RecSeq()
    seq.play_Bars([bar, other], [1, 2], 132)
    sleeps = [ev[1] for ev in seq.log if ev[0] == "sleep"]
    print("OBSERVED: play_Bars, triplets against a half note at 132 bpm, sleep() arguments:",
          [repr(s) for s in sleeps])
    print("OBSERVED: Sequencer has a _seconds helper:", hasattr(Sequencer, "_seconds"))


if __name__ == "__main__":
    property_checks()
    observed()
    finish()
