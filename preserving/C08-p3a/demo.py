"""Demo for C08 / change a: to_chords() issues a UserWarning for an
unrecognised numeral (and still returns the documented empty list).

(i) checks the clauses of property C08 from first principles, prints PASS/FAIL;
(ii) prints OBSERVED: lines that differ between the two trees.
"""
from __future__ import print_function

import re
import sys
import warnings

from mingus.core import chords, progressions

LETTERS = "CDEFGAB"
NATURAL = {"C": 0, "D": 2, "E": 4, "F": 5, "G": 7, "A": 9, "B": 11}
MAJOR_STEPS = [0, 2, 4, 5, 7, 9, 11]
MINOR_STEPS = [0, 2, 3, 5, 7, 8, 10]
MAJOR_KEYS = ["Cb", "Gb", "Db", "Ab", "Eb", "Bb", "F", "C", "G", "D", "A", "E", "B", "F#", "C#"]
MINOR_KEYS = ["ab", "eb", "bb", "f", "c", "g", "d", "a", "e", "b", "f#", "c#", "g#", "d#", "a#"]
NUMERALS = ["I", "II", "III", "IV", "V", "VI", "VII"]
FUNCTIONS = ["tonic", "supertonic", "mediant", "subdominant", "dominant", "submediant", "subtonic"]
# what chords.determine calls the diatonic chords of a major key
MAJOR_CASE = ["I", "ii", "iii", "IV", "V", "vi", "vii"]
# semitone content (from the root) of a sample of chord suffixes - music theory
SUFFIX_PITCHES = {
    "M": [0, 4, 7], "m": [0, 3, 7], "dim": [0, 3, 6], "aug": [0, 4, 8],
    "M7": [0, 4, 7, 11], "m7": [0, 3, 7, 10], "dom7": [0, 4, 7, 10],
    "dim7": [0, 3, 6, 9], "m7b5": [0, 3, 6, 10], "sus4": [0, 5, 7],
    "sus2": [0, 2, 7], "M6": [0, 4, 7, 9], "m6": [0, 3, 7, 9],
    "mM7": [0, 3, 7, 11], "7b5": [0, 4, 6, 10],
}

failures = []


def check(cond, msg):
    if not cond:
        failures.append(msg)


def pitch(note):
    p = NATURAL[note[0]]
    for c in note[1:]:
        p += 1 if c == "#" else -1
    return p % 12


def pitches(chord):
    return [pitch(n) for n in chord]


def key_notes(key):
    """Scale of the key spelled from first principles: consecutive letters,
    accidentals chosen so that the major / natural minor step pattern fits."""
    steps = MAJOR_STEPS if key[0].isupper() else MINOR_STEPS
    tonic = key[0].upper() + key[1:]
    start = LETTERS.index(tonic[0])
    res = []
    for d in range(7):
        letter = LETTERS[(start + d) % 7]
        want = (pitch(tonic) + steps[d]) % 12
        diff = (want - NATURAL[letter] + 6) % 12 - 6
        res.append(letter + ("#" * diff if diff > 0 else "b" * -diff))
    return res


def prefixed(acc, s):
    return ("#" * acc if acc > 0 else "b" * -acc) + s


def well_formed(numeral):
    m = re.match(r"^([b#]*)(VII|VI|IV|V|III|II|I)(.*)$", numeral)
    return bool(m) and (m.group(3) in ("", "7") or m.group(3) in chords.chord_shorthand)


def root_pitch(numeral, key):
    return pitch(progressions.to_chords([numeral], key)[0][0])


# ---- clause 1: diatonic chords, function names, aliases, progression strings
for key in MAJOR_KEYS + MINOR_KEYS:
    scale = key_notes(key)
    for d in range(7):
        tri = [scale[d], scale[(d + 2) % 7], scale[(d + 4) % 7]]
        sev = tri + [scale[(d + 6) % 7]]
        check(chords.triads(key)[d] == tri, "triads %s %d" % (key, d))
        check(chords.sevenths(key)[d] == sev, "sevenths %s %d" % (key, d))
        check(getattr(chords, FUNCTIONS[d])(key) == tri, "function %s %s" % (FUNCTIONS[d], key))
        check(getattr(chords, FUNCTIONS[d] + "7")(key) == sev, "function7 %s %s" % (FUNCTIONS[d], key))
        names = [NUMERALS[d]]
        if NUMERALS[d] not in ("I", "IV", "V"):
            names.append(NUMERALS[d].lower())
        for n in names:
            check(getattr(chords, n)(key) == tri, "alias %s %s" % (n, key))
            check(getattr(chords, n + "7")(key) == sev, "alias %s7 %s" % (n, key))
        for n in (NUMERALS[d], NUMERALS[d].lower()):
            check(progressions.to_chords(n, key) == [tri], "string %s %s" % (n, key))
            check(progressions.to_chords([n + "7"], key) == [sev], "string %s7 %s" % (n, key))
            # accidental prefixes: every note moves by one semitone per accidental
            for acc in range(-3, 4):
                for body, base in ((n, tri), (n + "7", sev)):
                    got = progressions.to_chords([prefixed(acc, body)], key)
                    ok = len(got) == 1 and pitches(got[0]) == [(p + acc) % 12 for p in pitches(base)]
                    check(ok, "prefix %s in %s" % (prefixed(acc, body), key))
        # chord suffixes rebuild the chord type on the degree's root
        for suff, content in SUFFIX_PITCHES.items():
            for acc in (-1, 0, 2):
                got = progressions.to_chords([prefixed(acc, NUMERALS[d] + suff)], key)
                want = [(pitch(scale[d]) + acc + c) % 12 for c in content]
                check(len(got) == 1 and pitches(got[0]) == want, "suffix %s%s in %s" % (NUMERALS[d], suff, key))
        for suff in chords.chord_shorthand:
            got = progressions.to_chords([NUMERALS[d].lower() + suff], key)
            check(len(got) == 1 and got[0][0] == scale[d], "suffix root %s%s in %s" % (NUMERALS[d], suff, key))
    # the documented empty answer
    with warnings.catch_warnings():
        warnings.simplefilter("ignore")
        for bad in ("X", "", "H7", "m7", "7"):
            check(progressions.to_chords([bad], key) == [], "unrecognised %r in %s" % (bad, key))
            check(progressions.to_chords(["I", bad], key) == [], "unrecognised I,%r in %s" % (bad, key))

# ---- clause 2: determine is inverse to to_chords in major keys; round trip
for key in MAJOR_KEYS:
    scale = key_notes(key)
    for d in range(7):
        tri = [scale[d], scale[(d + 2) % 7], scale[(d + 4) % 7]]
        sev = tri + [scale[(d + 6) % 7]]
        check(FUNCTIONS[d] in progressions.determine(tri, key), "determine name %s %d" % (key, d))
        check(FUNCTIONS[d] + " seventh" in progressions.determine(sev, key), "determine name7 %s %d" % (key, d))
        check(MAJOR_CASE[d] in progressions.determine(tri, key, True), "determine numeral %s %d" % (key, d))
        check(MAJOR_CASE[d] + "7" in progressions.determine(sev, key, True), "determine numeral7 %s %d" % (key, d))
        check(progressions.to_chords(progressions.determine(tri, key, True)[0], key) == [tri], "inverse %s %d" % (key, d))
        check(progressions.to_chords(progressions.determine(sev, key, True)[0], key) == [sev], "inverse7 %s %d" % (key, d))
all_suffixes = [""] + list(chords.chord_shorthand)
for num in NUMERALS:
    for suff in all_suffixes:
        for acc in range(-3, 4):
            s = prefixed(acc, num + suff)
            check(progressions.parse_string(s) == (num, acc, suff), "parse %s" % s)
            check(progressions.tuple_to_string(progressions.parse_string(s)) == s, "round trip %s" % s)

# ---- clause 3: substitution rules
RULES = [
    progressions.substitute_harmonic,
    progressions.substitute_minor_for_major,
    progressions.substitute_major_for_minor,
    progressions.substitute_diminished_for_diminished,
    progressions.substitute_diminished_for_dominant,
]
for key in MAJOR_KEYS:
    for num in NUMERALS:
        for suff in all_suffixes:
            for acc in range(-3, 4):
                s = prefixed(acc, num + suff)
                prog = ["I", s, "V"]
                before = list(prog)
                here = root_pitch(prefixed(acc, num), key)
                res = {}
                for rule in RULES:
                    res[rule.__name__] = rule(prog, 1)
                    check(all(well_formed(x) for x in res[rule.__name__]), "%s(%s) malformed" % (rule.__name__, s))
                if key in ("C", "Gb", "F#"):
                    for depth in range(3):
                        out = progressions.substitute(prog, 1, depth)
                        check(all(well_formed(x) for x in out), "substitute(%s,%d) malformed" % (s, depth))
                check(prog == before, "progression mutated by %s" % s)
                tri = set(pitches(progressions.to_chords([prefixed(acc, num)], key)[0]))
                for x in res["substitute_harmonic"]:
                    other = set(pitches(progressions.to_chords([x], key)[0][:3]))
                    check(len(tri & other) == 2, "harmonic %s -> %s in %s" % (s, x, key))
                for x in res["substitute_minor_for_major"]:
                    check((root_pitch(x, key) - here) % 12 == 3, "minor for major %s -> %s in %s" % (s, x, key))
                for x in res["substitute_major_for_minor"]:
                    check((root_pitch(x, key) - here) % 12 == 9, "major for minor %s -> %s in %s" % (s, x, key))
                for i, x in enumerate(res["substitute_diminished_for_diminished"]):
                    check((root_pitch(x, key) - here) % 12 == (3 * (i + 1)) % 12, "dim cycle %s -> %s in %s" % (s, x, key))
check(progressions.substitute_minor_for_major(["VI"], 0) == ["I"], "VI -> I")
check(progressions.substitute_major_for_minor(["VM7"], 0) == ["IIIm7"], "VM7 -> IIIm7")
check(set(progressions.substitute_harmonic(["I"], 0)) == {"III", "VI"}, "I -> III, VI")

# ---- (ii) what the change alters
with warnings.catch_warnings(record=True) as caught:
    warnings.simplefilter("always")
    answer = progressions.to_chords(["I", "Xm7", "V"], "C")
print("OBSERVED: to_chords(['I', 'Xm7', 'V'], 'C') ->", answer, "; warnings issued:",
      [(w.category.__name__, str(w.message)) for w in caught])
with warnings.catch_warnings():
    warnings.simplefilter("error")
    try:
        outcome = repr(progressions.to_chords("H", "C"))
    except Warning as e:
        outcome = "raises %s under the 'error' warnings filter" % type(e).__name__
print("OBSERVED: to_chords('H', 'C') with warnings turned into errors ->", outcome)

if failures:
    print("FAIL (%d)" % len(failures))
    for f in failures[:20]:
        print("  ", f)
    sys.exit(1)
print("PASS")
sys.exit(0)
