"""Demo for change C03/a (determine() rewritten with letter arithmetic).

(i)  checks property C03 from first principles  -> prints PASS / FAIL
(ii) prints OBSERVED: lines showing what the change alters.
"""
from __future__ import print_function
import sys

from mingus.core import intervals

LETTERS = "CDEFGAB"
NAT = {"C": 0, "D": 2, "E": 4, "F": 5, "G": 7, "A": 9, "B": 11}
MAJOR = [0, 2, 4, 5, 7, 9, 11]  # size of the major / perfect interval
NUMBER = ["unison", "second", "third", "fourth", "fifth", "sixth", "seventh"]
ACCS = {"": 0, "#": 1, "##": 2, "b": -1, "bb": -2}
NAMES = [l + a for l in LETTERS for a in ACCS]
SHORTHANDS = [a + str(d) for d in range(1, 8) for a in ACCS]
assert len(NAMES) == 35 and len(SHORTHANDS) == 35


def acc(name):
    return name.count("#", 1) - name.count("b", 1)


def spell(letter, alteration):
    return letter + "#" * alteration + "b" * -alteration


failures = []


def check(cond, msg):
    if not cond:
        failures.append(msg)


# Clause 1: naming and "returned shorthand reproduces the second note"
pairs = 0
for n1 in NAMES:
    for n2 in NAMES:
        steps = (LETTERS.index(n2[0]) - LETTERS.index(n1[0])) % 7
        span = (NAT[n2[0]] - NAT[n1[0]]) % 12 if steps else 0
        dist = span + acc(n2) - acc(n1)
        if not 0 <= dist <= 11:
            continue
        pairs += 1
        off = dist - MAJOR[steps]
        if off == 0:
            quals = ("major", "perfect")
        elif off == -1:
            quals = ("minor",)
        elif off < -1:
            quals = ("diminished",)
        else:
            quals = ("augmented",)
        long_name = intervals.determine(n1, n2)
        check(
            long_name in [q + " " + NUMBER[steps] for q in quals],
            "determine(%r, %r) = %r" % (n1, n2, long_name),
        )
        short = intervals.determine(n1, n2, True)
        check(
            isinstance(short, str)
            and short[-1:] == str(steps + 1)
            and set(short[:-1]) <= set("#b")
            and short.count("#") - short.count("b") == off,
            "determine(%r, %r, True) = %r" % (n1, n2, short),
        )
        back = intervals.from_shorthand(n1, short)
        check(back == n2, "from_shorthand(%r, %r) = %r, not %r" % (n1, short, back, n2))

# Clause 2: every shorthand up / down / up-then-down
for n in NAMES:
    i = LETTERS.index(n[0])
    for s in SHORTHANDS:
        deg = int(s[-1]) - 1
        semis = MAJOR[deg] + s.count("#") - s.count("b")
        lu = LETTERS[(i + deg) % 7]
        span_up = (NAT[lu] - NAT[n[0]]) % 12 if deg else 0
        exp_up = spell(lu, acc(n) + semis - span_up)
        ld = LETTERS[(i - deg) % 7]
        span_dn = (NAT[n[0]] - NAT[ld]) % 12 if deg else 0
        exp_dn = spell(ld, acc(n) - semis + span_dn)
        up = intervals.from_shorthand(n, s)
        dn = intervals.from_shorthand(n, s, False)
        check(up == exp_up, "from_shorthand(%r, %r) = %r, not %r" % (n, s, up, exp_up))
        check(dn == exp_dn, "from_shorthand(%r, %r, False) = %r, not %r" % (n, s, dn, exp_dn))
        rt = intervals.from_shorthand(up, s, False) if up else None
        check(rt == n, "up then down of %r by %r gives %r" % (n, s, rt))

# Clause 3: invert
for lst in (["C", "E"], ["E", "C"], ["C", "E", "G"], ["Bb", "D", "F", "Ab"], ["C"], [], ["C", "C"]):
    arg = list(lst)
    res = intervals.invert(arg)
    check(res == lst[::-1], "invert(%r) = %r" % (lst, res))
    check(arg == lst, "invert changed its argument %r -> %r" % (lst, arg))

# ---------------------------------------------------------------- OBSERVED
def attempt(f, *a):
    try:
        return repr(f(*a))
    except Exception as e:  # noqa
        return "%s(%s)" % (type(e).__name__, e)


calls = []
orig = intervals.measure


def counting(a, b):
    calls.append((a, b))
    return orig(a, b)


intervals.measure = counting
try:
    intervals.determine("C", "E")
    intervals.determine("D", "Bb", True)
finally:
    intervals.measure = orig
print("OBSERVED: calls of intervals.measure made by two determine() calls: %d" % len(calls))
print("OBSERVED: determine('H', 'H') ->", attempt(intervals.determine, "H", "H"))
print("OBSERVED: determine('C', 'H') ->", attempt(intervals.determine, "C", "H"))
print("OBSERVED: module has a _DEGREES table:", hasattr(intervals, "_DEGREES"))

print("checked %d pairs in the domain" % pairs)
if failures:
    for f in failures[:20]:
        print("FAIL:", f)
    print("FAIL (%d)" % len(failures))
    sys.exit(1)
print("PASS")
sys.exit(0)
