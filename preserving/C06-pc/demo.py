from __future__ import print_function

import sys

from mingus.core import chords
from mingus.core.mt_exceptions import FormatError, NoteFormatError

# ---------------------------------------------------------------------------
# (i) Property C06 checked from first principles.
#
# A chord formula is a list of scale degrees relative to the MAJOR scale of the
# root: "b3" = the third letter above the root, one semitone below the major
# third, and so on.  9/11/13 are the 2nd/4th/6th letter.  Everything below is
# plain arithmetic on letters and semitones; no mingus call is used as oracle.
# ---------------------------------------------------------------------------
LETTERS = "CDEFGAB"
NATURAL = {"C": 0, "D": 2, "E": 4, "F": 5, "G": 7, "A": 9, "B": 11}
MAJOR_SCALE = [0, 2, 4, 5, 7, 9, 11]

FORMULAS = {
    "m": "1 b3 5",
    "M": "1 3 5",
    "": "1 3 5",
    "dim": "1 b3 b5",
    "aug": "1 3 #5",
    "+": "1 3 #5",
    "7#5": "1 3 #5 b7",
    "M7+5": "1 3 #5 b7",
    "m7+": "1 3 #5 b7",
    "M7+": "1 3 #5 7",
    "7+": "1 3 #5 7",
    "sus47": "1 4 5 b7",
    "7sus4": "1 4 5 b7",
    "sus4": "1 4 5",
    "sus": "1 4 5",
    "sus2": "1 2 5",
    "11": "1 5 b7 11",
    "add11": "1 5 b7 11",
    "sus4b9": "1 4 5 b9",
    "susb9": "1 4 5 b9",
    "m7": "1 b3 5 b7",
    "M7": "1 3 5 7",
    "7": "1 3 5 b7",
    "dom7": "1 3 5 b7",
    "m7b5": "1 b3 b5 b7",
    "dim7": "1 b3 b5 bb7",
    "m/M7": "1 b3 5 7",
    "mM7": "1 b3 5 7",
    "m6": "1 b3 5 6",
    "M6": "1 3 5 6",
    "6": "1 3 5 6",
    "6/7": "1 3 5 6 b7",
    "67": "1 3 5 6 b7",
    "6/9": "1 3 5 6 9",
    "69": "1 3 5 6 9",
    "9": "1 3 5 b7 9",
    "add9": "1 3 5 b7 9",
    "7b9": "1 3 5 b7 b9",
    "7#9": "1 3 5 b7 #9",
    "M9": "1 3 5 7 9",
    "m9": "1 b3 5 b7 9",
    "7#11": "1 3 5 b7 #11",
    "m11": "1 b3 5 b7 11",
    "M11": "1 3 5 7 9 11",
    "M13": "1 3 5 7 9 13",
    "m13": "1 b3 5 b7 9 13",
    "13": "1 3 5 b7 9 13",
    "add13": "1 3 5 b7 9 13",
    "7b5": "1 3 b5 b7",
    "hendrix": "1 3 5 b7 b10",
    "7b12": "1 3 5 b7 b10",
    "5": "1 5",
}

BUILDERS = {
    "m": "minor_triad",
    "M": "major_triad",
    "dim": "diminished_triad",
    "aug": "augmented_triad",
    "7#5": "augmented_minor_seventh",
    "M7+": "augmented_major_seventh",
    "sus47": "suspended_seventh",
    "sus4": "suspended_fourth_triad",
    "sus": "suspended_triad",
    "sus2": "suspended_second_triad",
    "11": "eleventh",
    "sus4b9": "suspended_fourth_ninth",
    "m7": "minor_seventh",
    "M7": "major_seventh",
    "7": "dominant_seventh",
    "m7b5": "half_diminished_seventh",
    "dim7": "diminished_seventh",
    "mM7": "minor_major_seventh",
    "m6": "minor_sixth",
    "M6": "major_sixth",
    "67": "dominant_sixth",
    "69": "sixth_ninth",
    "9": "dominant_ninth",
    "7b9": "dominant_flat_ninth",
    "7#9": "dominant_sharp_ninth",
    "M9": "major_ninth",
    "m9": "minor_ninth",
    "7#11": "lydian_dominant_seventh",
    "m11": "minor_eleventh",
    "M11": "major_eleventh",
    "M13": "major_thirteenth",
    "m13": "minor_thirteenth",
    "13": "dominant_thirteenth",
    "7b5": "dominant_flat_five",
    "hendrix": "hendrix_chord",
}

ROOTS = [l + a for l in LETTERS for a in ("", "#", "b", "##", "bb")]

failures = []


def check(cond, msg):
    if not cond:
        failures.append(msg)


def acc_value(note):
    return note[1:].count("#") - note[1:].count("b")


def pitch(note):
    return (NATURAL[note[0]] + acc_value(note)) % 12


def spell(root, degree):
    """The note `degree` (e.g. 'b3', '#11', 'bb7') above root, spelled on the
    letter the degree number prescribes."""
    number = int(degree.lstrip("#b"))
    alter = degree.count("#") - degree.count("b")
    steps = (number - 1) % 7
    letter = LETTERS[(LETTERS.index(root[0]) + steps) % 7]
    target = (pitch(root) + MAJOR_SCALE[steps] + alter) % 12
    acc = (target - NATURAL[letter]) % 12
    if acc > 6:
        acc -= 12
    return letter + ("#" * acc if acc > 0 else "b" * -acc)


def expected(root, short):
    return [root] + [spell(root, d) for d in FORMULAS[short].split()[1:]]


def rejected(arg):
    """True when from_shorthand refuses arg with the format/note-format error."""
    try:
        chords.from_shorthand(arg)
    except (FormatError, NoteFormatError):
        return True
    except Exception:
        return False
    return False


def check_property():
    # sanity of the oracle itself (textbook spellings)
    check(expected("C", "dim7") == ["C", "Eb", "Gb", "Bbb"], "oracle Cdim7")
    check(expected("C", "7#11") == ["C", "E", "G", "Bb", "F#"], "oracle C7#11")
    check(expected("F#", "m7") == ["F#", "A", "C#", "E"], "oracle F#m7")
    check(expected("Gb", "dim7") == ["Gb", "Bbb", "Dbb", "Fbb"], "oracle Gbdim7")
    check(expected("B##", "M7") == ["B##", "D###", "F###", "A###"], "oracle B##M7")

    # every shorthand x every root: root first, right letters, right distances
    for short in FORMULAS:
        for root in ROOTS:
            got = chords.from_shorthand(root + short)
            want = expected(root, short)
            check(got == want, "%s%s -> %r, want %r" % (root, short, got, want))
            check(isinstance(got, list) and got[:1] == [root], "%s%s root" % (root, short))
            for g, w in zip(got, want):
                check(g[0] == w[0] and pitch(g) == pitch(w), "%s%s note %s" % (root, short, g))

    # named builders give the same chords
    for short, fname in BUILDERS.items():
        for root in ROOTS:
            got = getattr(chords, fname)(root)
            check(got == expected(root, short), "%s(%s) -> %r" % (fname, root, got))
    check(chords.minor_seventh_flat_five("D") == ["D", "F", "Ab", "C"], "m7b5 builder")

    # alias spellings
    for short in FORMULAS:
        for root in ("C", "F#", "Bb", "Ebb"):
            for lo in ("min", "mi", "-"):
                for up in ("maj", "ma"):
                    alias = short.replace("m", lo).replace("M", up)
                    got = chords.from_shorthand(root + alias)
                    check(got == expected(root, short), "alias %s%s -> %r" % (root, alias, got))
    check(chords.from_shorthand("Amin7") == ["A", "C", "E", "G"], "Amin7")
    check(chords.from_shorthand("A-7") == ["A", "C", "E", "G"], "A-7")
    check(chords.from_shorthand("Bbmaj7") == ["Bb", "D", "F", "A"], "Bbmaj7")
    check(chords.from_shorthand("Bbma7") == ["Bb", "D", "F", "A"], "Bbma7")

    # slash chords: the bass note followed by the chord
    for short in ("", "m", "m7", "7", "dim7", "sus4", "M9", "6/9", "m/M7", "6/7"):
        for root in ("C", "F#", "Bb", "G##"):
            for bass in ROOTS:
                got = chords.from_shorthand("%s%s/%s" % (root, short, bass))
                check(got == [bass] + expected(root, short), "slash %s%s/%s -> %r" % (root, short, bass, got))
    check(chords.from_shorthand("A/G") == ["G", "A", "C#", "E"], "A/G")

    # polychords: Y's notes, then X's notes, an immediate repeat dropped
    def poly(x, y):
        res = list(y)
        for n in x:
            if not res or res[-1] != n:
                res.append(n)
        return res

    parts = [("C", ""), ("G", ""), ("D", "m"), ("A", "m7"), ("F#", "dim7"), ("Bb", "M7"), ("E", "7#9"), ("Gb", "5")]
    for xr, xs in parts:
        for yr, ys in parts:
            got = chords.from_shorthand("%s%s|%s%s" % (xr, xs, yr, ys))
            want = poly(expected(xr, xs), expected(yr, ys))
            check(got == want, "poly %s%s|%s%s -> %r want %r" % (xr, xs, yr, ys, got, want))
    check(chords.from_shorthand("Dm|G") == ["G", "B", "D", "F", "A"], "Dm|G")
    check(chords.from_shorthand("G|C") == ["C", "E", "G", "B", "D"], "G|C")
    check(chords.from_shorthand("Am7|G7") == ["G", "B", "D", "F", "A", "C", "E", "G"], "Am7|G7")

    # NC, lists
    check(chords.from_shorthand("NC") == [], "NC")
    got = chords.from_shorthand(["Am", "NC", "C/G", "Dm|G", "Ebdim7"])
    check(
        got == [["A", "C", "E"], [], ["G", "C", "E", "G"], ["G", "B", "D", "F", "A"], ["Eb", "Gb", "Bbb", "Dbb"]],
        "list -> %r" % (got,),
    )
    check(chords.from_shorthand([]) == [], "empty list")

    # malformed input: unknown shorthand -> format error, bad root -> note-format error
    for bad in ("Cfoo", "Bollocks", "Asd", "C#m77", "Dminor", "Eb7b55", "F#!", "Gsus5", "C 7", "C7 "):
        check(rejected(bad), "unknown shorthand %r not rejected" % bad)
        try:
            chords.from_shorthand(bad)
        except FormatError:
            pass
        except Exception as e:
            check(False, "%r: %r is not the format error" % (bad, e))
    for bad in ("H7", "ollocks", "c", "cm7", "7", "#C", "bB", " C", "x", "?", "|C"):
        check(rejected(bad), "bad root %r not rejected" % bad)
        try:
            chords.from_shorthand(bad)
        except NoteFormatError:
            pass
        except Exception as e:
            check(False, "%r: %r is not the note-format error" % (bad, e))
    for bad in ("C/H", "Am7/x", "C|H", "C|Gfoo", "Cfoo|G"):
        check(rejected(bad), "%r not rejected" % bad)

    # constructible set == set with a textual meaning; same meaning -> same chord
    meaning = chords.chord_shorthand_meaning
    candidates = set(meaning) | set(chords.chord_shorthand) | set(FORMULAS)
    constructible = set(k for k in candidates if not rejected("C" + k))
    check(constructible == set(meaning), "constructible != meaning: %r" % (constructible ^ set(meaning),))
    check(set(FORMULAS) == set(meaning), "formula table != meaning: %r" % (set(FORMULAS) ^ set(meaning),))
    for k1 in meaning:
        for k2 in meaning:
            if meaning[k1] == meaning[k2]:
                for root in ("C", "F#", "Bbb"):
                    check(
                        chords.from_shorthand(root + k1) == chords.from_shorthand(root + k2),
                        "same meaning, other chord: %s %s" % (k1, k2),
                    )
                check(FORMULAS[k1] == FORMULAS[k2], "same meaning, other formula: %s %s" % (k1, k2))


def describe(f, *args):
    """Outcome of f(*args) as text: the value, or the exception's class chain and message."""
    try:
        return repr(f(*args))
    except Exception as e:
        chain = [c.__name__ for c in type(e).__mro__ if c not in (object, BaseException)]
        return "raises %s: %s" % (" < ".join(chain), e)


def observed():
    from mingus.core import notes

    # Strings with an empty component: no root at all, a slash without a bass,
    # a polychord with an empty half.
    for s in ("", "C/", "Am7/", "C|", "C/G|"):
        print("OBSERVED: from_shorthand(%r) ->" % s, describe(chords.from_shorthand, s))
    print("OBSERVED: from_shorthand(['C', '']) ->", describe(chords.from_shorthand, ["C", ""]))
    print("OBSERVED: notes.is_valid_note('') ->", describe(notes.is_valid_note, ""))
    print("OBSERVED: notes.note_to_int('') ->", describe(notes.note_to_int, ""))


if __name__ == "__main__":
    check_property()
    observed()
    if failures:
        for f in failures[:25]:
            print("FAIL:", f)
        print("FAIL (%d checks failed)" % len(failures))
        sys.exit(1)
    print("PASS")
    sys.exit(0)
