"""Demo for property C06 (chord shorthand builds exactly the chord its formula
prescribes on every root).  Part (i) checks the clauses of the property from
first principles (letter arithmetic + semitone arithmetic), part (ii) prints
OBSERVED lines that show the behaviour the change alters."""
from __future__ import print_function
import sys

from mingus.core import chords
from mingus.core.mt_exceptions import FormatError, NoteFormatError

LETTERS = "CDEFGAB"
NATURAL = {"C": 0, "D": 2, "E": 4, "F": 5, "G": 7, "A": 9, "B": 11}
# scale degree -> semitones of the major / perfect interval
MAJOR = {1: 0, 2: 2, 3: 4, 4: 5, 5: 7, 6: 9, 7: 11}


def spell(root, step):
    """step such as 'b3', '#5', 'bb7', '2': the note on the prescribed letter
    at the prescribed semitone distance above root."""
    degree = int(step[-1])
    shift = step.count("#") - step.count("b")
    letter = LETTERS[(LETTERS.index(root[0]) + degree - 1) % 7]
    root_pitch = NATURAL[root[0]] + root.count("#") - root.count("b")
    target = root_pitch + MAJOR[degree] + shift
    acc = (target - NATURAL[letter] + 6) % 12 - 6
    return letter + "#" * acc + "b" * -acc


FORMULAS = {
    "m": "1 b3 5", "M": "1 3 5", "": "1 3 5", "dim": "1 b3 b5",
    "aug": "1 3 #5", "+": "1 3 #5",
    "7#5": "1 3 #5 b7", "M7+5": "1 3 #5 b7", "m7+": "1 3 #5 b7",
    "M7+": "1 3 #5 7", "7+": "1 3 #5 7",
    "sus47": "1 4 5 b7", "7sus4": "1 4 5 b7",
    "sus4": "1 4 5", "sus": "1 4 5", "sus2": "1 2 5",
    "11": "1 5 b7 4", "add11": "1 5 b7 4",
    "sus4b9": "1 4 5 b2", "susb9": "1 4 5 b2",
    "m7": "1 b3 5 b7", "M7": "1 3 5 7", "7": "1 3 5 b7", "dom7": "1 3 5 b7",
    "m7b5": "1 b3 b5 b7", "dim7": "1 b3 b5 bb7",
    "m/M7": "1 b3 5 7", "mM7": "1 b3 5 7",
    "m6": "1 b3 5 6", "M6": "1 3 5 6", "6": "1 3 5 6",
    "6/7": "1 3 5 6 b7", "67": "1 3 5 6 b7",
    "6/9": "1 3 5 6 2", "69": "1 3 5 6 2",
    "9": "1 3 5 b7 2", "add9": "1 3 5 b7 2",
    "7b9": "1 3 5 b7 b2", "7#9": "1 3 5 b7 #2",
    "M9": "1 3 5 7 2", "m9": "1 b3 5 b7 2",
    "7#11": "1 3 5 b7 #4", "m11": "1 b3 5 b7 4", "M11": "1 3 5 7 2 4",
    "M13": "1 3 5 7 2 6", "m13": "1 b3 5 b7 2 6",
    "13": "1 3 5 b7 2 6", "add13": "1 3 5 b7 2 6",
    "7b5": "1 3 b5 b7", "hendrix": "1 3 5 b7 b3", "7b12": "1 3 5 b7 b3",
    "5": "1 5",
}

BUILDERS = {
    "major_triad": "M", "minor_triad": "m", "diminished_triad": "dim",
    "augmented_triad": "aug", "major_seventh": "M7", "minor_seventh": "m7",
    "dominant_seventh": "7", "half_diminished_seventh": "m7b5",
    "minor_seventh_flat_five": "m7b5", "diminished_seventh": "dim7",
    "minor_major_seventh": "mM7", "minor_sixth": "m6", "major_sixth": "M6",
    "dominant_sixth": "67", "sixth_ninth": "69", "minor_ninth": "m9",
    "major_ninth": "M9", "dominant_ninth": "9", "dominant_flat_ninth": "7b9",
    "dominant_sharp_ninth": "7#9", "eleventh": "11", "minor_eleventh": "m11",
    "major_eleventh": "M11", "minor_thirteenth": "m13",
    "major_thirteenth": "M13", "dominant_thirteenth": "13",
    "suspended_triad": "sus", "suspended_second_triad": "sus2",
    "suspended_fourth_triad": "sus4", "suspended_seventh": "sus47",
    "suspended_fourth_ninth": "sus4b9", "augmented_major_seventh": "M7+",
    "augmented_minor_seventh": "7#5", "dominant_flat_five": "7b5",
    "lydian_dominant_seventh": "7#11", "hendrix_chord": "hendrix",
}

ROOTS = [l + a for l in LETTERS for a in ("", "#", "b", "##", "bb")]
failures = []


def check(cond, what):
    if not cond:
        failures.append(what)


def expected(root, key):
    return [spell(root, s) for s in FORMULAS[key].split()]


def poly(upper, lower):
    res = list(lower)
    for n in upper:
        if not res or n != res[-1]:
            res.append(n)
    return res


def raises(exc, f, *args):
    try:
        f(*args)
    except exc:
        return True
    except Exception:
        return False
    return False


def check_property():
    # a few hand-written anchors for the speller itself (music theory)
    check(expected("C", "m7") == ["C", "Eb", "G", "Bb"], "anchor Cm7")
    check(expected("C", "dim7") == ["C", "Eb", "Gb", "Bbb"], "anchor Cdim7")
    check(expected("F#", "7#11") == ["F#", "A#", "C#", "E", "B#"], "anchor F#7#11")
    check(expected("Cb", "dim7") == ["Cb", "Ebb", "Gbb", "Bbbb"], "anchor Cbdim7")

    # the library knows exactly the shorthands of the formula table
    check(set(chords.chord_shorthand) == set(FORMULAS), "known shorthands")
    # constructible == has a textual meaning
    check(
        set(chords.chord_shorthand) == set(chords.chord_shorthand_meaning),
        "constructible set equals meaning set",
    )

    for key in FORMULAS:
        for root in ROOTS:
            exp = expected(root, key)
            got = chords.from_shorthand(root + key)
            check(got == exp, "from_shorthand(%r) = %r, expected %r" % (root + key, got, exp))
            check(got[0] == root, "chord %r starts on root" % (root + key))
            # alias spellings
            for a, b in (("m", "min"), ("m", "mi"), ("m", "-"), ("M", "maj"), ("M", "ma")):
                if a in key:
                    alias = root + key.replace(a, b)
                    check(chords.from_shorthand(alias) == exp, "alias %r" % alias)
        # slash basses and polychord partners on a smaller sample
        for root in ("C", "F#", "Bb", "E##", "Abb"):
            exp = expected(root, key)
            for bass in ("C", "G#", "Eb", "F##", "Dbb", root):
                got = chords.from_shorthand(root + key + "/" + bass)
                check(got == [bass] + exp, "slash %r" % (root + key + "/" + bass))
            for r2, k2 in (("G", "7"), ("Db", "m"), ("C", ""), ("A#", "dim7"), ("E", "6/9")):
                low = expected(r2, k2)
                got = chords.from_shorthand(root + key + "|" + r2 + k2)
                check(got == poly(exp, low), "polychord %r" % (root + key + "|" + r2 + k2))
                got = chords.from_shorthand(r2 + k2 + "|" + root + key)
                check(got == poly(low, exp), "polychord %r" % (r2 + k2 + "|" + root + key))

    # the named builders give the same chords
    for name, key in BUILDERS.items():
        for root in ROOTS:
            got = getattr(chords, name)(root)
            check(got == expected(root, key), "builder %s(%r) = %r" % (name, root, got))

    # documented examples
    check(chords.from_shorthand("Dm|G") == ["G", "B", "D", "F", "A"], "Dm|G")
    check(chords.from_shorthand("A/G") == ["G", "A", "C#", "E"], "A/G")
    check(chords.from_shorthand("Am/M7/G") == ["G", "A", "C", "E", "G#"], "Am/M7/G")
    check(chords.from_shorthand("NC") == [], "NC")
    check(
        chords.from_shorthand(["Am7", "NC", "Gb7#11", "C/E"])
        == [expected("A", "m7"), [], expected("Gb", "7#11"), ["E"] + expected("C", "M")],
        "list maps element-wise",
    )

    # malformed input
    for bad in ("Cfoo", "Cm8", "Bollocks", "C7b", "F#min77", "Gsus5", "Cm7 ", "CNC"):
        check(raises(FormatError, chords.from_shorthand, bad), "unknown shorthand %r rejected" % bad)
    for bad in ("Hm7", "ollocks", "c", "m7", "#C", "7", " C", "X|C", "C|X", "C/H", "Cm7/g"):
        check(raises(NoteFormatError, chords.from_shorthand, bad), "bad root %r rejected" % bad)

    # shorthands with the same meaning build the same chord
    by_meaning = {}
    for key, meaning in chords.chord_shorthand_meaning.items():
        by_meaning.setdefault(meaning, []).append(key)
    for meaning, keys_ in by_meaning.items():
        for root in ROOTS:
            built = [chords.from_shorthand(root + k) for k in keys_]
            check(all(b == built[0] for b in built), "same meaning %r on %s" % (meaning, root))


def main(observe):
    check_property()
    observe()
    if failures:
        for f in failures[:20]:
            print("FAIL:", f)
        print("FAIL (%d failures)" % len(failures))
        sys.exit(1)
    print("PASS")
    sys.exit(0)


def observe():
    print("OBSERVED: chord_shorthand_meaning['sus4b9'] = %r" % chords.chord_shorthand_meaning["sus4b9"])
    print("OBSERVED: chord_shorthand_meaning['susb9'] = %r" % chords.chord_shorthand_meaning["susb9"])
    print("OBSERVED: determine(['C', 'F', 'G', 'Db']) =", chords.determine(["C", "F", "G", "Db"]))


main(observe)
