#!/usr/bin/env python
# -*- coding: utf-8 -*-
"""Demo for property C04 (keys: signatures, notes, relatives, diatonic steps).

(i) checks the clauses of the property from first principles (music theory
    and arithmetic only, no mingus call is used to produce an expected value);
(ii) prints OBSERVED: lines showing the behaviour the change alters.
The tree that is exercised is chosen by the caller through PYTHONPATH.
"""
from __future__ import print_function

import sys

from mingus.core import intervals, keys
from mingus.core.mt_exceptions import NoteFormatError, RangeError

failures = []


def check(cond, what):
    if not cond:
        failures.append(what)


# ---- first principles -------------------------------------------------------
LETTERS = "CDEFGAB"
NATURAL = {"C": 0, "D": 2, "E": 4, "F": 5, "G": 7, "A": 9, "B": 11}
MAJOR_STEPS = [2, 2, 1, 2, 2, 2, 1]
MINOR_STEPS = [2, 1, 2, 2, 1, 2, 2]
SHARP_ORDER = "FCGDAEB"  # circle of fifths, ascending
FLAT_ORDER = "BEADGCF"  # circle of fifths, descending
# signature number -> (major key, relative minor); written out by hand
KEY_TABLE = {
    -7: ("Cb", "ab"), -6: ("Gb", "eb"), -5: ("Db", "bb"), -4: ("Ab", "f"),
    -3: ("Eb", "c"), -2: ("Bb", "g"), -1: ("F", "d"), 0: ("C", "a"),
    1: ("G", "e"), 2: ("D", "b"), 3: ("A", "f#"), 4: ("E", "c#"),
    5: ("B", "g#"), 6: ("F#", "d#"), 7: ("C#", "a#"),
}


def pitch(note):
    return (NATURAL[note[0]] + note.count("#") - note[1:].count("b")) % 12


def expected_signature(n):
    if n < 0:
        return [l + "b" for l in FLAT_ORDER[:-n]]
    return [l + "#" for l in SHARP_ORDER[:n]]


def expected_notes(key, n):
    altered = dict((acc[0], acc) for acc in expected_signature(n))
    start = LETTERS.index(key[0].upper())
    return [altered.get(l, l) for l in LETTERS[start:] + LETTERS[:start]]


def raises(exc, func, *args):
    try:
        func(*args)
    except exc:
        return True
    except Exception:
        return False
    return False


# ---- clause: the 30 keys, their notes and signatures ------------------------
for n, couple in sorted(KEY_TABLE.items()):
    got = keys.get_key(n)
    check(len(got) == 2 and got[0] == couple[0] and got[1] == couple[1], "get_key(%d)" % n)
    for key, mode, steps in ((couple[0], "major", MAJOR_STEPS), (couple[1], "minor", MINOR_STEPS)):
        check(keys.is_valid_key(key) is True, "is_valid_key(%r)" % key)
        check(keys.get_key_signature(key) == n, "signature number of %r" % key)
        sig = keys.get_key_signature_accidentals(key)
        check(list(sig) == expected_signature(n), "signature accidentals of %r" % key)
        check(len(sig) == abs(n), "accidental count of %r" % key)
        ns = list(keys.get_notes(key))
        tonic = key[0].upper() + key[1:]
        check(len(ns) == 7 and ns[0] == tonic, "%r starts on tonic" % key)
        start = LETTERS.index(tonic[0])
        check("".join(x[0] for x in ns) == (LETTERS * 2)[start:start + 7], "letters of %r" % key)
        got_steps = [(pitch(ns[(i + 1) % 7]) - pitch(ns[i])) % 12 for i in range(7)]
        check(got_steps == steps, "step pattern of %r" % key)
        check(sorted(x for x in ns if len(x) > 1) == sorted(expected_signature(n)), "accidentals of %r" % key)
        check(ns == expected_notes(key, n), "notes of %r" % key)
        # fresh, independent results
        ns.append("junk")
        check(list(keys.get_notes(key)) == expected_notes(key, n), "get_notes(%r) second call" % key)
        # key object
        k = keys.Key(key)
        acc_word = {"": "", "#": "sharp ", "b": "flat "}[key[1:]]
        check(k.key == key, "Key(%r).key" % key)
        check(k.mode == mode, "Key(%r).mode" % key)
        check(k.signature == n, "Key(%r).signature" % key)
        check(k.name == "%s %s%s" % (key[0].upper(), acc_word, mode), "Key(%r).name" % key)
        check(k == keys.Key(key) and not (k != keys.Key(key)), "Key(%r) equality" % key)
    # relatives
    major, minor = couple
    check(keys.relative_minor(major) == minor, "relative_minor(%r)" % major)
    check(keys.relative_major(minor) == major, "relative_major(%r)" % minor)
    check(keys.relative_major(keys.relative_minor(major)) == major, "relatives inverse %r" % major)
    check(set(keys.get_notes(major)) == set(keys.get_notes(minor)), "shared note set %r" % major)
    check((pitch(keys.get_notes(minor)[0]) - pitch(keys.get_notes(major)[0])) % 12 == 9, "9 semitones %r" % major)
    check(raises(NoteFormatError, keys.relative_major, major), "relative_major(%r) rejected" % major)
    check(raises(NoteFormatError, keys.relative_minor, minor), "relative_minor(%r) rejected" % minor)

# ---- clause: rejections -----------------------------------------------------
for n in (-100, -9, -8, 8, 9, 15, 1000):
    check(raises(RangeError, keys.get_key, n), "get_key(%d) rejected" % n)
UNKNOWN = ["", "H", "h", "Fb", "cb", "G#", "db", "C ", " C", "c##", "CB", "A#", "e#",
           "Cbb", "C#m", "C major", "Am", "0", "c b", "♭"]
for bad in UNKNOWN:
    check(keys.is_valid_key(bad) is False, "is_valid_key(%r)" % bad)
    for f in (keys.get_key_signature, keys.get_key_signature_accidentals, keys.get_notes,
              keys.relative_major, keys.relative_minor):
        check(raises(NoteFormatError, f, bad), "%s(%r) rejected" % (f.__name__, bad))
    if bad:  # Key('') is not covered here: see the OBSERVED lines of change b
        check(raises(NoteFormatError, keys.Key, bad), "Key(%r) rejected" % bad)

# ---- clause: diatonic second ... seventh ------------------------------------
STEP_FUNCS = [None, intervals.second, intervals.third, intervals.fourth,
              intervals.fifth, intervals.sixth, intervals.seventh]
for n, couple in KEY_TABLE.items():
    for key in couple:
        by_letter = dict((x[0], x) for x in expected_notes(key, n))
        for letter in LETTERS:
            for acc in ("", "#", "b", "##", "bb"):
                note = letter + acc
                for step in range(1, 7):
                    want = by_letter[LETTERS[(LETTERS.index(letter) + step) % 7]]
                    check(STEP_FUNCS[step](note, key) == want, "%s(%r, %r)" % (STEP_FUNCS[step].__name__, note, key))
                    check(intervals.interval(key, note, step) == want, "interval(%r, %r, %d)" % (key, note, step))


def finish():
    if failures:
        print("FAIL: %d check(s) failed, e.g. %s" % (len(failures), failures[:5]))
        sys.exit(1)
    print("PASS")
    sys.exit(0)

# ---- OBSERVED: what change a alters -----------------------------------------
def private_state():
    return sorted(name for name in vars(keys)
                  if name.startswith("_") and not name.startswith("__"))

print("OBSERVED: private module-level names of mingus.core.keys: %s" % private_state())
keys.get_notes("F#")
cache = getattr(keys, "_key_cache", None)
print("OBSERVED: keys._key_cache after get_notes('F#'): %s"
      % ("absent" if cache is None else "dict holding %r" % cache.get("F#")))
print("OBSERVED: mingus.core.keys still imports the notes module: %r" % hasattr(keys, "notes"))
finish()
