# -*- coding: utf-8 -*-
"""Demo for change C14/a: a refused Track.add_notes no longer leaves an empty bar behind.

(i)  checks the clauses of property C14 against a small model written with
     exact fractions (nothing is compared with another mingus call);
(ii) prints OBSERVED lines showing the behaviour the change alters.
"""
from __future__ import print_function

import random
import sys
from fractions import Fraction

from mingus.containers import Bar, Composition, Note, NoteContainer, Track
from mingus.containers.instrument import Guitar, Instrument, MidiInstrument, Piano
from mingus.containers.mt_exceptions import InstrumentRangeError

FAILURES = []


def check(cond, msg):
    if not cond:
        FAILURES.append(msg)


def frac_len(v):
    """Length (in whole notes) of a note value as an exact fraction."""
    return 1 / Fraction(v).limit_denominator(1000)


def names_of(entry_notes):
    if entry_notes is None:
        return None
    return [n.name + "-" + str(n.octave) for n in entry_notes]


def flat(track):
    """The entries of a track in order: (value, note names or None)."""
    out = []
    for bar in track:
        for beat, dur, notes in bar:
            out.append((dur, names_of(notes)))
    return out


def bar_used(bar):
    return sum([frac_len(e[1]) for e in bar], Fraction(0))


def bar_length(bar):
    return Fraction(bar.meter[0], bar.meter[1])


def check_structure(track, tag):
    # every bar except the last is full
    for b in list(track)[:-1]:
        check(bar_used(b) == bar_length(b), "%s: a bar before the last is not full" % tag)
    for b in track:
        check(bar_used(b) <= bar_length(b), "%s: over-full bar" % tag)


VALUES = [1, 2, 4, 8, 16, 32, 8 / 3.0, 16 / 3.0, 6, 12, 4.0, 8.0]
METERS = [(4, 4), (3, 4), (2, 4), (6, 8), (5, 4), (2, 2), (7, 8), (3, 8)]
KEYS = ["C", "G", "F", "Bb", "D", "a", "e"]
NOTES = ["C-4", "E-4", "G-5", "A-3", "F#-4", "Bb-4"]


def random_sequence(rng, instrument):
    t = Track(instrument)
    accepted = []  # (value, names or None)
    total = Fraction(0)
    if rng.random() < 0.7:
        m = rng.choice(METERS)
        k = rng.choice(KEYS)
        t.add_bar(Bar(k, m))
    for step in range(rng.randint(1, 40)):
        before = flat(t)
        nbars = len(t)
        last_full = nbars > 0 and bar_used(t[-1]) == bar_length(t[-1])
        last_key = t[-1].key.key if nbars else None
        last_meter = t[-1].meter if nbars else None
        kind = rng.random()
        if kind < 0.08 and (nbars == 0 or last_full):
            t.add_bar(Bar(rng.choice(KEYS), rng.choice(METERS)))
            check(flat(t) == before, "add_bar of an empty bar changed the entries")
            continue
        v = rng.choice(VALUES)
        if kind < 0.3:
            what, exp = None, None
            res = t.add_notes(None, v)
        elif kind < 0.45:
            n = rng.choice(NOTES)
            what, exp, v = n, [n], 4
            res = t + n
        elif kind < 0.6:
            ns = rng.sample(NOTES, 3)
            nc = NoteContainer(ns)
            exp = names_of(nc)
            res = t.add_notes(nc, v)
        elif kind < 0.7:
            n = rng.choice(NOTES)
            exp = [n]
            res = t.add_notes(Note(n), v)
        else:
            n = rng.choice(NOTES)
            exp = [n]
            res = t.add_notes(n, v)
        after = flat(t)
        check(res is True or res is False, "add_notes answered %r" % (res,))
        if res:
            accepted.append((v, exp))
            total += frac_len(v)
            check(after == before + [(v, exp)], "accepted item not appended as given")
        else:
            check(after == before, "a rejected item changed the entries")
        # a new bar only when the last one was full (or there was none), inheriting
        if len(t) > nbars:
            check(len(t) == nbars + 1, "more than one bar opened")
            check(nbars == 0 or last_full, "bar opened although the last one was not full")
            if nbars:
                check(t[-1].key.key == last_key, "new bar did not inherit the key")
                check(t[-1].meter == last_meter, "new bar did not inherit the meter")
        check_structure(t, "random")
    got = flat(t)
    check(len(got) == len(accepted), "number of entries differs from number accepted")
    for g, a in zip(got, accepted):
        check(g[0] == a[0] and g[1] == a[1], "entry %r differs from accepted %r" % (g, a))
    check(sum([frac_len(g[0]) for g in got], Fraction(0)) == total, "sum of lengths differs")
    check(list(t.get_notes()) is not None, "get_notes")
    return t


def check_sequences():
    rng = random.Random(1414)
    for i in range(300):
        instrument = rng.choice([None, Instrument(), Piano(), Guitar(), MidiInstrument()])
        random_sequence(rng, instrument)
    # bounded-exhaustive: all sequences of length 3 over a few values in three meters
    vals = [1, 2, 4, 8 / 3.0]
    for meter in [(4, 4), (3, 4), (6, 8)]:
        for a in vals:
            for b in vals:
                for c in vals:
                    t = Track()
                    t.add_bar(Bar("G", meter))
                    acc = []
                    for v in (a, b, c):
                        before = flat(t)
                        r = t.add_notes("D-4", v)
                        if r:
                            acc.append(v)
                        else:
                            check(flat(t) == before, "exhaustive: rejected item changed entries")
                    check([e[0] for e in flat(t)] == acc, "exhaustive: values differ")
                    check_structure(t, "exhaustive")
                    for bar in t:
                        check(bar.meter == meter and bar.key.key == "G", "exhaustive: inherit")


def check_instruments():
    # ranges: Instrument C-0..C-8, Piano F-0..B-8, Guitar E-3..E-7, MIDI C-0..B-8
    cases = [
        (Instrument, ["C-0", "C-8", "A-4"], ["C#-8", "D-9"]),
        (Piano, ["F-0", "B-8", "C-4"], ["E-0", "C-9"]),
        (Guitar, ["E-3", "E-7", "A-4"], ["D#-3", "F-7", "C-2"]),
        (MidiInstrument, ["C-0", "B-8", "G-4"], ["C-9", "C#-9"]),
    ]
    for cls, inside, outside in cases:
        for n in inside:
            t = Track(cls())
            check(t.add_notes(n, 4) is True, "%s refused %s" % (cls.__name__, n))
            check(flat(t) == [(4, [n])], "%s: %s not stored" % (cls.__name__, n))
        for n in outside:
            t = Track(cls())
            t.add_notes(None, 2)
            before = flat(t)
            try:
                t.add_notes(n, 4)
                check(False, "%s accepted %s" % (cls.__name__, n))
            except InstrumentRangeError:
                pass
            check(flat(t) == before, "refused note changed the track")
            check(len(t) == 1, "refused note changed the number of bars")
        t = Track(cls())
        check(t.add_notes(None, 4) is True, "rest refused with %s" % cls.__name__)
        check(flat(t) == [(4, None)], "rest not stored with %s" % cls.__name__)
    t = Track()
    check(t.add_notes(None, 8) is True and flat(t) == [(8, None)], "rest without instrument")


CHORDS = {
    "C": ["C", "E", "G"],
    "Am": ["A", "C", "E"],
    "Dm": ["D", "F", "A"],
    "G7": ["G", "B", "D", "F"],
    "F": ["F", "A", "C"],
    None: None,
}


def expected_items(chords, length, out):
    for c in chords:
        if isinstance(c, list):
            expected_items(c, length / 2, out)
        else:
            out.append((CHORDS[c], length))
    return out


def check_from_chords():
    samples = [
        (["C", ["Am", "Dm"], "G7", "C"], 1, None),
        (["C", None, ["Am", None], ["F", ["G7", None]]], 1, None),
        ([["C", "Am"], ["Dm", ["G7", "C"]], None], 2, None),
        (["C", "F", None, "G7"], 2, (3, 4)),
        (["C", "Am", None], 1, (3, 4)),
        (["C", ["Dm", None], "F"], 1, (2, 4)),
        (["C", "Am", "F", "G7", None], 4, (3, 8)),
        (["C", ["Am", None, "F"]], 2, (5, 4)),
        ([None, "C"], 1, (6, 8)),
    ]
    for chords, dur, meter in samples:
        t = Track()
        if meter:
            t.add_bar(Bar("F", meter))
        t.from_chords(chords, dur)
        exp = expected_items(chords, Fraction(1, dur), [])
        entries = []
        for bi, bar in enumerate(t):
            for e in bar:
                nm = None if e[2] is None else [n.name for n in e[2]]
                entries.append((bi, frac_len(e[1]), nm))
        i = 0
        for nm, length in exp:
            got = Fraction(0)
            pieces = 0
            while got < length and i < len(entries):
                check(entries[i][2] == nm, "from_chords %r: wrong contents %r, expected %r" % (chords, entries[i][2], nm))
                got += entries[i][1]
                pieces += 1
                if got < length:
                    # a split happens at a bar line only
                    check(i + 1 < len(entries) and entries[i + 1][0] == entries[i][0] + 1, "split not at a bar line")
                i += 1
            check(got == length, "from_chords %r: item has length %s, expected %s" % (chords, got, length))
        check(i == len(entries), "from_chords %r: extra entries" % (chords,))
        total = sum([e[1] for e in entries], Fraction(0))
        check(total == sum([l for _, l in exp], Fraction(0)), "from_chords %r: total length" % (chords,))
        check_structure(t, "from_chords")
        if meter:
            for bar in t:
                check(bar.meter == meter and bar.key.key == "F", "from_chords: bars inherit key and meter")


def check_compositions():
    c = Composition()
    t1, t2, t3 = Track(), Track(Piano()), Track()
    c.add_track(t1)
    c + t2
    c.add_track(t3)
    check(len(c) == 3 and c[0] is t1 and c[1] is t2 and c[2] is t3, "composition indexing/length")
    c.add_note("C-4")  # last added track is selected
    check(flat(t1) == [] and flat(t2) == [] and flat(t3) == [(4, ["C-4"])], "note went to the wrong track")
    c.selected_tracks = [0, 1]
    c + "E-4"
    c.add_note(NoteContainer(["C-4", "G-4"]))
    check(flat(t1) == [(4, ["E-4"]), (4, ["C-4", "G-4"])], "selected track 0")
    check(flat(t2) == [(4, ["E-4"]), (4, ["C-4", "G-4"])], "selected track 1")
    check(flat(t3) == [(4, ["C-4"])], "unselected track was reached")
    check(t1 == t2 and not (t1 == t3), "track equality follows contents")
    check(len(t1) == 1 and t1[0] is t1.bars[0] and len(t1[0]) == 2, "track indexing/length")
    d = Composition()
    u1, u2, u3 = Track(), Track(), Track()
    for u in (u1, u2):
        u + "E-4"
        u.add_notes(["C-4", "G-4"], 4)
    u3 + "C-4"
    for u in (u1, u2, u3):
        d.add_track(u)
    check(c == d and not (c != d), "equal compositions")
    u3 + "D-4"
    check(c != d, "different compositions compare equal")
    e = Composition()
    e.add_track(t1)
    check(e != c, "compositions of different length compare equal")


def observed():
    # a whole note does not fit in a 3/4 bar; the last bar of the track is full
    t = Track()
    t.add_bar(Bar("C", (3, 4)))
    for n in ("C-4", "D-4", "E-4"):
        t.add_notes(n, 4)
    r = t.add_notes("F-4", 1)
    print("OBSERVED: 3/4 track with one full bar, refused whole note -> answer %r, len(track) = %d, "
          "bars holding entries = %d" % (r, len(t), len([b for b in t if len(b)])))
    t2 = Track()
    r2 = t2.add_notes("C-4", 0.5)
    print("OBSERVED: empty track, refused breve -> answer %r, len(track) = %d" % (r2, len(t2)))
    t.add_notes("G-4", 2)
    print("OBSERVED: after then adding a half note: len(track) = %d, entries = %r" % (len(t), flat(t)))


def main():
    check_sequences()
    check_instruments()
    check_from_chords()
    check_compositions()
    observed()
    if FAILURES:
        for f in FAILURES[:20]:
            print("FAIL:", f)
        print("FAIL (%d)" % len(FAILURES))
        return 1
    print("PASS")
    return 0


if __name__ == "__main__":
    sys.exit(main())
