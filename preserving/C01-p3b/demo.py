"""Demo for change b (C01): the published table notes.fifths becomes a tuple.

(i) checks every clause of property C01 from first principles, prints PASS / FAIL;
(ii) prints OBSERVED: lines for the behaviour the change alters (the type and
    mutability of the module constant `fifths`, which the statement never mentions).
"""
from __future__ import print_function

import itertools
import sys

from mingus.core import notes
from mingus.core.mt_exceptions import NoteFormatError, RangeError, FormatError

NATURAL = {"C": 0, "D": 2, "E": 4, "F": 5, "G": 7, "A": 9, "B": 11}
SHARP_STYLE = ["C", "C#", "D", "D#", "E", "F", "F#", "G", "G#", "A", "A#", "B"]
FLAT_STYLE = ["C", "Db", "D", "Eb", "E", "F", "Gb", "G", "Ab", "A", "Bb", "B"]
MAXLEN = 6

failures = []


def check(cond, what):
    if not cond:
        failures.append(what)


def pc(name):
    """Pitch class from first principles."""
    return (NATURAL[name[0]] + name.count("#") - name.count("b")) % 12


def wellformed(s):
    return len(s) >= 1 and s[0] in NATURAL and all(c in "#b" for c in s[1:])


def raises(exc_types, f, *args):
    """True when f(*args) raises exactly one of the named error classes
    (or a subclass of it)."""
    try:
        f(*args)
    except exc_types:
        return True
    except Exception:
        return False
    return False


names = []
for letter in "CDEFGAB":
    for k in range(MAXLEN + 1):
        for acc in itertools.product("#b", repeat=k):
            names.append(letter + "".join(acc))
names.append("C" + "#" * 25)
names.append("F" + "b" * 30)
names.append("B" + "#b" * 20 + "#")

# --- name -> pitch class, validity, augment / diminish, simplification ---
for n in names:
    p = pc(n)
    check(notes.is_valid_note(n) is True, "is_valid_note(%r)" % n)
    check(notes.note_to_int(n) == p, "note_to_int(%r)" % n)

    a = notes.augment(n)
    check(wellformed(a) and a[0] == n[0] and pc(a) == (p + 1) % 12, "augment(%r) -> %r" % (n, a))
    check(notes.note_to_int(a) == (p + 1) % 12, "note_to_int(augment(%r))" % n)
    d = notes.diminish(n)
    check(wellformed(d) and d[0] == n[0] and pc(d) == (p - 1) % 12, "diminish(%r) -> %r" % (n, d))
    check(notes.note_to_int(d) == (p - 1) % 12, "note_to_int(diminish(%r))" % n)

    net = n.count("#") - n.count("b")
    r = notes.remove_redundant_accidentals(n)
    expected = n[0] + ("#" * net if net >= 0 else "b" * (-net))
    check(r == expected, "remove_redundant_accidentals(%r) -> %r" % (n, r))

    q = notes.reduce_accidentals(n)
    ok = wellformed(q) and len(q) <= 2 and pc(q) == p
    if ok and len(q) == 2:
        # an accidental that is left must point in the direction of the net change
        ok = (q[1] == "#" and net > 0) or (q[1] == "b" and net < 0)
    check(ok, "reduce_accidentals(%r) -> %r" % (n, q))

# --- enharmonic exactly when the pitch classes are equal ---
sample = [n for n in names if len(n) <= 4] + names[-3:]
for n1 in sample:
    for n2 in sample:
        check(notes.is_enharmonic(n1, n2) == (pc(n1) == pc(n2)), "is_enharmonic(%r, %r)" % (n1, n2))

# --- pitch class -> name -> pitch class, and the two styles ---
for i in range(12):
    s = notes.int_to_note(i, "#")
    f = notes.int_to_note(i, "b")
    check(wellformed(s) and len(s) <= 2 and "b" not in s[1:] and pc(s) == i, "int_to_note(%d,'#') -> %r" % (i, s))
    check(wellformed(f) and len(f) <= 2 and "#" not in f and pc(f) == i, "int_to_note(%d,'b') -> %r" % (i, f))
    check(notes.note_to_int(s) == i and notes.note_to_int(f) == i, "round trip %d" % i)
    check(notes.note_to_int(notes.int_to_note(i)) == i, "round trip default style %d" % i)

# --- malformed input ---
malformed = ["H", "c", "c#", "C#x", "Cx", "C 4", "C-4", "C4", " C", "C ", "#", "b", "#C", "bb",
             "Do", "C\n", "Cis", "C#B", "CC", "AB", "1", "C##-", "♯", "C♯", "C♭",
             "Eb3", "H#", "Hb", "?", "C#b#B"]
for m in malformed:
    check(notes.is_valid_note(m) is False, "is_valid_note(%r) should be False" % m)
    check(raises(NoteFormatError, notes.note_to_int, m), "note_to_int(%r) should raise NoteFormatError" % m)
    check(raises(NoteFormatError, notes.reduce_accidentals, m), "reduce_accidentals(%r) should raise NoteFormatError" % m)

for i in [-1, 12, 13, -12, 24, 100, -100, 10 ** 20, -(10 ** 20)]:
    for style in ("#", "b"):
        check(raises(RangeError, notes.int_to_note, i, style), "int_to_note(%r, %r) should raise RangeError" % (i, style))
    check(raises(RangeError, notes.int_to_note, i), "int_to_note(%r) should raise RangeError" % i)
for style in ["x", "", "##", "bb", "sharp", "flat", "B", "#b", " #", None, 1]:
    for i in (0, 5, 11):
        check(raises((FormatError, RangeError), notes.int_to_note, i, style),
              "int_to_note(%d, %r) should raise FormatError/RangeError" % (i, style))

# --- OBSERVED: the module-level table `fifths` (not mentioned by the statement) ---
from mingus.core import keys

print("OBSERVED: type(notes.fifths) = %s" % type(notes.fifths).__name__)
print("OBSERVED: notes.fifths == ['F','C','G','D','A','E','B'] -> %r"
      % (notes.fifths == ["F", "C", "G", "D", "A", "E", "B"]))
print("OBSERVED: list(notes.fifths) = %r" % (list(notes.fifths),))
print("OBSERVED: hasattr(notes.fifths, 'append') -> %r, hashable -> %r"
      % (hasattr(notes.fifths, "append"), getattr(notes.fifths, "__hash__", None) is not None))
before = keys.get_key_signature_accidentals("G")
try:
    notes.fifths.reverse()  # a careless caller
    outcome = "accepted"
except AttributeError as e:
    outcome = "AttributeError: %s" % e
after = keys.get_key_signature_accidentals("G")
if outcome == "accepted":
    notes.fifths.reverse()  # put the library back in order
print("OBSERVED: notes.fifths.reverse() -> %s; accidentals of G major before %r, after %r"
      % (outcome, before, after))
# the content and order are the same in both trees: the circle of fifths
check(list(notes.fifths) == ["F", "C", "G", "D", "A", "E", "B"], "content of fifths")
check(keys.get_key_signature_accidentals("G") == ["F#"], "G major has one sharp, F#")

if failures:
    print("FAIL (%d)" % len(failures))
    for f in failures[:25]:
        print("  ", f)
    sys.exit(1)
print("PASS")
sys.exit(0)
