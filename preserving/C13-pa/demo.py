#!/usr/bin/env python
"""Demo for property C13 (bar time accounting) - see notes.md next to it.

(i) checks the clauses of the property against an exact rational model that
    is written down here from first principles (fractions.Fraction);
(ii) prints OBSERVED: lines for behaviour the property does not pin down.
The tree under test is chosen by the caller through PYTHONPATH.
"""
from __future__ import print_function

import itertools
import random
import sys
from fractions import Fraction as F

from mingus.containers import Bar, Note, NoteContainer
from mingus.core import value as mvalue

TOL = 1e-9
failures = []


def check(cond, msg):
    if not cond:
        if len(failures) < 20:
            failures.append(msg)
        else:
            failures.append(None)
    return cond


# ---------------------------------------------------------------- vocabulary
# (value handed to the library, exact value as a ratio).  The floats come from
# the documented helpers of mingus.core.value (they are inputs, not expected
# results); the ratios are plain arithmetic: a note with n dots lasts
# (2 - 1/2**n) times as long, an n:m tuplet note lasts m/n times as long.
BASES = [1, 2, 4, 8, 16, 32, 64, 128]
VOCAB = []
for b in BASES:
    VOCAB.append((b, F(b)))
    for n in (1, 2, 3):
        VOCAB.append((mvalue.dots(b, n), F(b) / (2 - F(1, 2 ** n))))
    VOCAB.append((mvalue.triplet(b), F(b) * 3 / 2))
    VOCAB.append((mvalue.quintuplet(b), F(b) * 5 / 4))
    VOCAB.append((mvalue.septuplet(b), F(b) * 7 / 4))
    VOCAB.append((mvalue.septuplet(b, False), F(b) * 7 / 8))
for given, exact in VOCAB:
    check(abs(given - float(exact)) <= 1e-12 * float(exact), "vocabulary %r vs %s" % (given, exact))

METERS = [(4, 4), (3, 4), (2, 2), (6, 8), (5, 4), (7, 8), (2, 4), (1, 1), (12, 8), (5, 16), (3, 2), (0, 0)]

CONTENTS = ["C", "A-3", ["C", "E", "G"], Note("D", 5), NoteContainer(["F", "A"]), [Note("B", 2), "C#-6"]]


def expected_names(content):
    """The note names (with octave) a content argument stands for."""
    if content is None:
        return None
    if isinstance(content, NoteContainer):
        items = list(content.notes)
    elif isinstance(content, list):
        items = content
    else:
        items = [content]
    res = []
    for it in items:
        if isinstance(it, str):
            it = it if "-" in it else it + "-4"  # default octave is 4
            name, octave = it.split("-")
            res.append((name, int(octave)))
        else:
            res.append((it.name, it.octave))
    return sorted(set(res), key=lambda t: t)


def names_of(nc):
    return sorted(set((n.name, n.octave) for n in nc.notes), key=lambda t: t)


class Model(object):
    """The exact model: a list of (exact value, given value, content names)."""

    def __init__(self, meter):
        self.meter = meter
        self.length = F(meter[0], meter[1]) if meter != (0, 0) else F(0)
        self.entries = []
        self._total = F(0)  # always the exact sum of 1/value over self.entries

    def total(self):
        return self._total

    def push(self, exact, given, names):
        self.entries.append((exact, given, names))
        self._total += 1 / exact

    def pop(self):
        self._total -= 1 / self.entries.pop()[0]

    def fits(self, exact):
        return self.meter == (0, 0) or self.total() + 1 / exact <= self.length


def snapshot(bar):
    """A by-value copy of everything the property talks about."""
    return (
        [(e[0], e[1], None if e[2] is None else names_of(e[2])) for e in bar.bar],
        bar.current_beat,
        bar.length,
        bar.meter,
    )


def compare(bar, model, where):
    ok = check(len(bar) == len(model.entries) == len(bar.bar), "%s: number of entries" % where)
    if not ok:
        return
    start = F(0)
    for entry, (exact, given, names) in zip(bar.bar, model.entries):
        check(len(entry) == 3, "%s: entry shape" % where)
        check(abs(entry[0] - float(start)) <= TOL, "%s: start beat %r, expected %s" % (where, entry[0], start))
        check(entry[1] == given, "%s: value %r, expected %r" % (where, entry[1], given))
        if names is None:
            check(entry[2] is None, "%s: a rest must stay None" % where)
        else:
            check(isinstance(entry[2], NoteContainer), "%s: content must be a NoteContainer" % where)
            check(names_of(entry[2]) == names, "%s: content %r, expected %r" % (where, entry[2], names))
        start += 1 / exact
    check(abs(bar.current_beat - float(start)) <= TOL, "%s: current_beat %r, expected %s" % (where, bar.current_beat, start))
    check(
        abs(bar.current_beat + bar.space_left() - float(model.length)) <= TOL,
        "%s: current_beat + space_left != length" % where,
    )
    check(abs(bar.length - float(model.length)) <= TOL, "%s: length" % where)
    remaining = model.length - start
    if abs(abs(remaining) - F(1, 1000)) > F(1, 100000):  # keep clear of the edge of the tolerance
        full = len(model.entries) > 0 and abs(remaining) <= F(1, 1000)
        check(bar.is_full() == full, "%s: is_full() %r, expected %r" % (where, bar.is_full(), full))


def apply_op(bar, model, op, where, thorough=True):
    """op is ('place', (given, exact), content) / ('rest', (given, exact)) / ('+', content) / ('remove',)."""
    kind = op[0]
    if kind == "remove":
        if not model.entries:
            return  # removing from an empty bar is not covered by the statement
        bar.remove_last_entry()
        model.pop()
        compare(bar, model, where)
        return
    if kind == "+":
        unit = model.meter[1] if model.meter[1] != 0 else 4
        given, exact, content = unit, F(unit), op[1]
    elif kind == "rest":
        (given, exact), content = op[1], None
    else:
        (given, exact), content = op[1], op[2]
    before = snapshot(bar)
    expect = model.fits(exact)
    if kind == "+":
        got = bar + content
    elif kind == "rest":
        got = bar.place_rest(given)
    else:
        got = bar.place_notes(content, given)
    check(bool(got) == expect, "%s: %r accepted=%r, expected %r (total %s + 1/%s, length %s)"
          % (where, op[:2], got, expect, model.total(), exact, model.length))
    if expect:
        model.push(exact, given, expected_names(content))
    elif not got:
        check(snapshot(bar) == before, "%s: a refused placement changed the bar" % where)
    if thorough or not expect:
        compare(bar, model, where)


def run_sequence(meter, ops, where, thorough=True):
    bar = Bar("C", meter)
    model = Model(meter)
    check(bar.current_beat == 0 and len(bar) == 0 and not bar.is_full(), "%s: fresh bar" % where)
    for i, op in enumerate(ops):
        apply_op(bar, model, op, "%s op#%d" % (where, i), thorough or i % 16 == 0)
    compare(bar, model, where + " (end)")
    return bar, model


def small_ops(vocab):
    ops = [("+", "E"), ("remove",)]
    for i, v in enumerate(vocab):
        ops.append(("place", v, CONTENTS[i % len(CONTENTS)]))
        ops.append(("rest", v))
    return ops


def check_sequences():
    # depth 2 over the whole vocabulary, depth 3 and 4 over small but awkward ones
    pick = dict((float(e), (g, e)) for g, e in VOCAB)
    small = [pick[x] for x in (1.0, 2.0, 4.0, 8.0 / 3, 6.0, 5.0, 7.0, 3.0, 16.0 / 3)]
    for meter in [(3, 4), (0, 0)]:
        for seq in itertools.product(small_ops(VOCAB), repeat=2):
            run_sequence(meter, seq, "meter %r depth2" % (meter,))
    for meter in METERS:
        for seq in itertools.product(small_ops(small[:5]), repeat=3):
            run_sequence(meter, seq, "meter %r depth3" % (meter,))
    for meter in [(3, 4), (2, 2)]:
        for seq in itertools.product(small_ops(small[2:5]), repeat=4):
            run_sequence(meter, seq, "meter %r depth4" % (meter,))


def check_fills():
    # fill to capacity with every single value and with alternating pairs
    for meter in METERS:
        if meter == (0, 0):
            continue
        length = F(meter[0], meter[1])
        for given, exact in VOCAB:
            bar, model = run_sequence(meter, [("rest", (given, exact))] * (int(length * exact) + 2), "fill %r with %r" % (meter, given), False)
            check(len(bar) == int(length * exact), "fill %r with %r: %d entries, expected %d" % (meter, given, len(bar), int(length * exact)))
        for (g1, e1), (g2, e2) in itertools.combinations(VOCAB[::5], 2):
            n = int(length / (1 / e1 + 1 / e2)) + 2
            run_sequence(meter, [("place", (g1, e1), "C"), ("rest", (g2, e2))] * n, "fill %r with %r/%r" % (meter, g1, g2), False)


def check_random():
    rnd = random.Random(13)
    ops_all = small_ops(VOCAB)
    for meter in METERS:
        for rep in range(4):
            ops = []
            for _ in range(400):
                r = rnd.random()
                ops.append(("remove",) if r < 0.3 else rnd.choice(ops_all))
            run_sequence(meter, ops, "random %r #%d" % (meter, rep))


def check_content_edits():
    for meter in [(4, 4), (6, 8), (0, 0)]:
        bar, model = run_sequence(
            meter,
            [("place", (4, F(4)), "C"), ("rest", (8, F(8))), ("place", (mvalue.triplet(8), F(12)), ["E", "G"]), ("place", (8, F(8)), "D")],
            "edit %r" % (meter,),
        )
        for index, new in [(0, "F#-5"), (2, ["A", "C-5"]), (1, Note("G", 3)), (3, NoteContainer(["B", "D-5"]))]:
            bar[index] = new
            e = model.entries[index]
            model.entries[index] = (e[0], e[1], expected_names(new))
            compare(bar, model, "edit %r: bar[%d] = %r" % (meter, index, new))
        # add notes to the sounding entry that starts at beat 0.0 (index 0)
        bar.place_notes_at(NoteContainer(["E-5"]), bar[0][0])
        e = model.entries[0]
        model.entries[0] = (e[0], e[1], sorted(set(e[2] + [("E", 5)])))
        compare(bar, model, "edit %r: place_notes_at" % (meter,))


def check_set_meter():
    powers = [1, 2, 4, 8, 16, 32, 64, 128]
    for unit in range(0, 140):
        for count in (1, 2, 3, 4, 5, 6, 7, 9, 12):
            bar = Bar()
            try:
                bar.set_meter((count, unit))
                accepted = True
            except Exception:  # the statement does not name the class
                accepted = False
            check(accepted == (unit in powers), "set_meter((%d, %d)) accepted=%r" % (count, unit, accepted))
            if accepted and unit in powers:
                check(bar.meter == (count, unit), "set_meter: meter")
                check(abs(bar.length - float(F(count, unit))) <= TOL, "set_meter((%d, %d)): length %r" % (count, unit, bar.length))
            else:
                check(bar.meter == (4, 4) and bar.length == 1.0, "a rejected meter must leave the bar alone")
    bar = Bar()
    bar.set_meter((0, 0))
    check(bar.meter == (0, 0) and bar.length == 0, "set_meter((0, 0))")
    try:
        Bar("C", (4, 3))
        check(False, "Bar('C', (4, 3)) accepted")
    except Exception:
        pass


def observed():
    # 1. how the position is stored (internal representation)
    bar = Bar("C", (4, 4))
    bar.place_notes("C", 4)
    print("OBSERVED: 'current_beat' stored in the instance dict:", "current_beat" in vars(bar))
    print("OBSERVED: Bar.current_beat is a property:", isinstance(vars(Bar).get("current_beat"), property))
    # 2. last-bit rounding of the floats that are reported (all within 1e-15 of the exact sums)
    bar = Bar("C", (0, 0))
    for _ in range(10):
        bar.place_notes("C", 10)  # ten notes of 1/10 each (not a documented value)
    print("OBSERVED: current_beat after ten notes of value 10:", repr(bar.current_beat))
    bar = Bar("C", (4, 4))
    bar.place_notes("C", 4)
    bar.place_notes("D", 4)
    bar.place_notes("E", mvalue.septuplet(4))
    print("OBSERVED: current_beat after 1/4 + 1/4 + 1/7 (exactly 9/14 = 0.642857142857142857...):", repr(bar.current_beat))
    # 3. outside the vocabulary: values finer than a billionth of a whole note on a full bar
    bar = Bar("C", (1, 4))
    bar.place_notes("C", 4)
    print("OBSERVED: full 1/4 bar accepts another note of value 2**31:", bar.place_notes("D", 2 ** 31))


def main():
    check_sequences()
    check_fills()
    check_random()
    check_content_edits()
    check_set_meter()
    observed()
    if failures:
        for f in failures:
            if f is not None:
                print("FAIL:", f)
        print("FAIL (%d checks failed)" % len(failures))
        return 1
    print("PASS")
    return 0


if __name__ == "__main__":
    sys.exit(main())
