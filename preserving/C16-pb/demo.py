#!/usr/bin/env python
# -*- coding: utf-8 -*-
"""Stand-alone demo for property C16 (MIDI output is well-formed SMF that
denotes exactly the music written).

(i)  checks the clauses of the property on a sample of inputs, with expected
     values derived from the SMF format / arithmetic / music theory and an
     independent SMF reader written here (no mingus call is used as oracle);
(ii) prints OBSERVED: lines showing the behaviour the accompanying patch alters.

Exit status 0 and "PASS" when every clause holds, 1 otherwise.
"""
from __future__ import print_function

import os
import random
import shutil
import struct
import sys
import tempfile

from mingus.containers import Bar, Composition, Note, NoteContainer, Track
from mingus.containers.instrument import MidiInstrument
from mingus.midi import midi_file_out
from mingus.midi.midi_track import MidiTrack

FAILS = []


def check(cond, msg):
    if not cond:
        FAILS.append(msg)
        if len(FAILS) <= 25:
            print("FAIL:", msg)
    return cond


# --------------------------------------------------------------------------
# independent Standard MIDI File reader
# --------------------------------------------------------------------------
class SMFError(Exception):
    pass


def read_vlq(data, pos, end):
    value = 0
    for _ in range(4):
        if pos >= end:
            raise SMFError("truncated variable-length quantity")
        b = data[pos]
        pos += 1
        value = (value << 7) | (b & 0x7F)
        if not b & 0x80:
            return value, pos
    raise SMFError("variable-length quantity longer than 4 bytes")


def parse_track(data, pos, end):
    events = []
    tick = 0
    running = None
    seen_eot = False
    while pos < end:
        if seen_eot:
            raise SMFError("data after end-of-track")
        delta, pos = read_vlq(data, pos, end)
        tick += delta
        if pos >= end:
            raise SMFError("delta time without event")
        status = data[pos]
        if status & 0x80:
            pos += 1
        else:
            if running is None:
                raise SMFError("data byte without running status")
            status = running
        if status == 0xFF:
            if pos >= end:
                raise SMFError("truncated meta event")
            mtype = data[pos]
            pos += 1
            ln, pos = read_vlq(data, pos, end)
            if pos + ln > end:
                raise SMFError("meta event runs past the chunk")
            payload = bytes(data[pos : pos + ln])
            pos += ln
            running = None
            if mtype == 0x2F:
                if ln != 0:
                    raise SMFError("end-of-track with payload")
                seen_eot = True
            events.append((tick, "meta", mtype, payload))
        elif status in (0xF0, 0xF7):
            ln, pos = read_vlq(data, pos, end)
            if pos + ln > end:
                raise SMFError("sysex runs past the chunk")
            pos += ln
            running = None
        elif status >= 0xF0:
            raise SMFError("system message 0x%02x inside a file" % status)
        else:
            running = status
            kind, ch = status >> 4, status & 0x0F
            n = 1 if kind in (0xC, 0xD) else 2
            params = tuple(data[pos : pos + n])
            if len(params) < n or any(p & 0x80 for p in params):
                raise SMFError("malformed channel event")
            pos += n
            events.append((tick, "ch", kind, ch, params))
    if not seen_eot:
        raise SMFError("chunk does not end in end-of-track")
    return events


def parse_smf(data):
    if data[:4] != b"MThd":
        raise SMFError("no MThd")
    if struct.unpack(">I", data[4:8])[0] != 6:
        raise SMFError("header length is not 6")
    fmt, ntrks, division = struct.unpack(">HHH", data[8:14])
    pos = 14
    tracks = []
    while pos < len(data):
        if data[pos : pos + 4] != b"MTrk":
            raise SMFError("garbage where a track chunk should start")
        length = struct.unpack(">I", data[pos + 4 : pos + 8])[0]
        start, end = pos + 8, pos + 8 + length
        if end > len(data):
            raise SMFError("chunk length runs past the file")
        tracks.append(parse_track(data, start, end))
        pos = end
    return fmt, ntrks, division, tracks


# --------------------------------------------------------------------------
# the music, described as plain data (the oracle works on this, not on mingus)
#   note  = (name, octave, channel, velocity)
#   entry = (value, [note, ...] or None for a rest)
#   bar   = {"key":..., "meter":(n, d), "entries":[entry, ...]}
#   track = {"name":..., "instr": program number or None, "bars":[bar, ...]}
# --------------------------------------------------------------------------
STEP = {"C": 0, "D": 2, "E": 4, "F": 5, "G": 7, "A": 9, "B": 11}

# number of sharps (+) / flats (-) of every key signature, from the circle of fifths
SHARPS = {
    "C": 0, "G": 1, "D": 2, "A": 3, "E": 4, "B": 5, "F#": 6, "C#": 7,
    "F": -1, "Bb": -2, "Eb": -3, "Ab": -4, "Db": -5, "Gb": -6, "Cb": -7,
    "a": 0, "e": 1, "b": 2, "f#": 3, "c#": 4, "g#": 5, "d#": 6, "a#": 7,
    "d": -1, "g": -2, "c": -3, "f": -4, "bb": -5, "eb": -6, "ab": -7,
}
ALL_KEYS = sorted(SHARPS)
assert len(ALL_KEYS) == 30

METERS = [(4, 4), (3, 4), (6, 8), (2, 2), (5, 4), (7, 8), (12, 8), (2, 4), (3, 8)]
# tick length integral: 1 2 4 8 16 32 3 6 12 24 9 ; rounded: 5 7 10 11 13 20
VALUES = [1, 2, 4, 8, 16, 32, 3, 6, 12, 24, 9, 5, 7, 10, 11, 13, 20]
NAMES = ["C", "C#", "Db", "D", "Eb", "E", "F", "F#", "G", "Ab", "A", "Bb", "B", "Cb", "E#"]


def midi_pitch(name, octave):
    semis = STEP[name[0]] + name[1:].count("#") - name[1:].count("b")
    return 12 * (octave + 1) + semis  # mingus pitch number (12*octave+semis) + 12


def ticks(value):
    return int(round(288.0 / value))


def log2_exact(d):
    p = 0
    while (1 << p) < d:
        p += 1
    assert (1 << p) == d
    return p


def build_container(notes):
    return NoteContainer([Note(n, o, velocity=v, channel=c) for (n, o, c, v) in notes])


def build_bar(spec):
    bar = Bar(spec["key"], spec["meter"])
    for value, notes in spec["entries"]:
        ok = bar.place_rest(value) if notes is None else bar.place_notes(build_container(notes), value)
        assert ok, "sample generator produced an entry that does not fit"
    return bar


def build_track(spec):
    instr = None
    if spec["instr"] is not None:
        instr = MidiInstrument()
        instr.instrument_nr = spec["instr"]
    track = Track(instr)
    if spec["name"] is not None:
        track.name = spec["name"]
    for b in spec["bars"]:
        track.add_bar(build_bar(b))
    return track


def random_notes(rng, channel=None):
    n = rng.choice([1, 1, 1, 2, 3, 4])
    out, seen = [], set()
    while len(out) < n:
        name, octave = rng.choice(NAMES), rng.randint(0, 8)
        p = midi_pitch(name, octave)
        if p in seen or not 0 <= p <= 127:
            continue
        seen.add(p)
        ch = rng.randint(0, 15) if channel is None else channel
        vel = rng.choice([0, 1, 64, 127, rng.randint(0, 127)])
        out.append((name, octave, ch, vel))
    # a NoteContainer keeps its notes sorted by pitch; order is irrelevant to the checks
    return out


def random_bar(rng, key, meter, shape=None):
    length = meter[0] / float(meter[1])
    entries, beat = [], 0.0
    shape = shape or rng.choice(["mixed", "mixed", "lead", "trail", "wholerest", "full"])
    if shape == "wholerest":
        # one or more rests filling the bar
        for _ in range(meter[0]):
            entries.append((meter[1], None))
        return {"key": key, "meter": meter, "entries": entries}
    tries = 0
    while tries < 40 and beat < length - 1e-9:
        tries += 1
        value = rng.choice(VALUES)
        if beat + 1.0 / value > length + 1e-9:
            continue
        idx = len(entries)
        if shape == "lead" and idx == 0:
            notes = None
        elif shape == "full":
            notes = random_notes(rng)
        else:
            notes = None if rng.random() < 0.3 else random_notes(rng)
        entries.append((value, notes))
        beat += 1.0 / value
    if shape == "trail" and entries:
        entries[-1] = (entries[-1][0], None)
    return {"key": key, "meter": meter, "entries": entries}


# --------------------------------------------------------------------------
# checking one decoded track against its description
# --------------------------------------------------------------------------
def check_track(label, events, spec, bpm, repeat, expect_name):
    # expected facts from the description
    tick = 0
    ons, offs, tsigs, ksigs = [], [], [], []
    first_channel = None
    for _ in range(repeat + 1):
        for bar in spec["bars"]:
            tsigs.append((tick, bar["meter"][0], log2_exact(bar["meter"][1])))
            ksigs.append((tick, SHARPS[bar["key"]], 1 if bar["key"][0].islower() else 0))
            for value, notes in bar["entries"]:
                d = ticks(value)
                if notes:
                    for (n, o, c, v) in notes:
                        ons.append((tick, c, midi_pitch(n, o), v))
                        offs.append((tick + d, c, midi_pitch(n, o), v))
                tick += d
    check_notes(label, events, ons, offs)

    got_ts = [(e[0], e[3][0], e[3][1]) for e in events if e[1] == "meta" and e[2] == 0x58]
    got_ks = [
        (e[0], struct.unpack("b", e[3][0:1])[0], e[3][1]) for e in events if e[1] == "meta" and e[2] == 0x59
    ]
    check(all(len(e[3]) == 4 for e in events if e[1] == "meta" and e[2] == 0x58), label + ": time signature length")
    check(all(len(e[3]) == 2 for e in events if e[1] == "meta" and e[2] == 0x59), label + ": key signature length")
    check(got_ts == tsigs, "%s: time signatures %r != %r" % (label, got_ts[:6], tsigs[:6]))
    check(got_ks == ksigs, "%s: key signatures %r != %r" % (label, got_ks[:6], ksigs[:6]))

    check_tempo(label, events, bpm)

    names = [e[3] for e in events if e[1] == "meta" and e[2] == 0x03]
    if expect_name is not None:
        check(len(names) >= 1 and all(n == expect_name.encode("ascii") for n in names),
              "%s: track name %r" % (label, names))

    if spec["instr"] is not None and ons:
        chan_events = [e for e in events if e[1] == "ch"]
        idx = next(i for i, e in enumerate(chan_events) if e[2] == 0x9)
        first_channel = chan_events[idx][3]
        before = chan_events[:idx]
        banks = [i for i, e in enumerate(before) if e[2] == 0xB and e[3] == first_channel and e[4][0] == 0]
        progs = [i for i, e in enumerate(before) if e[2] == 0xC and e[3] == first_channel]
        check(len(banks) >= 1, label + ": no bank select on the first note's channel before the first note")
        check(len(progs) >= 1 and before[progs[0]][4] == (spec["instr"],),
              label + ": no program change %r on channel %r" % (spec["instr"], first_channel))
        all_progs = [e for e in chan_events if e[2] == 0xC]
        check(all(e[3] == first_channel and e[4] == (spec["instr"],) for e in all_progs),
              label + ": stray program change")


def check_tempo(label, events, bpm):
    tempos = [e for e in events if e[1] == "meta" and e[2] == 0x51]
    want = struct.pack(">I", 60000000 // bpm)[1:]
    check(len(tempos) >= 1 and tempos[0][0] == 0 and all(t[3] == want for t in tempos),
          "%s: tempo %r, wanted %r" % (label, [t[3] for t in tempos], want))


def check_notes(label, events, ons, offs):
    got_on = sorted((e[0], e[3], e[4][0], e[4][1]) for e in events if e[1] == "ch" and e[2] == 0x9)
    got_off = sorted((e[0], e[3], e[4][0], e[4][1]) for e in events if e[1] == "ch" and e[2] == 0x8)
    check(got_on == sorted(ons), "%s: note-ons differ (%d vs %d)" % (label, len(got_on), len(ons)))
    check(got_off == sorted(offs), "%s: note-offs differ (%d vs %d)" % (label, len(got_off), len(offs)))
    # nothing hangs, nothing overlaps itself (file order)
    sounding = set()
    ok = True
    for e in events:
        if e[1] != "ch" or e[2] not in (0x8, 0x9):
            continue
        k = (e[3], e[4][0])
        if e[2] == 0x9:
            ok = ok and k not in sounding
            sounding.add(k)
        else:
            ok = ok and k in sounding
            sounding.discard(k)
    check(ok and not sounding, label + ": a note hangs or overlaps itself")
    # only the kinds of channel event the property talks about
    check(all(e[2] in (0x8, 0x9, 0xB, 0xC) for e in events if e[1] == "ch"), label + ": unexpected channel event")


def load(path):
    with open(path, "rb") as f:
        data = f.read()
    try:
        fmt, ntrks, division, tracks = parse_smf(data)
    except SMFError as err:
        check(False, "%s: not well-formed SMF: %s" % (os.path.basename(path), err))
        return None
    check(fmt == 1, "format is %r" % fmt)
    check(division == 72, "division is %r" % division)
    check(ntrks == len(tracks), "header declares %d tracks, %d chunks follow" % (ntrks, len(tracks)))
    return tracks


# --------------------------------------------------------------------------
# the sample
# --------------------------------------------------------------------------
def vlq_reference(n):
    groups = []
    while True:
        groups.append(n % 128)
        n //= 128
        if n == 0:
            break
    groups.reverse()
    return bytes([g + 128 for g in groups[:-1]] + [groups[-1]])


def check_vlq():
    t = MidiTrack()
    sample = set(range(0, 70000))
    for k in (7, 14, 21, 28):
        for d in range(-300, 301):
            v = (1 << k) + d
            if 0 <= v < (1 << 28):
                sample.add(v)
    rng = random.Random(16)
    sample.update(rng.randrange(1 << 28) for _ in range(60000))
    sample.update([0, 1, 127, 128, 16383, 16384, 2097151, 2097152, (1 << 28) - 1])
    bad = [v for v in sample if t.int_to_varbyte(v) != vlq_reference(v)]
    check(not bad, "variable-length encoder wrong for %r" % bad[:5])
    # spot values from the SMF specification
    spec = {0: "00", 0x40: "40", 0x7F: "7f", 0x80: "8100", 0x2000: "c000", 0x3FFF: "ff7f", 0x4000: "818000",
            0x100000: "c08000", 0x1FFFFF: "ffff7f", 0x200000: "81808000", 0x8000000: "c0808000",
            0xFFFFFFF: "ffffff7f"}
    for v, hx in spec.items():
        check(t.int_to_varbyte(v) == bytes.fromhex(hx), "VLQ of %#x" % v)


def run_property_checks(tmp):
    rng = random.Random(2016)
    path = os.path.join(tmp, "x.mid")

    check_vlq()

    # single notes and containers, written once or repeated
    for i in range(40):
        notes = random_notes(rng)
        bpm = rng.choice([60, 120, 90, 137, 200, 33])
        repeat = rng.choice([0, 0, 1, 2, 5])
        if i % 2 == 0:
            notes = notes[:1]
            n, o, c, v = notes[0]
            ok = midi_file_out.write_Note(path, Note(n, o, velocity=v, channel=c), bpm, repeat)
        else:
            ok = midi_file_out.write_NoteContainer(path, build_container(notes), bpm, repeat)
        check(ok, "write_Note/NoteContainer returned a false value")
        tracks = load(path)
        if tracks is None:
            continue
        check(len(tracks) == 1, "one track expected")
        ons = [(72 * r, c, midi_pitch(n, o), v) for r in range(repeat + 1) for (n, o, c, v) in notes]
        offs = [(72 * r + 72, c, midi_pitch(n, o), v) for r in range(repeat + 1) for (n, o, c, v) in notes]
        check_notes("note/container %d" % i, tracks[0], ons, offs)
        check_tempo("note/container %d" % i, tracks[0], bpm)

    # the extremes of the MIDI range
    for (n, o) in [("C", -1), ("C", 0), ("G", 9), ("Cb", 0), ("F##", 9)]:
        p = midi_pitch(n, o)
        assert 0 <= p <= 127
        midi_file_out.write_Note(path, Note(n, o, velocity=127, channel=15), 120, 1)
        tracks = load(path)
        if tracks:
            check_notes("extreme %s-%d" % (n, o), tracks[0], [(0, 15, p, 127), (72, 15, p, 127)],
                        [(72, 15, p, 127), (144, 15, p, 127)])

    # single bars: every key, every meter, every shape
    shapes = ["mixed", "lead", "trail", "wholerest", "full"]
    for i, key in enumerate(ALL_KEYS * 2):
        meter = METERS[i % len(METERS)]
        spec = {"name": None, "instr": None, "bars": [random_bar(rng, key, meter, shapes[i % len(shapes)])]}
        bpm = rng.choice([60, 120, 97, 240])
        repeat = rng.choice([0, 1, 3])
        check(midi_file_out.write_Bar(path, build_bar(spec["bars"][0]), bpm, repeat), "write_Bar returned false")
        tracks = load(path)
        if tracks is None:
            continue
        check(len(tracks) == 1, "one track expected")
        check_track("bar %d (%s %r)" % (i, key, meter), tracks[0], spec, bpm, repeat, None)

    # tracks and compositions
    def random_track(k, with_all_keys=False):
        keys = ALL_KEYS if with_all_keys else [rng.choice(ALL_KEYS) for _ in range(rng.randint(1, 6))]
        bars = [random_bar(rng, key, rng.choice(METERS)) for key in keys]
        return {
            "name": rng.choice([None, "Lead", "Track Name Test", "x" * 130, "Bass 2"]),
            "instr": rng.choice([None, 0, 1, 13, 56, 127]),
            "bars": bars,
        }

    for i in range(30):
        spec = random_track(i, with_all_keys=(i < 3))
        bpm = rng.choice([60, 120, 144, 77])
        repeat = rng.choice([0, 0, 1, 2])
        check(midi_file_out.write_Track(path, build_track(spec), bpm, repeat), "write_Track returned false")
        tracks = load(path)
        if tracks is None:
            continue
        check(len(tracks) == 1, "one track expected")
        check_track("track %d" % i, tracks[0], spec, bpm, repeat, spec["name"] or "Untitled")

    for i in range(40):
        specs = [random_track(k) for k in range(1 + i % 4)]
        comp = Composition()
        for s in specs:
            comp.add_track(build_track(s))
        bpm = rng.choice([60, 120, 180, 101])
        repeat = rng.choice([0, 0, 1, 3])
        check(midi_file_out.write_Composition(path, comp, bpm, repeat), "write_Composition returned false")
        tracks = load(path)
        if tracks is None:
            continue
        if not check(len(tracks) == len(specs), "composition %d: %d chunks for %d tracks" % (i, len(tracks), len(specs))):
            continue
        for k, (ev, s) in enumerate(zip(tracks, specs)):
            check_track("composition %d track %d" % (i, k), ev, s, bpm, repeat, s["name"] or "Untitled")


def main():
    tmp = tempfile.mkdtemp(prefix="c16demo")
    try:
        run_property_checks(tmp)
        observed(tmp)
    finally:
        shutil.rmtree(tmp, ignore_errors=True)
    if FAILS:
        print("FAIL (%d checks failed)" % len(FAILS))
        return 1
    print("PASS")
    return 0


def observed(tmp):
    """The variable-length encoder outside 0 .. 2^28-1."""
    t = MidiTrack()
    for v in (-1, -200, 128 ** 7 - 1, 128 ** 9 - 2):
        try:
            res = t.int_to_varbyte(v).hex()
        except Exception as err:  # noqa
            res = "%s: %s" % (type(err).__name__, err)
        print("OBSERVED: int_to_varbyte(%d) -> %s" % (v, res))
    import mingus.midi.midi_track as mt
    print("OBSERVED: midi_track imports struct.pack: %r" % hasattr(mt, "pack"))


if __name__ == "__main__":
    sys.exit(main())
