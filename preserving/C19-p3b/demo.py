# -*- coding: utf-8 -*-
"""Property C19 demo: notation exports (LilyPond, MusicXML) decode back to the
same music.

(i)  checks the clauses of the property with two small readers written here
     (a LilyPond-subset reader and an ElementTree based MusicXML reader); the
     expected values come from the inputs and from music theory / arithmetic,
     never from another mingus call;
(ii) prints OBSERVED: lines for the behaviour the change alters.

Exit status 0 and PASS when every clause holds, 1 otherwise.
"""
from __future__ import print_function

import random
import re
import sys
import xml.etree.ElementTree as ET
from fractions import Fraction

import mingus.core.value as value
import mingus.extra.lilypond as lilypond
import mingus.extra.musicxml as musicxml
from mingus.containers import Bar, Composition, Note, NoteContainer, Track
from mingus.containers.instrument import Instrument, MidiInstrument

FAILURES = []


def check(cond, what):
    if not cond:
        FAILURES.append(what)
    return cond


# ---------------------------------------------------------------------------
# first principles
# ---------------------------------------------------------------------------
LETTERS = "CDEFGAB"
ACCS = ["", "#", "##", "b", "bb"]
BASES = [0.25, 0.5, 1, 2, 4, 8, 16, 32, 64, 128]
RATIOS = [(1, 1), (3, 2), (5, 4), (7, 4)]
# circle of fifths: number of sharps (+) / flats (-)
FIFTHS = {
    "C": 0, "G": 1, "D": 2, "A": 3, "E": 4, "B": 5, "F#": 6, "C#": 7,
    "F": -1, "Bb": -2, "Eb": -3, "Ab": -4, "Db": -5, "Gb": -6, "Cb": -7,
    "a": 0, "e": 1, "b": 2, "f#": 3, "c#": 4, "g#": 5, "d#": 6, "a#": 7,
    "d": -1, "g": -2, "c": -3, "f": -4, "bb": -5, "eb": -6, "ab": -7,
}
ALL_KEYS = sorted(FIFTHS)
assert len(ALL_KEYS) == 30
METERS = [(4, 4), (3, 4), (2, 2), (6, 8), (12, 8), (5, 4), (7, 8), (2, 4), (9, 8), (8, 1)]


def alter_of(acc):
    return acc.count("#") - acc.count("b")


def mingus_value(base, dots, ratio):
    """The number mingus uses for this duration (input construction only)."""
    v = base
    if dots:
        v = value.dots(base, dots)
    if ratio != (1, 1):
        v = value.tuplet(base, ratio[0], ratio[1])
    return v


def quarter_length(base, dots, ratio):
    """Length in quarter notes, by arithmetic."""
    return (
        Fraction(4) / Fraction(base)
        * (2 - Fraction(1, 2 ** dots))
        * Fraction(ratio[1], ratio[0])
    )


def key_tonic_mode(key):
    """'bb' -> (('B', -1), 'minor');  'F#' -> (('F', 1), 'major')."""
    mode = "minor" if key[0].islower() else "major"
    return (key[0].upper(), alter_of(key[1:])), mode


# ---------------------------------------------------------------------------
# an independent reader for the LilyPond subset
# ---------------------------------------------------------------------------
NOTE_RE = re.compile(r"^([a-g])((?:is|es)*)([',]*)(\d+|\\longa|\\breve)?(\.*)$")
REST_RE = re.compile(r"^r(\d+|\\longa|\\breve)?(\.*)$")
DUR_RE = re.compile(r"^(\d+|\\longa|\\breve)(\.*)$")


def ly_tokens(text):
    text = re.sub(r"%[^\n]*", " ", text)  # comments
    for ch in "{}<>":
        text = text.replace(ch, " %s " % ch)
    return text.split()


def ly_base(tok):
    if tok is None or tok == "":
        return None
    if tok == "\\longa":
        return Fraction(1, 4)
    if tok == "\\breve":
        return Fraction(1, 2)
    return Fraction(int(tok))


def ly_pitch(letter, accs, marks):
    alter = accs.count("is") - accs.count("es")
    octave = 3 + marks.count("'") - marks.count(",")
    return (letter.upper(), alter, octave)


class LyReader(object):
    """Recursive-descent reader.  Produces a flat list of events:
    ('time', n, m), ('key', (letter, alter), mode), ('open',), ('close',),
    ('entry', [pitches] or None (rest), base, dots, (rat1, rat2))."""

    def __init__(self, text):
        self.toks = ly_tokens(text)
        self.pos = 0
        self.events = []

    def peek(self):
        return self.toks[self.pos] if self.pos < len(self.toks) else None

    def next(self):
        tok = self.peek()
        self.pos += 1
        return tok

    def read_all(self):
        while self.peek() is not None:
            self.read_item((1, 1), 0)
        return self.events

    def read_item(self, ratio, depth):
        tok = self.next()
        if tok == "{":
            self.events.append(("open", depth))
            while self.peek() != "}":
                if self.peek() is None:
                    raise ValueError("unbalanced braces")
                self.read_item(ratio, depth + 1)
            self.next()
            self.events.append(("close", depth))
        elif tok == "\\time":
            n, m = self.next().split("/")
            self.events.append(("time", int(n), int(m)))
        elif tok == "\\key":
            m = NOTE_RE.match(self.next())
            mode = self.next()
            if not m or m.group(3) or m.group(4) or not mode.startswith("\\"):
                raise ValueError("bad key")
            p = ly_pitch(m.group(1), m.group(2), "")
            self.events.append(("key", (p[0], p[1]), mode[1:]))
        elif tok == "\\times":
            n, m = self.next().split("/")
            # \times n/m multiplies the duration by n/m, i.e. m notes in the
            # time of n: ratio (m, n); nested tuplets multiply
            inner = Fraction(ratio[0], ratio[1]) * Fraction(int(m), int(n))
            if self.next() != "{":
                raise ValueError("\\times without group")
            while self.peek() != "}":
                if self.peek() is None:
                    raise ValueError("unbalanced braces")
                self.read_item((inner.numerator, inner.denominator), depth)
            self.next()
        elif tok == "<":
            pitches = []
            while self.peek() != ">":
                m = NOTE_RE.match(self.next())
                if not m or m.group(4) or m.group(5):
                    raise ValueError("bad chord note")
                pitches.append(ly_pitch(m.group(1), m.group(2), m.group(3)))
            self.next()
            base, dots = None, 0
            if self.peek() is not None and DUR_RE.match(self.peek()):
                m = DUR_RE.match(self.next())
                base, dots = ly_base(m.group(1)), len(m.group(2))
            self.events.append(("entry", pitches, base, dots, ratio))
        elif REST_RE.match(tok):
            m = REST_RE.match(tok)
            self.events.append(("entry", None, ly_base(m.group(1)), len(m.group(2)), ratio))
        elif NOTE_RE.match(tok):
            m = NOTE_RE.match(tok)
            self.events.append(
                (
                    "entry",
                    [ly_pitch(m.group(1), m.group(2), m.group(3))],
                    ly_base(m.group(4)),
                    len(m.group(5)),
                    ratio,
                )
            )
        else:
            raise ValueError("unknown LilyPond token %r" % tok)


def ly_entries(text):
    return [e[1:] for e in LyReader(text).read_all() if e[0] == "entry"]


def ly_bars(text, bar_depth, events=None):
    """Split the events of a bar / track text into bars (brace groups at
    bar_depth); return per bar (time or None, key or None, entries)."""
    bars = []
    cur = None
    if events is None:
        events = LyReader(text).read_all()
    for e in events:
        if e[0] == "open" and e[1] == bar_depth:
            cur = {"time": None, "key": None, "entries": []}
        elif e[0] == "close" and e[1] == bar_depth:
            bars.append(cur)
            cur = None
        elif cur is not None:
            if e[0] == "time":
                cur["time"] = (e[1], e[2])
            elif e[0] == "key":
                cur["key"] = (e[1], e[2])
            elif e[0] == "entry":
                cur["entries"].append(e[1:])
    return bars


def ly_top_groups(text):
    """The events of every top-level { ... } group of the text."""
    groups, cur = [], None
    for e in LyReader(text).read_all():
        if e == ("open", 0):
            cur = [e]
        elif cur is not None:
            cur.append(e)
            if e == ("close", 0):
                groups.append(cur)
                cur = None
    return groups


def ly_header(text):
    m = re.match(r'\s*\\header\s*\{(.*?)\}\s*(?=\{|$)', text, re.S)
    if not m:
        return None, text
    fields = dict(re.findall(r'(\w+)\s*=\s*"(.*?)"(?=\s+\w+\s*=|\s*$)', m.group(1), re.S))
    return fields, text[m.end():]


# ---------------------------------------------------------------------------
# building music with known content
# ---------------------------------------------------------------------------
def expected_entry(pitches, base, dots, ratio):
    return (pitches, Fraction(base), dots, ratio)


def make_notes(rng, n):
    """n distinct natural-order pitches, ascending, as (letter, acc, octave)."""
    out = []
    octave = rng.randint(0, 4)
    idx = rng.randint(0, 6)
    for _ in range(n):
        out.append((LETTERS[idx], rng.choice(["", "", "#", "b"]), octave))
        idx += rng.randint(2, 3)  # a third or a fourth up: always higher
        if idx > 6:
            idx -= 7
            octave += 1
    return out


def to_container(notes):
    if notes is None:
        return None
    return NoteContainer([Note(l + a, o) for (l, a, o) in notes])


def as_pitches(notes):
    if notes is None:
        return None
    return [(l, alter_of(a), o) for (l, a, o) in notes]


def fill_bar(rng, key, meter, spec=None):
    """Return (Bar, expected entries).  spec: list of (notes, base, dots,
    ratio) to try; entries that do not fit are left out."""
    bar = Bar(key, meter)
    exp = []
    if spec is None:
        spec = []
        for _ in range(rng.randint(0, 7)):
            base = rng.choice(BASES[2:8]) if rng.random() < 0.8 else rng.choice(BASES)
            kind = rng.random()
            dots, ratio = 0, (1, 1)
            if kind < 0.25:
                dots = rng.randint(1, 2)
            elif kind < 0.5:
                ratio = rng.choice(RATIOS[1:])
            notes = None if rng.random() < 0.2 else make_notes(rng, rng.randint(1, 5))
            spec.append((notes, base, dots, ratio))
    for (notes, base, dots, ratio) in spec:
        if bar.place_notes(to_container(notes), mingus_value(base, dots, ratio)):
            exp.append(expected_entry(as_pitches(notes), base, dots, ratio))
    return bar, exp


# ---------------------------------------------------------------------------
# LilyPond clauses
# ---------------------------------------------------------------------------
def check_lilypond(rng):
    # every name up to double accidentals, octaves 0-8
    for l in LETTERS:
        for a in ACCS:
            for o in range(9):
                got = ly_entries(lilypond.from_Note(Note(l + a, o)))
                check(
                    got == [([(l, alter_of(a), o)], None, 0, (1, 1))],
                    "ly from_Note %s%s-%d -> %r" % (l, a, o, got),
                )
    # containers: rests, chords of 1-5 notes, whole value vocabulary
    for base in BASES:
        for dots in (0, 1, 2):
            for n in (0, 1, 2, 3, 4, 5):
                notes = make_notes(rng, n) if n else None
                nc = to_container(notes) if n else rng.choice([None, NoteContainer()])
                text = lilypond.from_NoteContainer(nc, mingus_value(base, dots, (1, 1)))
                got = ly_entries(text)
                check(
                    got == [(as_pitches(notes), Fraction(base), dots, (1, 1))],
                    "ly from_NoteContainer %r %r dots=%d -> %r" % (notes, base, dots, text),
                )
    # bars: all 30 keys, meters, vocabulary including tuplets, empty bars
    specs = []
    for base in BASES:
        for ratio in RATIOS:
            specs.append([(make_notes(rng, 1 + len(specs) % 5), base, 0, ratio)] * 2)
        for dots in (1, 2):
            specs.append([(make_notes(rng, 2), base, dots, (1, 1)), (None, base, dots, (1, 1))])
    specs.append([])  # empty bar
    specs.append([(make_notes(rng, 1), 4, 0, (1, 1)), (make_notes(rng, 3), 8, 0, (3, 2)),
                  (None, 8, 0, (3, 2)), (make_notes(rng, 1), 8, 0, (3, 2)),
                  (make_notes(rng, 2), 16, 0, (5, 4)), (make_notes(rng, 2), 4, 1, (1, 1))])
    bars = []
    for i, spec in enumerate(specs):
        bars.append(fill_bar(rng, ALL_KEYS[i % 30], (64, 4), spec) + (ALL_KEYS[i % 30], (64, 4)))
    for i in range(120):
        key, meter = ALL_KEYS[i % 30], METERS[i % len(METERS)]
        bars.append(fill_bar(rng, key, meter) + (key, meter))
    for (bar, exp, key, meter) in bars:
        for showkey in (True, False):
            for showtime in (True, False):
                text = lilypond.from_Bar(bar, showkey, showtime)
                got = ly_bars(text, 0)
                ok = len(got) == 1
                if ok:
                    ok = got[0]["entries"] == exp
                    if showkey:
                        ok = ok and got[0]["key"] == key_tonic_mode(key)
                    if showtime:
                        ok = ok and got[0]["time"] == meter
                check(ok, "ly from_Bar key=%s meter=%r -> %r (expected %r)" % (key, meter, text, exp))

    # tracks: key / meter decoded wherever shown, shown wherever they change
    def check_track_text(text, depth, content, label, events=None):
        got = ly_bars(text, depth, events)
        if not check(len(got) == len(content), "%s: number of bars in %r" % (label, text)):
            return
        cur_key, cur_time = None, None
        for j, (g, (bar, exp, key, meter)) in enumerate(zip(got, content)):
            check(g["entries"] == exp, "%s: bar %d entries in %r" % (label, j, text))
            if g["key"] is not None:
                cur_key = g["key"]
            if g["time"] is not None:
                cur_time = g["time"]
            if j > 0:
                # a change between bars must be visible in the text
                if content[j - 1][2] != key:
                    check(g["key"] is not None, "%s: key change not shown at bar %d" % (label, j))
                if content[j - 1][3] != meter:
                    check(g["time"] is not None, "%s: meter change not shown at bar %d" % (label, j))
            if cur_key is not None:
                check(cur_key == key_tonic_mode(key), "%s: key at bar %d: %r" % (label, j, cur_key))
            else:
                # nothing shown so far: LilyPond's default is c major
                check(key == "C", "%s: key %s never shown" % (label, key))
            if cur_time is not None:
                check(cur_time == meter, "%s: meter at bar %d: %r" % (label, j, cur_time))
            else:
                check(meter == (4, 4), "%s: meter %r never shown" % (label, meter))

    tracks = []
    for i in range(25):
        content = []
        key, meter = rng.choice(ALL_KEYS + ["C"] * 10), rng.choice(METERS + [(4, 4)] * 5)
        for _ in range(rng.randint(0, 6)):
            if rng.random() < 0.4:
                key = rng.choice(ALL_KEYS)
            if rng.random() < 0.4:
                meter = rng.choice(METERS)
            content.append(fill_bar(rng, key, meter) + (key, meter))
        t = Track()
        for c in content:
            t.add_bar(c[0])
        tracks.append((t, content))
        check_track_text(lilypond.from_Track(t), 1, content, "ly from_Track %d" % i)

    # compositions: header and every track
    titles = [
        ("Untitled", "", ""),
        ("Suite <1> & more", "J. S. <Bach> & sons", "Op. 3 'x' > y"),
        (u"Prélude & fugue", u"Anoným", "a < b"),
    ]
    for i, (title, author, subtitle) in enumerate(titles):
        c = Composition()
        c.set_title(title, subtitle)
        c.set_author(author)
        chosen = [tracks[(3 * i + k) % len(tracks)] for k in range(1 + i)]
        for (t, _) in chosen:
            c.add_track(t)
        text = lilypond.from_Composition(c)
        fields, rest = ly_header(text)
        if not check(fields is not None, "ly header missing in %r" % text):
            continue
        check(fields.get("title") == title, "ly header title %r" % (fields,))
        check(fields.get("composer") == author, "ly header author %r" % (fields,))
        check(
            subtitle in (fields.get("opus"), fields.get("subtitle")),
            "ly header subtitle %r" % (fields,),
        )
        # the tracks follow one after the other as top-level groups
        groups = ly_top_groups(rest)
        if check(len(groups) == len(chosen), "ly composition: number of tracks in %r" % text):
            for k, (events, (t, content)) in enumerate(zip(groups, chosen)):
                check_track_text(
                    text, 1, content, "ly from_Composition %d track %d" % (i, k), events
                )


# ---------------------------------------------------------------------------
# MusicXML clauses
# ---------------------------------------------------------------------------
def text_of(node, path):
    child = node.find(path)
    return None if child is None else child.text


def check_musicxml(rng):
    titles = [
        ("Untitled", ""),
        ("Suite <1> & \"more\"", "J. S. <Bach> & 'sons'"),
        ("a < b > c &amp; d", "]]> & <!-- x -->"),
        (u"Prélude", u"Anoným"),
    ]
    for i, (title, author) in enumerate(titles * 3):
        c = Composition()
        c.set_title(title)
        c.set_author(author)
        tracks = []
        for k in range(rng.randint(1, 4)):
            content = []
            for _ in range(rng.randint(0, 5)):
                key, meter = rng.choice(ALL_KEYS), rng.choice(METERS)
                content.append(fill_bar(rng, key, meter) + (key, meter))
            if i == 0 and k == 0:
                # the whole vocabulary once
                for base in BASES:
                    spec = [(make_notes(rng, 1 + (n % 5)), base, 0, r) for n, r in enumerate(RATIOS)]
                    spec += [(make_notes(rng, 2), base, d, (1, 1)) for d in (1, 2)]
                    spec += [(None, base, 0, (1, 1)), (None, base, 1, (1, 1))]
                    content.append(fill_bar(rng, "C", (64, 4), spec) + ("C", (64, 4)))
                content.append(fill_bar(rng, "eb", (3, 4), []) + ("eb", (3, 4)))
            inst = None
            if k % 3 == 1:
                inst = Instrument()
                inst.name = "Viola <d'amore> & Co %d" % k
            elif k % 3 == 2:
                inst = MidiInstrument()
                inst.name = "Synth \"pad\" & <lead>"
            t = Track(inst)
            t.name = "Track <%d> & \"voice\" %d" % (i, k)
            for cont in content:
                t.add_bar(cont[0])
            c.add_track(t)
            tracks.append((t, content, inst))
        text = musicxml.from_Composition(c)
        label = "xml composition %d" % i
        try:
            root = ET.fromstring(text.encode("utf-8"))
        except ET.ParseError as e:
            check(False, "%s: not well-formed: %s" % (label, e))
            continue
        check(root.tag == "score-partwise", "%s: root %s" % (label, root.tag))
        check(text_of(root, "movement-title") == title, "%s: title %r" % (label, text_of(root, "movement-title")))
        creators = [x.text for x in root.iter("creator")]
        if author:
            check(creators == [author], "%s: author %r" % (label, creators))
        score_parts = root.findall("part-list/score-part")
        parts = root.findall("part")
        ids = [p.get("id") for p in parts]
        check(len(parts) == len(tracks), "%s: number of parts" % label)
        check(None not in ids and len(set(ids)) == len(ids), "%s: part ids unique %r" % (label, ids))
        check([sp.get("id") for sp in score_parts] == ids, "%s: part-list ids match" % label)
        for sp, part, (t, content, inst) in zip(score_parts, parts, tracks):
            check(text_of(sp, "part-name") == t.name, "%s: part name %r" % (label, text_of(sp, "part-name")))
            if inst is not None:
                check(
                    text_of(sp, "score-instrument/instrument-name") == inst.name,
                    "%s: instrument name" % label,
                )
            measures = part.findall("measure")
            check(
                [m.get("number") for m in measures] == [str(n + 1) for n in range(len(content))],
                "%s: measure numbers" % label,
            )
            for m, (bar, exp, key, meter) in zip(measures, content):
                where = "%s measure %s" % (label, m.get("number"))
                attrs = m.find("attributes")
                check(
                    (text_of(attrs, "time/beats"), text_of(attrs, "time/beat-type"))
                    == (str(meter[0]), str(meter[1])),
                    "%s: meter" % where,
                )
                check(text_of(attrs, "key/fifths") == str(FIFTHS[key]), "%s: fifths" % where)
                check(text_of(attrs, "key/mode") == key_tonic_mode(key)[1], "%s: mode" % where)
                divisions = int(text_of(attrs, "divisions"))
                want = []
                for (pitches, base, dots, ratio) in exp:
                    length = quarter_length(base, dots, ratio)
                    if pitches is None:
                        want.append((None, False, dots, length))
                    else:
                        for n, p in enumerate(pitches):
                            want.append((p, n > 0, dots, length))
                got = []
                for note in m.findall("note"):
                    if note.find("rest") is not None:
                        pitch = None
                        check(note.find("pitch") is None, "%s: rest with pitch" % where)
                    else:
                        pitch = (
                            text_of(note, "pitch/step"),
                            int(text_of(note, "pitch/alter") or 0),
                            int(text_of(note, "pitch/octave")),
                        )
                    got.append(
                        (
                            pitch,
                            note.find("chord") is not None,
                            len(note.findall("dot")),
                            Fraction(int(text_of(note, "duration")), divisions),
                        )
                    )
                check(got == want, "%s: notes %r expected %r" % (where, got, want))


# ---------------------------------------------------------------------------
def observed():
    table = value.musicxml
    print("OBSERVED: value.musicxml has %d entries; 32 -> %r, breve (0.5) -> %r, longa (0.25) -> %r"
          % (len(table), table.get(32), table.get(0.5), table.get(0.25)))
    c = Composition()
    t = Track()
    b = Bar("C", (64, 4))
    for v in (32, value.dots(32), value.triplet(32), 0.5, 0.25, 4, 64):
        b.place_notes("A-4", v)
    t.add_bar(b)
    c.add_track(t)
    root = ET.fromstring(musicxml.from_Composition(c).encode("utf-8"))
    types = [text_of(n, "type") for n in root.iter("note")]
    print("OBSERVED: <type> of a 32nd, dotted 32nd, triplet 32nd, breve, longa, quarter, 64th: %r" % (types,))


def main():
    rng = random.Random(1919)
    try:
        check_lilypond(rng)
        check_musicxml(rng)
    except Exception as e:  # a reader that chokes is a failure, not a crash
        import traceback

        traceback.print_exc()
        FAILURES.append("exception: %r" % (e,))
    observed()
    if FAILURES:
        for f in FAILURES[:15]:
            print("FAIL:", f)
        print("FAIL (%d problems)" % len(FAILURES))
        return 1
    print("PASS")
    return 0


if __name__ == "__main__":
    sys.exit(main())
