"""Demo for C20 change c: from_Track no longer starts with two empty lines."""
from __future__ import print_function

import itertools
import os
import random
import sys

import mingus.extra.tunings as tunings
import mingus.extra.tablature as tablature
from mingus.containers import Note, NoteContainer, Bar, Track, Composition
from mingus.core.mt_exceptions import RangeError, FingerError

FAILURES = []


def check(cond, msg):
    if not cond:
        FAILURES.append(msg)
        if len(FAILURES) <= 20:
            print("FAIL:", msg)


# ---- first principles -------------------------------------------------------
PC = {"C": 0, "D": 2, "E": 4, "F": 5, "G": 7, "A": 9, "B": 11}


def pitch(name, octave):
    """Semitone number of a note: 12 * octave + pitch class (C-0 == 0)."""
    v = PC[name[0]]
    for acc in name[1:]:
        v += 1 if acc == "#" else -1
    return 12 * octave + v


def pitch_of(n):
    return pitch(n.name, n.octave)


def pitch_str(s):
    name, octave = s.split("-")
    return pitch(name, int(octave))


def open_pitches(t):
    """Pitch of every string (first string of a course) of tuning t."""
    res = []
    for x in t.tuning:
        if isinstance(x, (list, tuple)):
            x = x[0]
        res.append(pitch_of(x))
    return res


def n_courses(t):
    total = 0
    for x in t.tuning:
        total += len(x) if isinstance(x, (list, tuple)) else 1
    return float(total) / len(t.tuning)


def has_courses(t):
    return any(isinstance(x, (list, tuple)) for x in t.tuning)


ALL = tunings.get_tunings()
STD = tunings.get_tuning("Guitar", "Standard", 6, 1)


# ---- clause 1 + 2: fret arithmetic -------------------------------------------
def check_frets():
    check(70 <= len(ALL) <= 80, "about 76 registered tunings, got %d" % len(ALL))
    check(open_pitches(STD) == [28, 33, 38, 43, 47, 52], "standard guitar is E-2 A-2 D-3 G-3 B-3 E-4")
    for t in ALL:
        opens = open_pitches(t)
        label = "%s / %s" % (t.instrument, t.description)
        for maxfret in (0, 5, 12, 24):
            for p in range(0, 128):
                exp = [(p - o) if 0 <= p - o <= maxfret else None for o in opens]
                got = t.find_frets(Note(p), maxfret)
                if list(got) != exp:
                    check(False, "find_frets %s note %d maxfret %d: %r != %r" % (label, p, maxfret, got, exp))
            for s, o in enumerate(opens):
                for f in range(0, maxfret + 1):
                    if o + f > 127:
                        continue
                    n = t.get_Note(s, f, maxfret)
                    if pitch_of(n) != o + f:
                        check(False, "get_Note %s (%d,%d) = %r" % (label, s, f, n))
                for (bs, bf) in ((-1, 0), (len(opens), 0), (s, -1), (s, maxfret + 1), (len(opens) + 3, maxfret + 7)):
                    try:
                        t.get_Note(bs, bf, maxfret)
                        check(False, "get_Note %s (%d,%d) maxfret %d accepted" % (label, bs, bf, maxfret))
                    except RangeError:
                        pass
        # default maxfret is 24
        got = t.find_frets(Note(opens[0] + 24))
        check(got[0] == 24, "default maxfret 24 on %s" % label)
        if opens[0] + 25 <= 127:
            check(t.find_frets(Note(opens[0] + 25))[0] is None, "fret 25 on %s" % label)


# ---- clause 3: lookup --------------------------------------------------------
def check_lookup():
    prefixes = set([None, "", "b", "ba", "gui", "Guitar", "GUITAR", "cello", "Cello b", "man", "mandolin", "v", "zzz"])
    for t in ALL:
        prefixes.add(t.instrument[:3])
        prefixes.add(t.instrument.lower())
    for p in prefixes:
        for ns in (None, 3, 4, 5, 6):
            for nc in (None, 1, 2, 3, 1.6):
                for t in tunings.get_tunings(p, ns, nc):
                    ok = True
                    if p is not None and not t.instrument.upper().startswith(p.upper()):
                        ok = False
                    if ns is not None and len(t.tuning) != ns:
                        ok = False
                    if nc is not None and n_courses(t) != nc:
                        ok = False
                    check(ok, "get_tunings(%r,%r,%r) returned %s / %s" % (p, ns, nc, t.instrument, t.description))
                if p is None:
                    continue
                for d in ("", "st", "Standard", "open", "drop d", "irish"):
                    t = tunings.get_tuning(p, d, ns, nc)
                    if t is None:
                        continue
                    ok = t.instrument.upper().startswith(p.upper()) and t.description.upper().startswith(d.upper())
                    if ns is not None and len(t.tuning) != ns:
                        ok = False
                    if nc is not None and n_courses(t) != nc:
                        ok = False
                    check(ok, "get_tuning(%r,%r,%r,%r) returned %s / %s" % (p, d, ns, nc, t.instrument, t.description))
    # some lookups that must find something
    t = tunings.get_tuning("guitar", "standard", 6, 1)
    check(t is not None and open_pitches(t) == [28, 33, 38, 43, 47, 52], "guitar standard lookup")
    check(len(tunings.get_tunings("bass")) >= 1, "bass prefix finds tunings")
    check(len(tunings.get_tunings(nr_of_strings=4)) >= 10, "4-string tunings exist")


# ---- clause 4: fingerings against brute force ---------------------------------
def brute_fingerings(opens, pitches, max_distance=4, maxfret=24):
    res = []
    for strings in itertools.permutations(range(len(opens)), len(pitches)):
        frets = [p - opens[s] for (s, p) in zip(strings, pitches)]
        if any(f < 0 or f > maxfret for f in frets):
            continue
        pressed = [f for f in frets if f != 0]
        if pressed and max(pressed) - min(pressed) >= max_distance:
            continue
        res.append(list(zip(strings, frets)))
    return res


def check_fingerings(rnd):
    sample = [t for t in ALL if len(t.tuning) <= 6]
    for t in rnd.sample(sample, 25) + [STD]:
        opens = open_pitches(t)
        for _ in range(12):
            k = rnd.randint(1, min(3, len(opens)))
            pitches = []
            for s in rnd.sample(range(len(opens)), k):
                pitches.append(min(127, opens[s] + rnd.randint(0, 9)))
            if rnd.random() < 0.15:
                pitches[0] = max(0, min(opens) - 3)  # unplayable
            notes = [Note(p) for p in pitches]
            for md in (4, 2):
                got = t.find_fingering(notes, md)
                exp = brute_fingerings(opens, pitches, md)
                g = sorted([tuple(tuple(x) for x in f) for f in got])
                e = sorted([tuple(f) for f in exp])
                check(g == e, "find_fingering %s %r md %d: %r != %r" % (t.instrument, pitches, md, g, e))
                totals = [sum(f for (_, f) in fing) for fing in got]
                check(totals == sorted(totals), "find_fingering not ordered by total fret: %r" % totals)


# ---- clause 5: chord fingerings -------------------------------------------------
CHORDS = {
    "Am": ["A", "C", "E"],
    "C": ["C", "E", "G"],
    "G7": ["G", "B", "D", "F"],
    "Em": ["E", "G", "B"],
    "F#m": ["F#", "A", "C#"],
    "Bb": ["Bb", "D", "F"],
}


def check_chords():
    for t in tunings.get_tunings("Guitar", 6, 1) + tunings.get_tunings("Ukulele"):
        opens = open_pitches(t)
        for (ch, names) in CHORDS.items():
            pcs = set(pitch(n, 0) % 12 for n in names)
            for (md, mf, fingers) in ((4, 18, 4), (3, 12, 3)):
                res = t.find_chord_fingering(NoteContainer(names), md, mf, fingers)
                if ch in ("Am", "C", "Em") and t is STD and md == 4:
                    check(len(res) > 0, "no fingering at all for %s on standard guitar" % ch)
                for f in res:
                    check(len(f) == len(opens), "one entry per string: %r" % (f,))
                    sounding = set((o + x) % 12 for (o, x) in zip(opens, f) if x is not None)
                    check(sounding == pcs, "%s on %s: %r sounds %r" % (ch, t.description, f, sounding))
                    pressed = [x for x in f if x]
                    check(all(0 <= x <= mf for x in f if x is not None), "fret limit %r" % (f,))
                    if pressed:
                        check(max(pressed) - min(pressed) < md, "span of %r" % (f,))
                        # one finger can only stop one fret (a barre at most)
                        check(len(set(pressed)) <= fingers, "fingers for %r" % (f,))


# ---- clause 6: tablature ------------------------------------------------------
def string_lines(text):
    """Split a tablature into systems; a system is a list of string lines
    (top line first).  String lines are ' <name> ||....|'; everything else
    (headers, beat marks, connectors, blank lines) is ignored."""
    systems = []
    cur = []
    for line in text.split(os.linesep):
        pos = line.find("||")
        if pos > 0 and line[:pos].strip() != "" and line.rstrip().endswith("|"):
            cur.append(line)
        else:
            if cur:
                systems.append(cur)
            cur = []
    if cur:
        systems.append(cur)
    return systems


def decode_system(lines, opens):
    """Return the list of entries (each a sorted list of pitches) read column
    by column off the string lines of one system."""
    check(len(lines) == len(opens), "one line per string: %d lines for %d strings" % (len(lines), len(opens)))
    check(len(set(len(l) for l in lines)) == 1, "lines equally long: %r" % [len(l) for l in lines])
    n = len(lines)
    found = []  # (end column, start column, string, fret)
    for (j, line) in enumerate(lines):
        string = n - 1 - j
        body_start = line.find("||") + 2
        i = body_start
        while i < len(line):
            if line[i].isdigit():
                k = i
                while k < len(line) and line[k].isdigit():
                    k += 1
                found.append((k, i, string, int(line[i:k])))
                i = k
            else:
                check(line[i] in "-| ", "unexpected character %r in %r" % (line[i], line))
                i += 1
    found.sort()
    entries = []
    last_end = None
    last_start = None
    for (end, start, string, fret) in found:
        # numbers of one entry overlap in columns
        if last_end is not None and start < last_end and end > last_start:
            entries[-1].append(opens[string] + fret)
            last_end = max(last_end, end)
            last_start = min(last_start, start)
        else:
            entries.append([opens[string] + fret])
            (last_start, last_end) = (start, end)
    return [sorted(e) for e in entries]


def expected_bar(bar):
    res = []
    for (beat, duration, notes) in bar.bar:
        if notes is None or len(notes) == 0:
            continue
        res.append(sorted(pitch_of(n) for n in notes))
    return res


def random_bar(rnd, opens, meter=(4, 4)):
    b = Bar("C", meter)
    while not b.is_full():
        dur = rnd.choice([4, 4, 8, 2])
        r = rnd.random()
        if r < 0.15:
            ok = b.place_rest(dur)
        else:
            k = 1 if r < 0.6 else rnd.randint(2, min(3, len(opens)))
            strings = rnd.sample(range(len(opens)), k)
            base = rnd.randint(0, 9)
            ps = set(min(127, opens[s] + base + rnd.randint(0, 3) if rnd.random() < 0.8 else opens[s]) for s in strings)
            ok = b.place_notes(NoteContainer([Note(p) for p in sorted(ps)]), dur)
        if not ok:
            # does not fit any more: fill with the shortest value
            if not b.place_rest(8):
                break
    return b


def check_tabs(rnd):
    plain = [t for t in ALL if not has_courses(t)]
    for t in rnd.sample(plain, 12) + [STD]:
        opens = open_pitches(t)
        n = len(opens)
        # single notes
        for width in (20, 30, 80):
            for _ in range(6):
                s = rnd.randrange(n)
                p = min(127, opens[s] + rnd.randint(0, 24))
                txt = tablature.from_Note(Note(p), width, t)
                sysl = string_lines(txt)
                check(len(sysl) == 1, "from_Note gives one system")
                check(decode_system(sysl[0], opens) == [[p]], "from_Note %s %d width %d:\n%s" % (t.instrument, p, width, txt))
            try:
                tablature.from_Note(Note(max(0, min(opens) - 1)), width, t)
                check(min(opens) == 0, "from_Note below the lowest string accepted")
            except RangeError:
                pass
            # note containers
            for _ in range(6):
                k = rnd.randint(1, min(3, n))
                base = rnd.randint(0, 10)
                ps = sorted(set(opens[s] + base + rnd.randint(0, 2) for s in rnd.sample(range(n), k)))
                ps = [p for p in ps if p <= 127]
                if not brute_fingerings(opens, ps):
                    try:
                        tablature.from_NoteContainer(NoteContainer([Note(p) for p in ps]), width, t)
                        check(False, "unplayable container %r accepted" % ps)
                    except (FingerError, RangeError):
                        pass
                    continue
                txt = tablature.from_NoteContainer(NoteContainer([Note(p) for p in ps]), width, t)
                sysl = string_lines(txt)
                check(len(sysl) == 1, "from_NoteContainer gives one system")
                check(decode_system(sysl[0], opens) == [ps], "from_NoteContainer %s %r width %d:\n%s" % (t.instrument, ps, width, txt))
        # bars
        for width in (40, 60, 77):
            for meter in ((4, 4), (3, 4), (6, 8)):
                b = random_bar(rnd, opens, meter)
                exp = expected_bar(b)
                playable = all(brute_fingerings(opens, e) for e in exp)
                try:
                    txt = tablature.from_Bar(b, width, t)
                except (FingerError, RangeError):
                    check(not playable, "from_Bar refused a playable bar %r" % exp)
                    continue
                check(playable, "from_Bar accepted an unplayable bar %r" % exp)
                sysl = string_lines(txt)
                check(len(sysl) == 1, "from_Bar gives one system")
                check(decode_system(sysl[0], opens) == exp, "from_Bar %s width %d: expected %r\n%s" % (t.instrument, width, exp, txt))
        # tracks and compositions
        for width in (80, 120, 200):
            tracks = []
            for _ in range(2):
                tr = Track()
                tr.set_tuning(t)
                exp = []
                for _ in range(5):
                    b = random_bar(rnd, opens)
                    if not all(brute_fingerings(opens, e) for e in expected_bar(b)):
                        continue
                    tr.add_bar(b)
                    exp += expected_bar(b)
                while len(tr) < 5:
                    b = Bar()
                    b.place_notes(NoteContainer([Note(opens[0])]), 1)
                    tr.add_bar(b)
                    exp += [[opens[0]]]
                tracks.append((tr, exp))
            (tr, exp) = tracks[0]
            txt = tablature.from_Track(tr, width)
            got = []
            for s in string_lines(txt):
                got += decode_system(s, opens)
            check(got == exp, "from_Track %s width %d: %r != %r\n%s" % (t.instrument, width, got, exp, txt))
            c = Composition()
            c.set_title("Demo 12-3", "in 4|4")
            c.set_author("A. U. Thor", "a-1@example.org")
            for (tr, _) in tracks:
                c.add_track(tr)
            txt = tablature.from_Composition(c, width)
            got = [[], []]
            for (i, s) in enumerate(string_lines(txt)):
                got[i % 2] += decode_system(s, opens)
            check(got[0] == tracks[0][1] and got[1] == tracks[1][1], "from_Composition %s width %d:\n%s" % (t.instrument, width, txt))
    # unplayable entry in a bar / track
    b = Bar()
    b.place_notes(NoteContainer([Note(28), Note(29)]), 2)  # E-2 and F-2 both only on the low E string
    for call in (lambda: tablature.from_Bar(b, 40, STD), lambda: tablature.from_NoteContainer(NoteContainer([Note(28), Note(29)]), 40, STD)):
        try:
            call()
            check(False, "unplayable entry accepted")
        except (FingerError, RangeError):
            pass
    tr = Track()
    tr.add_bar(b)
    try:
        tablature.from_Track(tr, 80)
        check(False, "unplayable track accepted")
    except (FingerError, RangeError):
        pass


def run_property_checks(extra=None):
    rnd = random.Random(20)
    check_frets()
    check_lookup()
    check_fingerings(rnd)
    check_chords()
    check_tabs(rnd)
    if extra is not None:
        extra(rnd)
    if FAILURES:
        print("FAIL (%d failures)" % len(FAILURES))
        return 1
    print("PASS")
    return 0


# ---- what the change alters: empty lines in front of the first system -----------
def observed():
    tr = Track()
    for name in ("E-2", "A-2", "C-3", "E-3", "G-3", "C-4", "E-4", "A-3", "B-3"):
        tr.add_notes(name, 4)
    txt = tablature.from_Track(tr, 80)
    lines = txt.split(os.linesep)
    leading = 0
    while leading < len(lines) and lines[leading] == "":
        leading += 1
    print("OBSERVED: from_Track output has %d lines, %d empty lines before the first system" % (len(lines), leading))
    print("OBSERVED: first line is %r" % lines[0])
    print("OBSERVED: indexes of the empty lines: %r" % [i for (i, l) in enumerate(lines) if l == ""])


if __name__ == "__main__":
    print("mingus from", os.path.dirname(tunings.__file__))
    rc = run_property_checks()
    observed()
    sys.exit(rc)
