"""Demo for change C19/b: one number of <divisions> for all the measures of a part.

Part (i): clause-by-clause check of property C19 with independent LilyPond-subset and XML
readers. Part (ii): OBSERVED lines showing what the change alters."""
import random
import re
import sys
import xml.etree.ElementTree as ET
from fractions import Fraction

import mingus
import mingus.core.value as value
import mingus.extra.lilypond as lilypond
import mingus.extra.musicxml as musicxml
from mingus.containers import Bar, Composition, Note, NoteContainer, Track
from mingus.containers.instrument import Instrument

# ---------------------------------------------------------------------------
# Model of the music, stated without the library
# ---------------------------------------------------------------------------
LETTERS = "CDEFGAB"
SEMITONE = {"C": 0, "D": 2, "E": 4, "F": 5, "G": 7, "A": 9, "B": 11}
ACCIDENTALS = {"": 0, "#": 1, "##": 2, "b": -1, "bb": -2}
NAMES = [l + a for l in LETTERS for a in ACCIDENTALS]
OCTAVES = list(range(0, 9))
MAJOR = ["Cb", "Gb", "Db", "Ab", "Eb", "Bb", "F", "C", "G", "D", "A", "E", "B", "F#", "C#"]
MINOR = ["ab", "eb", "bb", "f", "c", "g", "d", "a", "e", "b", "f#", "c#", "g#", "d#", "a#"]
KEYS = MAJOR + MINOR  # all 30
BASES = [0.25, 0.5, 1, 2, 4, 8, 16, 32, 64, 128]
RATIOS = [(3, 2), (5, 4), (7, 4)]
METERS = [(4, 4), (3, 4), (2, 4), (6, 8), (9, 8), (12, 8), (2, 2), (3, 2), (5, 4), (7, 8), (3, 16)]
MARKUP = ['Tom & Jerry', 'a < b > c', "it's <b>bold</b> &amp; more", 'say "hi" & \'bye\'', "plain", "x]]>y <!-- z -->"]


def key_facts(key):
    """tonic letter, tonic alteration, mode, number of fifths - from the circle of fifths."""
    if key in MAJOR:
        mode, fifths = "major", MAJOR.index(key) - 7
    else:
        mode, fifths = "minor", MINOR.index(key) - 7
    return key[0].upper(), ACCIDENTALS[key[1:]], mode, fifths


def vocabulary():
    """Every (base, dots, rat1, rat2) of the value vocabulary."""
    res = []
    for b in BASES:
        for d in range(0, 5):
            res.append((b, d, 1, 1))
        for (r1, r2) in RATIOS:
            res.append((b, 0, r1, r2))
    return res


def mingus_value(spec):
    """The number mingus uses for a value: 1/(fraction of a whole note)."""
    (b, d, r1, r2) = spec
    if d:
        return (0.5 * b) / (1.0 - 0.5 ** (d + 1))
    if (r1, r2) != (1, 1):
        return (r1 * b) / float(r2)
    return b


def quarter_length(spec):
    (b, d, r1, r2) = spec
    return Fraction(4) / Fraction(b) * (2 - Fraction(1, 2 ** d)) * Fraction(r2, r1)


def pitch_number(name, octave):
    return octave * 12 + SEMITONE[name[0]] + ACCIDENTALS[name[1:]]


def random_chord(rng, size):
    """size distinct pitches in ascending order (the order a NoteContainer keeps)."""
    while True:
        notes = [(rng.choice(NAMES), rng.choice(OCTAVES)) for _ in range(size)]
        nums = [pitch_number(n, o) for (n, o) in notes]
        if len(set(nums)) == size:
            return [x for (_, x) in sorted(zip(nums, notes), key=lambda p: p[0])]


def fit_meter(rng, entries):
    total = sum([quarter_length(s) for (s, _) in entries], Fraction(0)) / 4  # whole notes
    fitting = [m for m in METERS if Fraction(m[0], m[1]) >= total]
    if fitting and rng.random() < 0.8:
        return rng.choice(fitting)
    den = rng.choice([2, 4, 8, 16])
    num = int(total * den)
    if Fraction(num, den) < total:
        num += 1
    return (max(num, 1), den)


def build_bar(spec):
    (key, meter, entries) = spec
    bar = Bar(key, meter)
    for (vspec, notes) in entries:
        v = mingus_value(vspec)
        if notes is None:
            ok = bar.place_rest(v)
        else:
            ok = bar.place_notes(NoteContainer([Note(n, o) for (n, o) in notes]), v)
        assert ok, ("input does not fit", spec)
    return bar


def build_composition(spec):
    comp = Composition()
    comp.title, comp.author, comp.subtitle = spec["title"], spec["author"], spec["subtitle"]
    for tspec in spec["tracks"]:
        if tspec["instrument"] is None:
            track = Track()
        else:
            ins = Instrument()
            ins.name = tspec["instrument"]
            track = Track(ins)
        track.name = tspec["name"]
        for bspec in tspec["bars"]:
            track.add_bar(build_bar(bspec))
        comp.add_track(track)
    return comp


def random_bar_spec(rng, vocab, key=None):
    entries = []
    for _ in range(rng.choice([0, 1, 1, 2, 3, 4, 5, 6])):
        vspec = rng.choice(vocab)
        if rng.random() < 0.2:
            notes = None
        else:
            notes = random_chord(rng, rng.choice([1, 1, 2, 3, 4, 5]))
        entries.append((vspec, notes))
    return (key or rng.choice(KEYS), fit_meter(rng, entries), entries)


def random_composition_spec(rng, vocab):
    tracks = []
    for _ in range(rng.choice([1, 2, 3])):
        bars = []
        key = rng.choice(KEYS)
        for _ in range(rng.choice([1, 2, 3, 4, 5])):
            if rng.random() < 0.5:
                key = rng.choice(KEYS)
            bars.append(random_bar_spec(rng, vocab, key))
            if rng.random() < 0.4 and bars:
                # same key and meter twice in a row
                (k, m, _) = bars[-1]
                bars.append((k, m, [((4, 0, 1, 1), [("C", 4)])] if m[0] * 4 >= m[1] else []))
        tracks.append(
            {
                "name": rng.choice(MARKUP),
                "instrument": rng.choice(MARKUP + [None]),
                "bars": bars,
            }
        )
    return {
        "title": rng.choice(MARKUP),
        "author": rng.choice(MARKUP),
        "subtitle": rng.choice(MARKUP),
        "tracks": tracks,
    }


# ---------------------------------------------------------------------------
# Independent reader of the LilyPond subset
# ---------------------------------------------------------------------------
TOKEN = re.compile(
    r"\s*(\\[a-zA-Z]+|\d+/\d+|[{}<>]|[a-g](?:is|es)*(?![a-z])[',]*|r(?![a-z])|\d+|\.)"
)


def ly_tokens(text):
    pos, out = 0, []
    text = text.rstrip()
    while pos < len(text):
        m = TOKEN.match(text, pos)
        if not m:
            raise ValueError("cannot read LilyPond at %r" % text[pos : pos + 20])
        out.append(m.group(1))
        pos = m.end()
    return out


def ly_pitch(tok):
    m = re.match(r"^([a-g])((?:is|es)*)([',]*)$", tok)
    if not m:
        raise ValueError("not a pitch: %r" % tok)
    acc = m.group(2)
    alter = acc.count("is") - acc.count("es")
    if "is" in acc and "es" in acc:
        raise ValueError("mixed accidentals")
    marks = m.group(3)
    if "'" in marks and "," in marks:
        raise ValueError("mixed octave marks")
    return (m.group(1).upper(), alter, 3 + marks.count("'") - marks.count(","))


class LyReader(object):
    def __init__(self, text):
        self.toks = ly_tokens(text)
        self.i = 0

    def peek(self):
        return self.toks[self.i] if self.i < len(self.toks) else None

    def take(self, expected=None):
        tok = self.peek()
        if tok is None or (expected is not None and tok != expected):
            raise ValueError("expected %r, found %r" % (expected, tok))
        self.i += 1
        return tok

    def duration(self):
        base, dots = None, 0
        tok = self.peek()
        if tok == "\\longa":
            self.take()
            base = Fraction(1, 4)
        elif tok == "\\breve":
            self.take()
            base = Fraction(1, 2)
        elif tok is not None and tok.isdigit():
            base = Fraction(int(self.take()))
        while self.peek() == ".":
            self.take()
            dots += 1
        return base, dots

    def entry(self, ratio):
        tok = self.take()
        if tok == "r":
            notes = None
        elif tok == "<":
            notes = []
            while self.peek() != ">":
                notes.append(ly_pitch(self.take()))
            self.take(">")
        else:
            notes = [ly_pitch(tok)]
        base, dots = self.duration()
        return {"notes": notes, "base": base, "dots": dots, "ratio": ratio}

    def items(self, ratio=(1, 1)):
        """entries up to (not including) the closing brace"""
        out = []
        while self.peek() != "}":
            if self.peek() == "\\times":
                self.take()
                (n, m) = self.take().split("/")
                self.take("{")
                # \times n/m : m notes in the time of n
                out.extend(self.items((int(m), int(n))))
                self.take("}")
            else:
                out.append(self.entry(ratio))
        return out

    def bar(self):
        self.take("{")
        res = {"time": None, "key": None}
        while self.peek() in ("\\time", "\\key"):
            if self.take() == "\\time":
                (n, d) = self.take().split("/")
                res["time"] = (int(n), int(d))
            else:
                (letter, alter, _) = ly_pitch(self.take())
                mode = self.take()
                if mode not in ("\\major", "\\minor"):
                    raise ValueError("bad mode %r" % mode)
                res["key"] = (letter, alter, mode[1:])
        res["entries"] = self.items()
        self.take("}")
        return res

    def track(self):
        self.take("{")
        bars = []
        while self.peek() == "{":
            bars.append(self.bar())
        self.take("}")
        return bars

    def end(self):
        if self.peek() is not None:
            raise ValueError("trailing text %r" % self.peek())


def ly_split_header(text):
    """\\header { ... } followed by the music; returns (header block, rest)."""
    m = re.match(r'^\\header \{ (.*) \} (\{ .*)?$', text, re.S)
    if not m:
        raise ValueError("no header")
    # the header block ends at the last ' } ' before the first track; find it
    # by looking for the shortest prefix after which the remainder reads as tracks
    start = len("\\header { ")
    pos = start
    while True:
        pos = text.find(" }", pos)
        if pos < 0:
            raise ValueError("header not closed")
        rest = text[pos + 2 :]
        try:
            r = LyReader(rest)
            tracks = []
            while r.peek() is not None:
                tracks.append(r.track())
            return text[start:pos], tracks
        except ValueError:
            pos += 1


# ---------------------------------------------------------------------------
# The clauses
# ---------------------------------------------------------------------------
FAILURES = []


def check(cond, *what):
    if not cond:
        FAILURES.append(" ".join(str(w) for w in what))
    return cond


def expect_entries(got, entries, where):
    check(len(got) == len(entries), where, "number of entries", len(got), len(entries))
    for (g, (vspec, notes)) in zip(got, entries):
        (b, d, r1, r2) = vspec
        if notes is None:
            check(g["notes"] is None, where, "rest expected", g)
        else:
            want = [(n[0], ACCIDENTALS[n[1:]], o) for (n, o) in notes]
            check(g["notes"] == want, where, "notes", g["notes"], want)
        check(g["base"] == Fraction(b), where, "base value", g["base"], b)
        check(g["dots"] == d, where, "dots", g["dots"], d)
        check(
            Fraction(g["ratio"][0], g["ratio"][1]) == Fraction(r1, r2),
            where,
            "tuplet ratio",
            g["ratio"],
            (r1, r2),
        )


def check_ly_bar(got, bspec, state, where, must_show=None):
    """state: the key and time in force before the bar (LilyPond keeps them until changed)."""
    (key, meter, entries) = bspec
    (letter, alter, mode, _) = key_facts(key)
    if got["key"] is not None:
        state["key"] = got["key"]
    if got["time"] is not None:
        state["time"] = got["time"]
    if must_show:
        check(got["key"] is not None and got["time"] is not None, where, "key/time not shown")
    check(state["key"] == (letter, alter, mode), where, "key in force", state["key"], key)
    check(state["time"] == tuple(meter), where, "time in force", state["time"], meter)
    expect_entries(got["entries"], entries, where)


def check_lilypond_composition(spec, comp):
    text = lilypond.from_Composition(comp)
    try:
        header, tracks = ly_split_header(text)
    except ValueError as e:
        check(False, "LilyPond composition unreadable", e, text[:200])
        return
    for field in ("title", "author", "subtitle"):
        check('"%s"' % spec[field] in header, "header lacks", field, spec[field], header)
    check(len(tracks) == len(spec["tracks"]), "LilyPond number of tracks")
    for (ti, (bars, tspec)) in enumerate(zip(tracks, spec["tracks"])):
        check(len(bars) == len(tspec["bars"]), "LilyPond number of bars")
        state = {"key": ("C", 0, "major"), "time": (4, 4)}  # LilyPond's defaults
        for (bi, (got, bspec)) in enumerate(zip(bars, tspec["bars"])):
            check_ly_bar(got, bspec, state, "ly comp track %d bar %d" % (ti, bi))
    # the tracks and bars on their own
    for (ti, (track, tspec)) in enumerate(zip(comp.tracks, spec["tracks"])):
        try:
            r = LyReader(lilypond.from_Track(track))
            bars = r.track()
            r.end()
        except ValueError as e:
            check(False, "LilyPond track unreadable", e)
            continue
        state = {"key": ("C", 0, "major"), "time": (4, 4)}
        check(len(bars) == len(tspec["bars"]), "LilyPond number of bars (track)")
        for (bi, (got, bspec)) in enumerate(zip(bars, tspec["bars"])):
            check_ly_bar(got, bspec, state, "ly track %d bar %d" % (ti, bi))
        for (bi, (bar, bspec)) in enumerate(zip(track.bars, tspec["bars"])):
            try:
                r = LyReader(lilypond.from_Bar(bar))
                got = r.bar()
                r.end()
            except ValueError as e:
                check(False, "LilyPond bar unreadable", e)
                continue
            state = {"key": None, "time": None}
            check_ly_bar(got, bspec, state, "ly bar %d/%d" % (ti, bi), must_show=True)


def text_of(node, path):
    found = node.find(path)
    return None if found is None else found.text


def check_musicxml_composition(spec, comp):
    text = musicxml.from_Composition(comp)
    try:
        root = ET.fromstring(text)
    except ET.ParseError as e:
        check(False, "MusicXML not well-formed", e)
        return
    check(root.tag == "score-partwise", "root element", root.tag)
    check(text_of(root, "movement-title") == spec["title"], "title", text_of(root, "movement-title"))
    creators = [c.text for c in root.iter("creator")]
    check(creators == [spec["author"]], "author", creators)
    score_parts = root.findall("part-list/score-part")
    parts = root.findall("part")
    ids = [p.get("id") for p in parts]
    check(len(parts) == len(spec["tracks"]), "one part per track", len(parts))
    check(len(set(ids)) == len(ids) and None not in ids, "part ids unique", ids)
    check([sp.get("id") for sp in score_parts] == ids, "part list matches parts")
    for (ti, (sp, part, tspec)) in enumerate(zip(score_parts, parts, spec["tracks"])):
        check(text_of(sp, "part-name") == tspec["name"], "track name", text_of(sp, "part-name"))
        if tspec["instrument"] is not None:
            got = text_of(sp, "score-instrument/instrument-name")
            check(got == tspec["instrument"], "instrument name", got)
        measures = part.findall("measure")
        check(len(measures) == len(tspec["bars"]), "one measure per bar")
        check(
            [m.get("number") for m in measures] == [str(i + 1) for i in range(len(measures))],
            "measure numbers",
        )
        for (bi, (measure, bspec)) in enumerate(zip(measures, tspec["bars"])):
            where = "xml track %d bar %d" % (ti, bi)
            (key, meter, entries) = bspec
            (_, _, mode, fifths) = key_facts(key)
            attrs = measure.find("attributes")
            check(attrs is not None, where, "attributes missing")
            if attrs is None:
                continue
            check(text_of(attrs, "time/beats") == str(meter[0]), where, "beats")
            check(text_of(attrs, "time/beat-type") == str(meter[1]), where, "beat-type")
            check(int(text_of(attrs, "key/fifths")) == fifths, where, "fifths")
            check(text_of(attrs, "key/mode") == mode, where, "mode")
            divisions = Fraction(text_of(attrs, "divisions"))
            check(divisions > 0, where, "divisions")
            want = []
            for (vspec, notes) in entries:
                for (ni, n) in enumerate(notes if notes else [None]):
                    want.append((n, ni > 0, vspec))
            note_nodes = measure.findall("note")
            check(len(note_nodes) == len(want), where, "number of note elements")
            for (node, (n, in_chord, vspec)) in zip(note_nodes, want):
                if n is None:
                    check(node.find("rest") is not None, where, "rest expected")
                    check(node.find("pitch") is None, where, "rest with pitch")
                else:
                    check(node.find("rest") is None, where, "unexpected rest")
                    check(text_of(node, "pitch/step") == n[0][0], where, "step")
                    alter = text_of(node, "pitch/alter")
                    check(int(alter or 0) == ACCIDENTALS[n[0][1:]], where, "alter", alter, n)
                    check(int(text_of(node, "pitch/octave")) == n[1], where, "octave")
                check((node.find("chord") is not None) == in_chord, where, "chord flag", n)
                check(len(node.findall("dot")) == vspec[1], where, "dots", vspec)
                dur = Fraction(text_of(node, "duration"))
                check(dur / divisions == quarter_length(vspec), where, "duration", dur, divisions, vspec)


def check_small_things():
    # every name in every octave, as a note on its own
    for name in NAMES:
        for octave in OCTAVES:
            want = (name[0], ACCIDENTALS[name[1:]], octave)
            for standalone in (True, False):
                text = lilypond.from_Note(Note(name, octave), standalone=standalone)
                try:
                    r = LyReader(text)
                    if standalone:
                        r.take("{")
                    got = ly_pitch(r.take())
                    if standalone:
                        r.take("}")
                    r.end()
                    check(got == want, "from_Note", name, octave, text)
                except ValueError as e:
                    check(False, "from_Note unreadable", text, e)
    # every value of the vocabulary on a chord, a note and a rest
    rng = random.Random(19)
    for vspec in vocabulary():
        for notes in (random_chord(rng, rng.choice([2, 3, 4, 5])), random_chord(rng, 1), None):
            nc = None if notes is None else NoteContainer([Note(n, o) for (n, o) in notes])
            for standalone in (True, False):
                text = lilypond.from_NoteContainer(nc, mingus_value(vspec), standalone=standalone)
                try:
                    r = LyReader(text)
                    if standalone:
                        r.take("{")
                    got = r.entry((vspec[2], vspec[3]))  # a container on its own shows no tuplet
                    if standalone:
                        r.take("}")
                    r.end()
                    expect_entries([got], [(vspec, notes)], "from_NoteContainer %r" % text)
                except ValueError as e:
                    check(False, "from_NoteContainer unreadable", text, e)
    # every key with every meter, empty bars included
    for key in KEYS:
        for meter in METERS:
            for entries in ([], [((4, 1, 1, 1), None)] if meter != (3, 16) else []):
                bspec = (key, meter, entries)
                bar = build_bar(bspec)
                for (showkey, showtime) in ((True, True), (True, False), (False, True), (False, False)):
                    text = lilypond.from_Bar(bar, showkey, showtime)
                    try:
                        r = LyReader(text)
                        got = r.bar()
                        r.end()
                    except ValueError as e:
                        check(False, "from_Bar unreadable", text, e)
                        continue
                    check((got["key"] is not None) == showkey, "showkey", text)
                    check((got["time"] is not None) == showtime, "showtime", text)
                    (letter, alter, mode, _) = key_facts(key)
                    if showkey:
                        check(got["key"] == (letter, alter, mode), "key of bar", text)
                    if showtime:
                        check(got["time"] == meter, "time of bar", text)
                    expect_entries(got["entries"], entries, "from_Bar %r" % text)


def run_property_checks():
    check(mingus.__file__ is not None, "mingus imported")
    check_small_things()
    rng = random.Random(1919)
    vocab = vocabulary()
    specs = []
    # systematic: every vocabulary value once in a bar of its own, all keys in turn
    tracks, bars = [], []
    for (i, vspec) in enumerate(vocab):
        notes = None if i % 7 == 3 else random_chord(rng, 1 + i % 5)
        entries = [(vspec, notes), ((8, 0, 3, 2), random_chord(rng, 2)), ((8, 0, 3, 2), None), ((4, 0, 1, 1), [("F##", 2)])]
        bars.append((KEYS[i % 30], fit_meter(rng, entries), entries))
    tracks.append({"name": "all <values>", "instrument": "Harp & \"Lyre\"", "bars": bars})
    tracks.append({"name": "empty", "instrument": None, "bars": [("C", (4, 4), []), ("a", (4, 4), []), ("a", (6, 8), [])]})
    specs.append({"title": 'A <title> & "more"', "author": "B&B <b@b.org>", "subtitle": "Op. <1> & 'two'", "tracks": tracks})
    for _ in range(60):
        specs.append(random_composition_spec(rng, vocab))
    for spec in specs:
        comp = build_composition(spec)
        lyspec = dict(spec)
        check_lilypond_composition(lyspec, comp)
        check_musicxml_composition(spec, comp)
    return len(specs)


def observed():
    # a track whose bars need different numbers of divisions per quarter note:
    # quarter notes (1), eighth triplets (3), a dotted sixteenth (8)
    track = Track()
    bar1 = Bar("C", (2, 4))
    bar1.place_notes(NoteContainer([Note("C", 4)]), 4)
    bar1.place_notes(NoteContainer([Note("D", 4)]), 4)
    bar2 = Bar("C", (2, 4))
    for name in ("E", "F", "G"):
        bar2.place_notes(NoteContainer([Note(name, 4)]), 12)
    bar3 = Bar("C", (2, 4))
    bar3.place_notes(NoteContainer([Note("A", 4)]), mingus_value((16, 1, 1, 1)))
    for bar in (bar1, bar2, bar3):
        track.add_bar(bar)
    root = ET.fromstring(musicxml.from_Track(track))
    for measure in root.findall("part/measure"):
        print(
            "OBSERVED: measure %s divisions=%s durations=%s"
            % (
                measure.get("number"),
                measure.find("attributes/divisions").text,
                [n.find("duration").text for n in measure.findall("note")],
            )
        )


if __name__ == "__main__":
    count = run_property_checks()
    observed()
    if FAILURES:
        for f in FAILURES[:20]:
            print("FAILED:", f)
        print("FAIL (%d failures)" % len(FAILURES))
        sys.exit(1)
    print("PASS (%d compositions and the systematic small containers checked)" % count)
    sys.exit(0)
