"""Demo for property C11 (transposition is semitone-exact and reversible at
every container level).

Part (i) checks the clauses of the property from first principles (letter
arithmetic and semitone arithmetic written out here, no second mingus call used
as the oracle).  Part (ii) prints OBSERVED: lines for behaviour the property does
not pin down.
"""
from __future__ import print_function

import random
import sys

from mingus.containers import Note, NoteContainer, Bar, Track

LETTERS = "CDEFGAB"
BASE = {"C": 0, "D": 2, "E": 4, "F": 5, "G": 7, "A": 9, "B": 11}
MAJOR = {1: 0, 2: 2, 3: 4, 4: 5, 5: 7, 6: 9, 7: 11}
NAMES = [l + a for l in LETTERS for a in ("", "#", "b", "##", "bb")]
SHORTHANDS = [p + str(d) for d in range(1, 8) for p in ("", "b", "bb", "#", "##")]
assert len(SHORTHANDS) == 35

failures = []


def fail(msg):
    if len(failures) < 20:
        print("FAIL:", msg)
    failures.append(msg)


def acc_value(name):
    return name.count("#") - name.count("b")


def pitch(name, octave):
    """Pitch number from first principles: C-0 is 0, one per semitone."""
    return octave * 12 + BASE[name[0]] + acc_value(name)


def size_of(shorthand):
    return MAJOR[int(shorthand[-1])] + shorthand.count("#") - shorthand.count("b")


def expected_transpose(name, octave, shorthand, up):
    """(name, octave) required by music theory for an interval of 0-11 semitones."""
    number = int(shorthand[-1])
    size = size_of(shorthand)
    steps = (number - 1) if up else -(number - 1)
    idx = LETTERS.index(name[0]) + steps
    letter = LETTERS[idx % 7]
    new_octave = octave + idx // 7  # crossing B->C (or C->B) changes the octave
    new_pitch = pitch(name, octave) + (size if up else -size)
    acc = new_pitch - (new_octave * 12 + BASE[letter])
    new_name = letter + ("#" * acc if acc >= 0 else "b" * -acc)
    return new_name, new_octave


def aug_name(name):
    # one semitone up on the same letter
    return name[:-1] if name.endswith("b") else name + "#"


def dim_name(name):
    return name[:-1] if name.endswith("#") else name + "b"


IN_DOMAIN = [s for s in SHORTHANDS if 0 <= size_of(s) <= 11]


def check_notes():
    for name in NAMES:
        for octave in range(0, 9):
            for sh in IN_DOMAIN:
                for up in (True, False):
                    if octave == 0 and not up:
                        continue  # stay clear of negative octaves in the sample
                    n = Note(name, octave)
                    n.transpose(sh, up)
                    exp = expected_transpose(name, octave, sh, up)
                    if (n.name, n.octave) != exp:
                        fail("%s-%d %s up=%s -> %s-%s, expected %s-%d"
                             % (name, octave, sh, up, n.name, n.octave, exp[0], exp[1]))
                    delta = size_of(sh) if up else -size_of(sh)
                    if int(n) != pitch(name, octave) + delta:
                        fail("%s-%d %s up=%s: pitch number %d, expected %d"
                             % (name, octave, sh, up, int(n), pitch(name, octave) + delta))
                    # and back again
                    n.transpose(sh, not up)
                    if (n.name, n.octave) != (name, octave):
                        fail("%s-%d %s up=%s and back -> %s-%s"
                             % (name, octave, sh, up, n.name, n.octave))


def check_change_octave():
    for octave in range(0, 6):
        for diff in range(-8, 4):
            n = Note("E", octave)
            n.change_octave(diff)
            if n.octave != max(0, octave + diff) or n.name != "E":
                fail("change_octave(%d) on E-%d -> %s-%s" % (diff, octave, n.name, n.octave))
    n = Note("C", 0)
    n.octave_down()
    if n.octave != 0:
        fail("octave_down on C-0 -> %s" % n.octave)
    n.octave_up()
    if n.octave != 1:
        fail("octave_up on C-0 -> %s" % n.octave)


def random_track(rng):
    """Return (track, model); model is a list of bars, each a list of
    (beat, duration, None | sorted list of (name, octave))."""
    t = Track()
    model = []
    for _ in range(rng.randint(1, 4)):
        b = Bar("C", (4, 4))
        mbar = []
        beat = 0.0
        while True:
            dur = rng.choice([1, 2, 4, 8, 16])
            if beat + 1.0 / dur > 1.0 + 1e-9:
                if 1.0 - beat < 1.0 / 16:
                    break
                continue
            kind = rng.random()
            if kind < 0.2:
                assert b.place_rest(dur)
                mbar.append((beat, dur, None))
            else:
                k = 1 if kind < 0.6 else rng.randint(2, 4)
                notes = {}
                while len(notes) < k:
                    nm, o = rng.choice(NAMES), rng.randint(2, 6)
                    notes.setdefault(pitch(nm, o), (nm, o))  # distinct pitches
                nc = NoteContainer([Note(nm, o) for (nm, o) in notes.values()])
                assert b.place_notes(nc, dur)
                mbar.append((beat, dur, sorted(notes.values(), key=lambda x: pitch(*x))))
            beat += 1.0 / dur
        t.add_bar(b)
        model.append(mbar)
    return t, model


def compare(track, model, what):
    if len(track.bars) != len(model):
        fail("%s: number of bars changed" % what)
        return
    for bar, mbar in zip(track.bars, model):
        if len(bar.bar) != len(mbar):
            fail("%s: number of entries changed" % what)
            return
        for entry, (beat, dur, notes) in zip(bar.bar, mbar):
            if abs(entry[0] - beat) > 1e-9 or entry[1] != dur:
                fail("%s: beat/duration changed: %r vs %r" % (what, entry[:2], (beat, dur)))
            if notes is None:
                if entry[2] is not None:
                    fail("%s: rest became %r" % (what, entry[2]))
            else:
                got = sorted([(n.name, n.octave) for n in entry[2]], key=lambda x: pitch(*x))
                if got != notes:
                    fail("%s: notes %r, expected %r" % (what, got, notes))


def apply_model(model, fn):
    return [[(beat, dur, None if notes is None else
              sorted([fn(nm, o) for (nm, o) in notes], key=lambda x: pitch(*x)))
             for (beat, dur, notes) in mbar] for mbar in model]


def check_containers():
    rng = random.Random(1111)
    for trial in range(120):
        t, model = random_track(rng)
        compare(t, model, "fresh track")
        for step in range(rng.randint(1, 6)):
            op = rng.choice(["transpose", "transpose", "augment", "diminish", "augdim"])
            level = rng.choice(["track", "bar", "container"])
            if op == "transpose":
                sh, up = rng.choice(IN_DOMAIN), rng.choice([True, False])
                fn = lambda nm, o, sh=sh, up=up: expected_transpose(nm, o, sh, up)
                call = lambda obj, sh=sh, up=up: obj.transpose(sh, up)
            elif op == "augment":
                fn = lambda nm, o: (aug_name(nm), o)
                call = lambda obj: obj.augment()
            elif op == "diminish":
                fn = lambda nm, o: (dim_name(nm), o)
                call = lambda obj: obj.diminish()
            else:
                fn = lambda nm, o: (nm, o)  # augment then diminish: identity on names

                def call(obj):
                    obj.augment()
                    obj.diminish()
            new_model = apply_model(model, fn)
            flat = [x for mbar in new_model for (_, _, ns) in mbar if ns for x in ns]
            if any(abs(acc_value(nm)) > 4 or o < 0 for (nm, o) in flat):
                continue  # keep the sample within ordinary spellings and octaves
            model = new_model
            if level == "track":
                call(t)
            elif level == "bar":
                for b in t.bars:
                    call(b)
            else:
                for b in t.bars:
                    for entry in b.bar:
                        if entry[2] is not None:
                            call(entry[2])
            compare(t, model, "trial %d step %d %s@%s" % (trial, step, op, level))
            if failures:
                return


def run_checks():
    check_notes()
    check_change_octave()
    check_containers()
    return not failures


def observed():
    # Shorthands whose size is NOT 0-11 semitones (outside the property):
    # a diminished unison (-1), a doubly diminished unison (-2), an augmented
    # seventh (12) and a doubly augmented seventh (13).
    for sh in ("b1", "bb1", "#7", "##7"):
        for up in (True, False):
            n = Note("C", 4)
            before = int(n)
            n.transpose(sh, up)
            print("OBSERVED: C-4 transpose(%r, up=%s) -> %s-%d, pitch number moved by %+d"
                  % (sh, up, n.name, n.octave, int(n) - before))


if __name__ == "__main__":
    ok = run_checks()
    observed()
    print("PASS" if ok else "FAIL (%d)" % len(failures))
    sys.exit(0 if ok else 1)
