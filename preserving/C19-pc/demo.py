from __future__ import print_function

import random
import re
import sys
import xml.etree.ElementTree as ET
from fractions import Fraction

import mingus.core.value as value
import mingus.extra.lilypond as lilypond
import mingus.extra.musicxml as musicxml
from mingus.containers import Bar, Composition, Note, NoteContainer, Track
from mingus.containers.instrument import MidiInstrument

FAILURES = []


def check(cond, msg):
    if not cond:
        FAILURES.append(msg)


# --------------------------------------------------------------------------
# first-principles tables
# --------------------------------------------------------------------------
MAJORS = ["Cb", "Gb", "Db", "Ab", "Eb", "Bb", "F", "C", "G", "D", "A", "E", "B", "F#", "C#"]
MINORS = ["ab", "eb", "bb", "f", "c", "g", "d", "a", "e", "b", "f#", "c#", "g#", "d#", "a#"]
FIFTHS = {}
for _i, _k in enumerate(MAJORS):
    FIFTHS[_k] = _i - 7
for _i, _k in enumerate(MINORS):
    FIFTHS[_k] = _i - 7
ALL_KEYS = MAJORS + MINORS  # the 30 keys

ACCIDENTALS = ["", "#", "b", "##", "bb"]
NAMES = [l + a for l in "CDEFGAB" for a in ACCIDENTALS]
BASES = [0.25, 0.5, 1, 2, 4, 8, 16, 32, 64, 128]
METERS = [(4, 4), (3, 4), (6, 8), (2, 2), (5, 4), (7, 8), (12, 8), (2, 4), (9, 16)]


def vocabulary():
    """All (mingus value number, (base, dots, actual, normal)) pairs."""
    voc = []
    for b in BASES:
        voc.append((b, (b, 0, 1, 1)))
        for d in (1, 2, 3, 4):
            voc.append((value.dots(b, d), (b, d, 1, 1)))
        voc.append((value.triplet(b), (b, 0, 3, 2)))
        voc.append((value.quintuplet(b), (b, 0, 5, 4)))
        voc.append((value.septuplet(b), (b, 0, 7, 4)))
    return voc


def quarter_length(spec):
    (base, dots, actual, normal) = spec
    return Fraction(4) / Fraction(base) * (2 - Fraction(1, 2 ** dots)) * Fraction(normal, actual)


def alter_of(name):
    return name[1:].count("#") - name[1:].count("b")


# --------------------------------------------------------------------------
# building containers; the expected content is recorded alongside
# --------------------------------------------------------------------------
def put(bar, notes, val):
    """Append an entry regardless of the room left in the bar."""
    if notes is not None and not hasattr(notes, "notes"):
        notes = NoteContainer(notes)
    bar.bar.append([bar.current_beat, val, notes])
    bar.current_beat += 1.0 / val
    return notes


def make_bar(key, meter, entries):
    """entries: list of (list of (name, octave) or None, (val, spec)).
    Returns (Bar, expected) with expected = list of (pitches or None, spec);
    pitches in the order in which the container holds them."""
    bar = Bar(key, meter)
    expected = []
    for (pitches, (val, spec)) in entries:
        if pitches is None:
            put(bar, None, val)
            expected.append((None, spec))
        else:
            nc = put(bar, [Note(n, o) for (n, o) in pitches], val)
            expected.append(([(n.name, n.octave) for n in nc.notes], spec))
    return bar, expected


def random_entries(rnd, voc, n):
    entries = []
    for _ in range(n):
        kind = rnd.random()
        if kind < 0.2:
            pitches = None
        else:
            size = 1 if kind < 0.6 else rnd.randint(2, 5)
            pitches = []
            while len(pitches) < size:
                p = (rnd.choice(NAMES), rnd.randint(0, 8))
                if p not in pitches:
                    pitches.append(p)
        entries.append((pitches, rnd.choice(voc)))
    return entries


# --------------------------------------------------------------------------
# independent reader of the LilyPond subset
# --------------------------------------------------------------------------
def ly_tokens(text):
    toks = []
    i = 0
    n = len(text)
    stop = '{}<>"'
    while i < n:
        c = text[i]
        if c.isspace():
            i += 1
            continue
        if c in "{}<=":
            j = i + 1
        elif c == '"':
            j = text.index('"', i + 1) + 1
        elif c == "\\":
            # a command: backslash and letters
            j = i + 1
            while j < n and text[j].isalpha():
                j += 1
        else:
            # a note, rest, fraction, word, or '>' with an optional duration
            j = i + 1
            while j < n and not text[j].isspace() and text[j] not in stop:
                j += 1
        toks.append(text[i:j])
        i = j
    return toks


PITCH_RE = re.compile(r"^([a-g])((?:is|es)*)([',]*)$")
DUR_RE = re.compile(r"^(\\longa|\\breve|\d+)?(\.*)$")
EVENT_RE = re.compile(r"^([a-gr](?:is|es)*[',]*)((?:\\longa|\\breve|\d+)?\.*)$")


def ly_pitch(tok):
    m = PITCH_RE.match(tok)
    if not m:
        raise ValueError("bad pitch %r" % tok)
    letter = m.group(1).upper()
    acc = m.group(2)
    alter = acc.count("is") - acc.count("es")
    marks = m.group(3)
    octave = 3 + marks.count("'") - marks.count(",")
    return (letter, alter, octave)


def ly_duration(tok):
    m = DUR_RE.match(tok)
    if not m:
        raise ValueError("bad duration %r" % tok)
    if m.group(1) is None:
        return None
    base = {"\\longa": Fraction(1, 4), "\\breve": Fraction(1, 2)}.get(m.group(1))
    if base is None:
        base = Fraction(int(m.group(1)))
    return (base, len(m.group(2)))


class LyReader(object):
    def __init__(self, text):
        self.toks = ly_tokens(text)
        self.pos = 0

    def peek(self):
        return self.toks[self.pos] if self.pos < len(self.toks) else None

    def next(self):
        t = self.toks[self.pos]
        self.pos += 1
        return t

    def expect(self, t):
        got = self.next()
        if got != t:
            raise ValueError("expected %r, got %r" % (t, got))

    def block(self, ratio=Fraction(1)):
        """Parse '{ ... }' and return a list of items: ('time', n, m),
        ('key', letter, alter, mode), ('event', pitches-or-None, dur, ratio),
        ('block', items).  Tuplet groups are flattened into their parent."""
        self.expect("{")
        items = []
        while self.peek() != "}":
            t = self.next()
            if t == "{":
                self.pos -= 1
                items.append(("block", self.block(ratio)))
            elif t == "\\time":
                n, m = self.next().split("/")
                items.append(("time", int(n), int(m)))
            elif t == "\\key":
                (letter, alter, octave) = ly_pitch(self.next())
                mode = self.next()
                if mode not in ("\\major", "\\minor"):
                    raise ValueError("bad mode %r" % mode)
                items.append(("key", letter, alter, mode[1:]))
            elif t == "\\times":
                n, m = self.next().split("/")
                items.extend(self.block(ratio * Fraction(int(n), int(m))))
            elif t == "<":
                pitches = []
                while not self.peek().startswith(">"):
                    pitches.append(ly_pitch(self.next()))
                close = self.next()
                items.append(("event", pitches, ly_duration(close[1:]), ratio))
            else:
                m = EVENT_RE.match(t)
                if not m:
                    raise ValueError("unexpected token %r" % t)
                dur = ly_duration(m.group(2))
                if m.group(1) == "r":
                    items.append(("event", None, dur, ratio))
                else:
                    items.append(("event", [ly_pitch(m.group(1))], dur, ratio))
        self.expect("}")
        return items

    def done(self):
        return self.pos == len(self.toks)


def expected_events(expected):
    out = []
    for (pitches, spec) in expected:
        (base, dots, actual, normal) = spec
        if pitches is not None:
            pitches = [(n[0], alter_of(n), o) for (n, o) in pitches]
        out.append(("event", pitches, (Fraction(base), dots), Fraction(normal, actual)))
    return out


def check_ly_bar_items(items, key, meter, expected, showkey, showtime, where):
    head = [it for it in items if it[0] in ("time", "key")]
    events = [it for it in items if it[0] == "event"]
    check(len(head) + len(events) == len(items), "%s: unexpected nested block" % where)
    times = [it for it in head if it[0] == "time"]
    keys = [it for it in head if it[0] == "key"]
    if showtime:
        check(times == [("time", meter[0], meter[1])], "%s: time %r != %r" % (where, times, meter))
    else:
        check(times == [], "%s: unexpected time" % where)
    if showkey:
        exp = ("key", key[0].upper(), alter_of(key), "minor" if key[0].islower() else "major")
        check(keys == [exp], "%s: key %r != %r" % (where, keys, exp))
    else:
        check(keys == [], "%s: unexpected key" % where)
    exp_events = expected_events(expected)
    check(events == exp_events, "%s: events\n   got %r\n   exp %r" % (where, events, exp_events))


def check_ly_bar(bar, key, meter, expected, showkey, showtime, where):
    text = lilypond.from_Bar(bar, showkey, showtime)
    try:
        rd = LyReader(text)
        items = rd.block()
        check(rd.done(), "%s: trailing text in %r" % (where, text))
    except Exception as e:  # noqa
        check(False, "%s: cannot read %r: %r" % (where, text, e))
        return
    check_ly_bar_items(items, key, meter, expected, showkey, showtime, where)


def check_ly_track_items(items, bars_info, where):
    """bars_info: list of (key, meter, expected)."""
    blocks = [it for it in items if it[0] == "block"]
    check(len(blocks) == len(items), "%s: stray items between bars" % where)
    check(len(blocks) == len(bars_info), "%s: %d bars, expected %d" % (where, len(blocks), len(bars_info)))
    lastkey, lasttime = "C", (4, 4)
    for idx, (blk, (key, meter, expected)) in enumerate(zip(blocks, bars_info)):
        # the key / meter has to be shown wherever it changes between bars
        # (LilyPond's defaults are C major and 4/4)
        check_ly_bar_items(
            blk[1], key, meter, expected, key != lastkey, meter != lasttime, "%s bar %d" % (where, idx + 1)
        )
        lastkey, lasttime = key, meter


HEADER_RE = re.compile(r'^\\header \{ title = "(.*)" composer = "(.*)" opus = "(.*)" \} ?', re.S)


def check_ly_composition(comp, title, author, subtitle, tracks_info, where):
    text = lilypond.from_Composition(comp)
    m = HEADER_RE.match(text)
    if not m:
        check(False, "%s: no header in %r" % (where, text[:80]))
        return
    check(m.group(1) == title, "%s: ly title %r" % (where, m.group(1)))
    check(m.group(2) == author, "%s: ly author %r" % (where, m.group(2)))
    check(m.group(3) == subtitle, "%s: ly subtitle %r" % (where, m.group(3)))
    try:
        rd = LyReader(text[m.end() :])
        tracks = []
        while not rd.done():
            tracks.append(rd.block())
    except Exception as e:  # noqa
        check(False, "%s: cannot read composition: %r" % (where, e))
        return
    check(len(tracks) == len(tracks_info), "%s: ly track count" % where)
    for ti, (items, bars_info) in enumerate(zip(tracks, tracks_info)):
        check_ly_track_items(items, bars_info, "%s ly track %d" % (where, ti + 1))


# --------------------------------------------------------------------------
# independent reader of the MusicXML
# --------------------------------------------------------------------------
def text_of(node, path):
    el = node.find(path)
    return None if el is None else el.text


def check_xml_composition(comp, title, author, tracks_meta, tracks_info, where):
    """tracks_meta: list of (track name, instrument name or None)."""
    text = musicxml.from_Composition(comp)
    try:
        root = ET.fromstring(text)
    except Exception as e:  # noqa
        check(False, "%s: not well-formed: %r" % (where, e))
        return None
    check(root.tag == "score-partwise", "%s: root %r" % (where, root.tag))
    if title:
        check(text_of(root, "movement-title") == title, "%s: xml title %r" % (where, text_of(root, "movement-title")))
    if author:
        check(
            text_of(root, "identification/creator") == author,
            "%s: xml author %r" % (where, text_of(root, "identification/creator")),
        )
    score_parts = root.findall("part-list/score-part")
    parts = root.findall("part")
    listed = [sp.get("id") for sp in score_parts]
    ids = [p.get("id") for p in parts]
    check(len(parts) == len(tracks_info), "%s: %d parts for %d tracks" % (where, len(parts), len(tracks_info)))
    check(None not in ids and "" not in ids, "%s: part without id" % where)
    check(len(set(ids)) == len(ids), "%s: part ids not unique %r" % (where, ids))
    check(ids == listed, "%s: part ids %r do not match the part list %r" % (where, ids, listed))
    for sp, (tname, iname) in zip(score_parts, tracks_meta):
        check(text_of(sp, "part-name") == tname, "%s: part-name %r" % (where, text_of(sp, "part-name")))
        if iname is not None:
            got = text_of(sp, "score-instrument/instrument-name")
            check(got == iname, "%s: instrument-name %r" % (where, got))
    for pi, (part, bars_info) in enumerate(zip(parts, tracks_info)):
        measures = part.findall("measure")
        check(len(measures) == len(bars_info), "%s: measure count in part %d" % (where, pi + 1))
        check(
            [m.get("number") for m in measures] == [str(k + 1) for k in range(len(measures))],
            "%s: measure numbers" % where,
        )
        for mi, (meas, (key, meter, expected)) in enumerate(zip(measures, bars_info)):
            w = "%s part %d measure %d" % (where, pi + 1, mi + 1)
            attrs = meas.find("attributes")
            check(attrs is not None, "%s: no attributes" % w)
            if attrs is None:
                continue
            check(text_of(attrs, "time/beats") == str(meter[0]), "%s: beats" % w)
            check(text_of(attrs, "time/beat-type") == str(meter[1]), "%s: beat-type" % w)
            check(text_of(attrs, "key/fifths") == str(FIFTHS[key]), "%s: fifths %r for %s" % (w, text_of(attrs, "key/fifths"), key))
            check(text_of(attrs, "key/mode") == ("minor" if key[0].islower() else "major"), "%s: mode" % w)
            try:
                divisions = Fraction(text_of(attrs, "divisions"))
            except Exception:
                check(False, "%s: bad divisions" % w)
                continue
            check(divisions > 0, "%s: divisions not positive" % w)
            exp_notes = []
            for (pitches, spec) in expected:
                if pitches is None:
                    exp_notes.append((None, False, spec[1], quarter_length(spec)))
                else:
                    for k, (n, o) in enumerate(pitches):
                        exp_notes.append(((n[0], alter_of(n), o), k > 0, spec[1], quarter_length(spec)))
            got_notes = []
            for note in meas.findall("note"):
                pitch = note.find("pitch")
                if pitch is None:
                    check(note.find("rest") is not None, "%s: note without pitch or rest" % w)
                    p = None
                else:
                    alter = text_of(pitch, "alter")
                    p = (text_of(pitch, "step"), int(alter) if alter is not None else 0, int(text_of(pitch, "octave")))
                got_notes.append(
                    (
                        p,
                        note.find("chord") is not None,
                        len(note.findall("dot")),
                        Fraction(text_of(note, "duration")) / divisions,
                    )
                )
            check(got_notes == exp_notes, "%s: notes\n   got %r\n   exp %r" % (w, got_notes, exp_notes))
    return root


# --------------------------------------------------------------------------
# the sample of inputs
# --------------------------------------------------------------------------
def run_property_checks():
    rnd = random.Random(1919)
    voc = vocabulary()

    # single notes: all names, octaves 0-8
    for name in NAMES:
        for octave in range(0, 9):
            text = lilypond.from_Note(Note(name, octave))
            try:
                rd = LyReader(text)
                items = rd.block()
                ok = rd.done() and items == [("event", [(name[0], alter_of(name), octave)], None, Fraction(1))]
            except Exception:
                ok = False
            check(ok, "from_Note(%s-%d) -> %r" % (name, octave, text))

    # note containers: rests, single notes, chords, every value of the vocabulary
    for (val, spec) in voc:
        for pitches in (None, [("C", 4)], [("Bb", 2), ("D#", 3), ("F##", 5)], [("Ebb", 0), ("A", 8)]):
            if pitches is None:
                nc, exp_p = None, None
            else:
                nc = NoteContainer([Note(n, o) for (n, o) in pitches])
                exp_p = [(n.name[0], alter_of(n.name), n.octave) for n in nc.notes]
            text = lilypond.from_NoteContainer(nc, val)
            try:
                rd = LyReader(text)
                items = rd.block()
                ok = rd.done() and items == [("event", exp_p, (Fraction(spec[0]), spec[1]), Fraction(1))]
            except Exception:
                ok = False
            check(ok, "from_NoteContainer(%r, %r) -> %r" % (pitches, val, text))
    text = lilypond.from_NoteContainer(NoteContainer([]), 4)
    check(LyReader(text).block() == [("event", None, (Fraction(4), 0), Fraction(1))], "empty container -> %r" % text)

    # systematic bars: every key, the whole vocabulary in order, several meters
    all_bars = []
    for ki, key in enumerate(ALL_KEYS):
        meter = METERS[ki % len(METERS)]
        start = (ki * 7) % len(voc)
        chosen = [voc[(start + j) % len(voc)] for j in range(9)]
        entries = []
        for j, vs in enumerate(chosen):
            if j % 4 == 3:
                entries.append((None, vs))
            elif j % 4 == 1:
                entries.append(([(NAMES[(ki + j) % 35], (ki + j) % 9), (NAMES[(ki + 3 * j + 5) % 35], (ki + 2 * j) % 9)], vs))
            else:
                entries.append(([(NAMES[(ki * 3 + j) % 35], (ki + j + 4) % 9)], vs))
        bar, expected = make_bar(key, meter, entries)
        all_bars.append((bar, key, meter, expected))
    # tuplet groups followed by plain values, alternating ratios, empty bar
    plain4, trip8, quint8, sept16, dot4 = (
        (4, (4, 0, 1, 1)),
        (12, (8, 0, 3, 2)),
        (10, (8, 0, 5, 4)),
        (28, (16, 0, 7, 4)),
        (value.dots(4), (4, 1, 1, 1)),
    )
    seqs = [
        [trip8, trip8, trip8, plain4, plain4],
        [plain4, trip8, trip8, trip8, dot4],
        [trip8, quint8, trip8, plain4, sept16, sept16, plain4],
        [plain4, plain4],
        [trip8],
        [],
    ]
    for si, seq in enumerate(seqs):
        entries = [((None if j % 3 == 2 else [("C", 4), ("E", 4)][: 1 + j % 2]), vs) for j, vs in enumerate(seq)]
        bar, expected = make_bar("G" if si % 2 else "f#", (4, 4), entries)
        all_bars.append((bar, "G" if si % 2 else "f#", (4, 4), expected))
    # random bars
    for _ in range(120):
        key = rnd.choice(ALL_KEYS)
        meter = rnd.choice(METERS)
        bar, expected = make_bar(key, meter, random_entries(rnd, voc, rnd.randint(0, 8)))
        all_bars.append((bar, key, meter, expected))

    for bi, (bar, key, meter, expected) in enumerate(all_bars):
        for showkey in (True, False):
            for showtime in (True, False):
                check_ly_bar(bar, key, meter, expected, showkey, showtime, "bar #%d (%s)" % (bi, key))

    # tracks and compositions
    titles = [
        ("Plain title", "Somebody", "op. 1"),
        ("Tom & Jerry <fast> 'quoted'", "A&B <c>", "sub & <title>"),
        ("a < b > c &amp; d", "x &lt; y", ""),
        ("]]> <!-- no comment --> <?pi?>", "éè & ♫", "&#38;"),
    ]
    for ci in range(8):
        comp = Composition()
        (title, author, subtitle) = titles[ci % len(titles)]
        comp.set_title(title, subtitle)
        comp.set_author(author)
        tracks_info, tracks_meta = [], []
        for ti in range(1 + ci % 3):
            if (ci + ti) % 2:
                instr = MidiInstrument("Inst <%d> & 'co'" % ti)
                track = Track(instr)
                iname = instr.name
            else:
                track = Track()
                iname = None
            track.name = "Track <%d> & \"friends\"" % ti if ci % 2 else "Track %d" % ti
            bars_info = []
            nbars = rnd.randint(0, 6) if ci else 5
            for k in range(nbars):
                (bar, key, meter, expected) = rnd.choice(all_bars)
                if k and rnd.random() < 0.4:
                    # same key and meter as the bar before: nothing changes
                    (key, meter) = (bars_info[-1][0], bars_info[-1][1])
                    bar, expected = make_bar(key, meter, random_entries(rnd, voc, rnd.randint(0, 5)))
                track.add_bar(bar)
                bars_info.append((key, meter, expected))
            comp.add_track(track)
            tracks_info.append(bars_info)
            tracks_meta.append((track.name, iname))
        where = "composition %d" % ci
        # LilyPond: every track by itself and the composition with its header
        for ti, (track, bars_info) in enumerate(zip(comp.tracks, tracks_info)):
            try:
                rd = LyReader(lilypond.from_Track(track))
                items = rd.block()
                check(rd.done(), "%s: trailing text after track" % where)
                check_ly_track_items(items, bars_info, "%s track %d" % (where, ti + 1))
            except Exception as e:  # noqa
                check(False, "%s: cannot read track %d: %r" % (where, ti + 1, e))
        check_ly_composition(comp, title, author, subtitle, tracks_info, where)
        check_xml_composition(comp, title, author, tracks_meta, tracks_info, where)

    # MusicXML for the systematic bars as well (one bar per track keeps it simple)
    comp = Composition()
    comp.set_title('Say "hi" & <bye>')
    comp.set_author("O'Neil \"the\" <composer>")
    tracks_info, tracks_meta = [], []
    for (bar, key, meter, expected) in all_bars[:40]:
        track = Track()
        track.add_bar(bar)
        comp.add_track(track)
        tracks_info.append([(key, meter, expected)])
        tracks_meta.append((track.name, None))
    check_xml_composition(comp, comp.title, comp.author, tracks_meta, tracks_info, "systematic composition")


def observed():
    print("OBSERVED: value.determine(16.0) = %r" % (value.determine(16.0),))
    print("OBSERVED: type of the base in value.determine(4.0) = %s" % type(value.determine(4.0)[0]).__name__)
    print("OBSERVED: value.determine(True) = %r" % (value.determine(True),))
    print("OBSERVED: value module has a precomputed table = %r" % hasattr(value, "_known_values"))


if __name__ == "__main__":
    run_property_checks()
    observed()
    if FAILURES:
        for f in FAILURES[:20]:
            print("FAIL: %s" % f)
        print("FAIL (%d clause checks failed)" % len(FAILURES))
        sys.exit(1)
    print("PASS")
    sys.exit(0)
