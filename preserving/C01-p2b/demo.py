"""Demo for property C01 (note names and pitch classes agree for every spelling).

Part (i) checks every clause of the property from first principles and prints
PASS / FAIL; part (ii) prints OBSERVED: lines showing behaviour that the
property does not pin down.  Choose the tree with PYTHONPATH.
"""
from __future__ import print_function

import itertools
import sys

from mingus.core import notes
from mingus.core.mt_exceptions import NoteFormatError, RangeError, FormatError

NATURAL = {"C": 0, "D": 2, "E": 4, "F": 5, "G": 7, "A": 9, "B": 11}
MAXLEN = 7  # every '#'/'b' string up to this length, all orders

failures = []


def check(cond, msg):
    if not cond:
        failures.append(msg)


def well_formed(name):
    return (
        isinstance(name, str)
        and len(name) >= 1
        and name[0] in NATURAL
        and all(c in "#b" for c in name[1:])
    )


def pc(name):
    """Pitch class from first principles."""
    return (NATURAL[name[0]] + name.count("#") - name[1:].count("b")) % 12


def raises(exc, func, *args):
    try:
        func(*args)
    except exc:
        return True
    except Exception:
        return False
    return False


def all_names():
    for letter in "ABCDEFG":
        for k in range(MAXLEN + 1):
            for accs in itertools.product("#b", repeat=k):
                yield letter + "".join(accs)


def check_property():
    sample = []
    for name in all_names():
        net = name.count("#") - name[1:].count("b")
        want = (NATURAL[name[0]] + net) % 12
        # pitch class and validity
        check(notes.is_valid_note(name) is True or notes.is_valid_note(name) == True,
              "is_valid_note(%r) not true" % name)
        check(notes.note_to_int(name) == want, "note_to_int(%r)" % name)
        # augment / diminish: +1 / -1, same letter
        up = notes.augment(name)
        check(well_formed(up) and up[0] == name[0] and pc(up) == (want + 1) % 12,
              "augment(%r) -> %r" % (name, up))
        down = notes.diminish(name)
        check(well_formed(down) and down[0] == name[0] and pc(down) == (want - 1) % 12,
              "diminish(%r) -> %r" % (name, down))
        # redundancy removal: letter + exactly the net accidentals
        rr = notes.remove_redundant_accidentals(name)
        check(rr == name[0] + "#" * net + "b" * -net,
              "remove_redundant_accidentals(%r) -> %r" % (name, rr))
        # reduction: same pitch class, at most one accidental, of the right kind
        red = notes.reduce_accidentals(name)
        ok = well_formed(red) and pc(red) == want and len(red) <= 2
        if ok and net > 0:
            ok = red[1:] in ("", "#")
        if ok and net < 0:
            ok = red[1:] in ("", "b")
        check(ok, "reduce_accidentals(%r) -> %r" % (name, red))
        if len(name) <= 4:
            sample.append(name)
    # enharmonic exactly when the pitch classes are equal
    for n1 in sample:
        for n2 in sample:
            check(bool(notes.is_enharmonic(n1, n2)) == (pc(n1) == pc(n2)),
                  "is_enharmonic(%r, %r)" % (n1, n2))
    # number -> name -> number, both styles
    for i in range(12):
        s = notes.int_to_note(i, "#")
        f = notes.int_to_note(i, "b")
        check(well_formed(s) and s[1:] in ("", "#") and pc(s) == i
              and notes.note_to_int(s) == i, "int_to_note(%d, '#') -> %r" % (i, s))
        check(well_formed(f) and f[1:] in ("", "b") and pc(f) == i
              and notes.note_to_int(f) == i, "int_to_note(%d, 'b') -> %r" % (i, f))
    # malformed names
    bad = ["H", "c", "c#", "cb", "b", "#", "b#", "#C", "Cx", "C#x", "Cx#", "C b",
           " C", "C ", "C\n", "CC", "CB", "C#D", "C4", "C#4", "C-1", "Do", "do",
           "1", "0", "C♯", "E♭", "Cs", "Ces", "C##!", "Bbasd", "ollocks",
           "C#b#b#b#b?", "С"]
    for name in bad:
        check(not notes.is_valid_note(name), "is_valid_note(%r) true" % name)
        check(raises(NoteFormatError, notes.note_to_int, name),
              "note_to_int(%r) not rejected with NoteFormatError" % name)
        check(raises(NoteFormatError, notes.reduce_accidentals, name),
              "reduce_accidentals(%r) not rejected with NoteFormatError" % name)
    # integers outside 0-11 (with a known style), unknown styles (with a good int)
    for n in [-1, 12, 13, 24, -12, -123, 123123, 10 ** 12, -(10 ** 12)]:
        for style in ("#", "b"):
            check(raises(RangeError, notes.int_to_note, n, style),
                  "int_to_note(%d, %r) not rejected with RangeError" % (n, style))
        check(raises(RangeError, notes.int_to_note, n), "int_to_note(%d)" % n)
    for style in ["x", "", "##", "bb", "#b", "sharp", "flat", "B", "♯", " "]:
        for i in range(12):
            check(raises(FormatError, notes.int_to_note, i, style),
                  "int_to_note(%d, %r) not rejected with FormatError" % (i, style))


def show(label, func, *args):
    """Print what a call does: its result, or the exception it raises."""
    try:
        res = func(*args)
        print("OBSERVED: %s -> %r" % (label, res))
    except Exception as e:  # noqa
        print("OBSERVED: %s raises %s" % (label, type(e).__name__))

def describe(func, *args):
    try:
        return "returns %r" % (func(*args),)
    except Exception as e:  # noqa
        return "raises %s: %s" % (type(e).__name__, e)


def observed():
    # (1) wrong in two ways at once: which of the two (equally valid) errors?
    print("OBSERVED: int_to_note(12, 'x')", describe(notes.int_to_note, 12, "x"))
    print("OBSERVED: int_to_note(-1, '')", describe(notes.int_to_note, -1, ""))
    # (2) the texts of the messages
    print("OBSERVED: int_to_note(12)", describe(notes.int_to_note, 12))
    print("OBSERVED: int_to_note(3, 'x')", describe(notes.int_to_note, 3, "x"))
    print("OBSERVED: note_to_int('H#')", describe(notes.note_to_int, "H#"))
    print("OBSERVED: reduce_accidentals('C#x')", describe(notes.reduce_accidentals, "C#x"))
    # (3) the places of the errors in the class hierarchy
    for cls in (NoteFormatError, FormatError, RangeError):
        print("OBSERVED: %s.__mro__ -> %s"
              % (cls.__name__, [c.__name__ for c in cls.__mro__]))
    print("OBSERVED: issubclass(NoteFormatError, FormatError) -> %r"
          % issubclass(NoteFormatError, FormatError))
    print("OBSERVED: issubclass(RangeError, ValueError) -> %r"
          % issubclass(RangeError, ValueError))
    # (4) outside the quantifier (not an integer at all)
    print("OBSERVED: int_to_note('3')", describe(notes.int_to_note, "3"))


if __name__ == "__main__":
    check_property()
    observed()
    if failures:
        for f in failures[:20]:
            print("FAIL:", f)
        print("FAIL (%d checks failed)" % len(failures))
        sys.exit(1)
    print("PASS")
    sys.exit(0)
