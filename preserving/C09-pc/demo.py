from __future__ import print_function, division

import signal
import sys

import mingus.core.value as value
import mingus.core.meter as meter

FAILS = []


def check(cond, msg):
    if not cond:
        FAILS.append(msg)


def close(x, y, rel=1e-9):
    return abs(x - y) <= rel * max(abs(x), abs(y))


# A note value n stands for the duration 1/n (in whole notes).
BASES = [0.25, 0.5, 1, 2, 4, 8, 16, 32, 64, 128]  # longa ... 128th


def dotted_value(base, nr):
    # duration = 1/base * (1 + 1/2 + ... + 1/2**nr) = (2 - 2**-nr) / base
    return base / (2.0 - 0.5 ** nr)


def check_property():
    # Clause 1: analysis inverts construction (dots 0-4; triplet, quintuplet, septuplet)
    for b in BASES:
        for nr in range(0, 5):
            built = value.dots(b, nr)
            check(close(built, dotted_value(b, nr)), "dots(%r,%r) = %r" % (b, nr, built))
            check(value.determine(built) == (b, nr, 1, 1), "determine(dots(%r,%r)) = %r" % (b, nr, value.determine(built)))
        for (fn, r1, r2) in ((value.triplet, 3, 2), (value.quintuplet, 5, 4), (value.septuplet, 7, 4)):
            built = fn(b)
            # Clause 4: tuplet helpers equal the ratio formula: n notes in the time of m
            # -> each lasts m/n of the plain duration -> value is base * n / m
            check(close(built, b * r1 / float(r2)), "%s(%r) = %r" % (fn.__name__, b, built))
            check(close(value.tuplet(b, r1, r2), b * r1 / float(r2)), "tuplet(%r,%r,%r)" % (b, r1, r2))
            check(value.determine(built) == (b, 0, r1, r2), "determine(%s(%r)) = %r" % (fn.__name__, b, value.determine(built)))
        check(close(value.septuplet(b, False), b * 7 / 8.0), "septuplet(%r, False)" % b)
        check(close(value.tuplet(b, 9, 8), b * 9 / 8.0), "tuplet(%r, 9, 8)" % b)

    # Clause 2: within 1% of an undotted or single-dotted recognised value
    for b in BASES:
        recognised = [
            (b, (b, 0, 1, 1)),
            (b * 2 / 3.0, (b, 1, 1, 1)),
            (b * 1.5, (b, 0, 3, 2)),
            (b * 1.25, (b, 0, 5, 4)),
            (b * 1.75, (b, 0, 7, 4)),
        ]
        for (v, expected) in recognised:
            for f in (0.99, 0.9925, 0.995, 0.999, 1.0, 1.001, 1.005, 1.0075, 1.01):
                got = value.determine(v * f)
                check(got == expected, "determine(%r * %r) = %r, expected %r" % (v, f, got, expected))

    # Clause 3: add / subtract are inverse and are addition / subtraction of durations
    pool = list(BASES) + [dotted_value(b, 1) for b in BASES] + [b * 1.5 for b in BASES] + [3, 5, 7.5, 100]
    for x in pool:
        for y in pool:
            s = value.add(x, y)
            check(close(1.0 / s, 1.0 / x + 1.0 / y), "add(%r,%r) = %r" % (x, y, s))
            check(close(value.subtract(s, y), x), "subtract(add(%r,%r),%r)" % (x, y, y))
            if x != y:
                d = value.subtract(x, y)
                check(close(1.0 / d, 1.0 / x - 1.0 / y), "subtract(%r,%r) = %r" % (x, y, d))
                check(close(value.add(d, y), x), "add(subtract(%r,%r),%r)" % (x, y, y))

    # Clauses 5-8: meter predicates are total and mean what the statement says
    def power_of_two(u):
        # one of 1, 2, 4, 8, ...
        if u != u or u in (float("inf"), float("-inf")):
            return False
        if u < 1 or u != int(u):
            return False
        n = int(u)
        return n & (n - 1) == 0

    units = list(range(-9, 70)) + [128, 256, 1024, 2 ** 40, 2 ** 40 + 1, 2 ** 70, 3 * 2 ** 70, -2 ** 70]
    units += [0.0, -0.0, 0.5, 0.25, 0.75, 1.0, 1.5, 2.0, 2.5, 3.0, 4.0, 4.000001, 6.0, 8.0, 16.0, 1e3, 1024.0, -1.0, -2.0, -4.0, -0.5, 1e-9, 1e300, 2.0 ** 80, float("inf"), float("-inf"), float("nan")]
    counts = list(range(-7, 40)) + [99, 100, 101, 10 ** 20, 10 ** 20 + 1, 3 * 10 ** 20]
    for u in units:
        check(bool(meter.valid_beat_duration(u)) == power_of_two(u), "valid_beat_duration(%r) = %r" % (u, meter.valid_beat_duration(u)))
        for c in counts:
            valid = c > 0 and power_of_two(u)
            m = (c, u)
            check(bool(meter.is_valid(m)) == valid, "is_valid(%r) = %r" % (m, meter.is_valid(m)))
            check(bool(meter.is_compound(m)) == (valid and c % 3 == 0 and c >= 6), "is_compound(%r) = %r" % (m, meter.is_compound(m)))
            check(bool(meter.is_asymmetrical(m)) == (valid and c % 2 == 1), "is_asymmetrical(%r) = %r" % (m, meter.is_asymmetrical(m)))
            check(bool(meter.is_simple(m)) in (True, False), "is_simple(%r)" % (m,))


def show(label, thunk):
    try:
        result = repr(thunk())
    except Exception as e:  # the kind of failure is part of what is shown
        result = "raises %s: %s" % (type(e).__name__, e)
    print("OBSERVED: %s -> %s" % (label, result))


def observed():
    # Things that are not a pair of numbers at all
    show("is_valid('3/4')", lambda: meter.is_valid("3/4"))
    show("is_valid((3,))", lambda: meter.is_valid((3,)))
    show("is_valid(None)", lambda: meter.is_valid(None))
    show("is_valid((4, '4'))", lambda: meter.is_valid((4, "4")))
    show("is_compound(('6', 8))", lambda: meter.is_compound(("6", 8)))
    show("is_asymmetrical(())", lambda: meter.is_asymmetrical(()))
    show("valid_beat_duration('8')", lambda: meter.valid_beat_duration("8"))
    show("valid_beat_duration(None)", lambda: meter.valid_beat_duration(None))

def main():
    if hasattr(signal, "alarm"):
        signal.alarm(120)  # a predicate that does not terminate makes the demo die
    try:
        check_property()
    except Exception as e:  # a clause that crashes does not hold
        FAILS.append("property check raised %s: %s" % (type(e).__name__, e))
    observed()
    if FAILS:
        for f in FAILS[:20]:
            print("FAIL: " + f)
        print("FAIL (%d checks)" % len(FAILS))
        return 1
    print("PASS")
    return 0


if __name__ == "__main__":
    sys.exit(main())
