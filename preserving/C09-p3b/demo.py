"""Demo for change C09/b: a meter needs a whole number of beats.

(i) checks the clauses of property C09 from first principles, prints PASS and
    exits 0 when they all hold (1 otherwise);
(ii) prints OBSERVED: lines showing what the change alters.
"""
from __future__ import division, print_function

import signal
import sys

from mingus.core import meter, value

failures = []


def check(cond, msg):
    if not cond:
        failures.append(msg)


def close(a, b, rel=1e-9):
    return abs(a - b) <= rel * max(abs(a), abs(b))


# A note value n stands for the duration 1/n of a whole note.
BASES = [0.25, 0.5, 1, 2, 4, 8, 16, 32, 64, 128]  # longa ... 128th
RATIOS = [(3, 2), (5, 4), (7, 4)]
PERTURB = [0.9905, 0.993, 0.997, 0.9999, 1.0, 1.0001, 1.003, 1.007, 1.0095]

# --- construction / analysis ---------------------------------------------
for b in BASES:
    for n in range(5):
        # duration of a note with n dots: (1/b) * (2 - 2**-n)
        expected = 1.0 / ((1.0 / b) * (2 - 0.5 ** n))
        built = value.dots(b, n)
        check(close(built, expected), "dots(%r, %d) = %r, expected %r" % (b, n, built, expected))
        got = tuple(value.determine(built))
        check(got == (b, n, 1, 1), "determine(dots(%r, %d)) = %r" % (b, n, got))
    for helper, (r1, r2) in zip((value.triplet, value.quintuplet, value.septuplet), RATIOS):
        built = helper(b)
        # r1 notes in the time of r2: duration (1/b) * r2 / r1
        check(close(built, b * r1 / r2), "%s(%r) = %r" % (helper.__name__, b, built))
        check(built == value.tuplet(b, r1, r2), "%s(%r) != tuplet(%r, %d, %d)" % (helper.__name__, b, b, r1, r2))
        got = tuple(value.determine(built))
        check(got == (b, 0, r1, r2), "determine(%s(%r)) = %r" % (helper.__name__, b, got))

# --- within 1% of an undotted or single dotted recognised value -----------
for b in BASES:
    recognised = [(b, (b, 0, 1, 1)), (b * 2.0 / 3.0, (b, 1, 1, 1))]
    for r1, r2 in RATIOS:
        recognised.append((b * r1 / r2, (b, 0, r1, r2)))
    for exact, parts in recognised:
        for p in PERTURB:
            got = tuple(value.determine(exact * p))
            check(got == parts, "determine(%r * %r) = %r, expected %r" % (exact, p, got, parts))

# --- add / subtract -------------------------------------------------------
SAMPLE = BASES + [value.dots(4), value.dots(8, 2), value.triplet(8), value.quintuplet(16), value.septuplet(2), 4.0, 3]
for a in SAMPLE:
    for b in SAMPLE:
        s = value.add(a, b)
        check(close(1.0 / s, 1.0 / a + 1.0 / b), "add(%r, %r) = %r" % (a, b, s))
        check(close(value.subtract(s, b), a), "subtract(add(%r, %r), %r) != %r" % (a, b, b, a))
        if a != b:
            d = value.subtract(a, b)
            check(close(1.0 / d, 1.0 / a - 1.0 / b), "subtract(%r, %r) = %r" % (a, b, d))
            check(close(value.add(d, b), a), "add(subtract(%r, %r), %r) != %r" % (a, b, b, a))

# --- meters ---------------------------------------------------------------
POWERS = set(2 ** k for k in range(0, 80))
UNITS = (
    list(range(-9, 70))
    + [128, 256, 1024, 2 ** 40, 2 ** 40 + 1, 3 * 2 ** 20, 10 ** 30, -(2 ** 10)]
    + [1.0, 2.0, 4.0, 8.0, 64.0, 0.0, -0.0, 0.5, 0.25, 1.5, 2.5, 3.0, 6.0, 7.999, 8.001, -2.0, -4.0, 1e300, 2.0 ** 70, float("inf"), float("-inf"), float("nan")]
)
COUNTS = list(range(-7, 40)) + [99, 100, 101, 2 ** 33, 3 * 2 ** 33, 3 * 2 ** 33 + 3]


def timeout(signum, frame):
    print("FAIL: a meter predicate did not terminate")
    sys.exit(1)


signal.signal(signal.SIGALRM, timeout)
signal.alarm(60)
for u in UNITS:
    unit_ok = u in POWERS  # 4.0 == 4, so integral floats count as well
    check(bool(meter.valid_beat_duration(u)) == unit_ok, "valid_beat_duration(%r)" % (u,))
    for c in COUNTS:
        m = (c, u)
        valid = c > 0 and unit_ok
        check(bool(meter.is_valid(m)) == valid, "is_valid(%r)" % (m,))
        check(bool(meter.is_compound(m)) == (valid and c % 3 == 0 and c >= 6), "is_compound(%r)" % (m,))
        check(bool(meter.is_asymmetrical(m)) == (valid and c % 2 == 1), "is_asymmetrical(%r)" % (m,))
        meter.is_simple(m)  # only has to terminate
signal.alarm(0)

# --- what the change alters -------------------------------------------------
# counts that are not whole numbers (the property only talks about integer counts)
for m in [(2.5, 4), (4.5, 8), (0.5, 2), (float("inf"), 4), (3.0, 4), (6.0, 8)]:
    print("OBSERVED: meter %r: is_valid=%r is_simple=%r is_compound=%r is_asymmetrical=%r" % (
        m, meter.is_valid(m), meter.is_simple(m), meter.is_compound(m), meter.is_asymmetrical(m)))

if failures:
    for f in failures[:20]:
        print("FAIL:", f)
    print("FAIL (%d failures)" % len(failures))
    sys.exit(1)
print("PASS")
sys.exit(0)
