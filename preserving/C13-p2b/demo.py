# Standalone demo for property C13 (Bar time accounting is exact under any
# placement history).  Part (i): direct check of the clauses against an exact
# rational model written from first principles.  Part (ii): OBSERVED lines.
from __future__ import print_function

import copy
import itertools
import random
import sys
from fractions import Fraction as F

from mingus.containers.bar import Bar
from mingus.containers.note import Note
from mingus.containers.note_container import NoteContainer

TOL = 1e-9
FAILS = []


def check(cond, msg):
    if not cond:
        if len(FAILS) < 20:
            FAILS.append(msg)
    return cond


# ---- value vocabulary, from arithmetic: (value passed to mingus, exact length)
VOCAB = []
for k in range(0, 8):
    v = 2 ** k
    VOCAB.append((v, F(1, v)))                      # base value
    VOCAB.append((v * 2 / 3.0, F(3, 2 * v)))         # dotted: 1.5 x length
    VOCAB.append((v * 4 / 7.0, F(7, 4 * v)))         # double dotted: 1.75 x length
    VOCAB.append((v * 3 / 2.0, F(2, 3 * v)))         # triplet: 3 in the time of 2
    VOCAB.append((v * 5 / 4.0, F(4, 5 * v)))         # quintuplet: 5 in the time of 4
    VOCAB.append((v * 7 / 4.0, F(4, 7 * v)))         # septuplet: 7 in the time of 4

METERS = [(4, 4), (3, 4), (6, 8), (2, 2), (5, 8), (7, 16), (1, 1), (0, 0)]

CONTENTS = [
    ("C", [("C", 4)]),
    (Note("E", 5), [("E", 5)]),
    (["C", "E", "G"], [("C", 4), ("E", 4), ("G", 4)]),
    ([Note("A", 3), Note("C", 4)], [("A", 3), ("C", 4)]),
    (NoteContainer(["D", "F#"]), [("D", 4), ("F#", 4)]),
    (None, None),
]


def content_of(x):
    if x is None:
        return None
    if not isinstance(x, NoteContainer):
        return "not-a-container:%r" % (x,)
    return [(n.name, n.octave) for n in x.notes]


def snapshot(b):
    return (
        [(e[0], e[1], content_of(e[2])) for e in b.bar],
        b.current_beat,
        b.length,
        tuple(b.meter),
    )


class Model(object):
    """Exact rational model of a bar."""

    def __init__(self, meter):
        self.meter = meter
        self.length = F(0) if meter == (0, 0) else F(meter[0], meter[1])
        self.entries = []  # (value, exact length, content)

    def total(self):
        return sum((e[1] for e in self.entries), F(0))

    def place(self, value, length, content):
        if self.meter == (0, 0) or self.total() + length <= self.length:
            self.entries.append((value, length, content))
            return True
        return False

    def remove_last(self):
        self.entries.pop()


def compare(b, m, where):
    ok = check(len(b) == len(m.entries) == len(b.bar), "%s: %d entries, expected %d" % (where, len(b.bar), len(m.entries)))
    if not ok:
        return
    start = F(0)
    for e, (value, length, content) in zip(b.bar, m.entries):
        check(abs(e[0] - float(start)) < TOL, "%s: start beat %r, expected %s" % (where, e[0], start))
        check(e[1] == value, "%s: value %r, expected %r" % (where, e[1], value))
        check(content_of(e[2]) == content, "%s: content %r, expected %r" % (where, content_of(e[2]), content))
        start += length
    total = m.total()
    check(abs(b.current_beat - float(total)) < TOL, "%s: current beat %r, expected %s" % (where, b.current_beat, total))
    check(abs(b.current_beat + b.space_left() - float(m.length)) < TOL, "%s: beat + space left != length" % where)
    check(abs(b.length - float(m.length)) < TOL, "%s: length %r" % (where, b.length))
    remaining = m.length - total
    if abs(abs(remaining) - F(1, 1000)) > F(1, 10 ** 6):
        expect_full = bool(m.entries) and abs(remaining) < F(1, 1000)
        check(bool(b.is_full()) == expect_full, "%s: is_full %r, expected %r (remaining %s)" % (where, b.is_full(), expect_full, remaining))


def apply_op(b, m, op, where):
    kind = op[0]
    if kind == "remove":
        if not m.entries:
            return
        b.remove_last_entry()
        m.remove_last()
    else:
        before = snapshot(b)
        if kind == "place":
            _, (value, length), (content, expected) = op
            # a fresh copy so that histories do not share note objects
            res = b.place_notes(copy.deepcopy(content), value)
        elif kind == "rest":
            _, (value, length) = op
            expected = None
            res = b.place_rest(value)
        else:  # '+'
            _, (content, expected) = op
            unit = m.meter[1] if m.meter[1] != 0 else 4
            value, length = unit, F(1, unit)
            res = b + copy.deepcopy(content)
        accepted = m.place(value, length, expected)
        check(bool(res) == accepted, "%s: placement %r answered %r, model says %r" % (where, op[:2], res, accepted))
        if not accepted:
            check(snapshot(b) == before, "%s: a refused placement changed the bar" % where)
    compare(b, m, where)


def run_history(meter, ops, where):
    b = Bar("C", meter)
    m = Model(meter)
    compare(b, m, where + " (empty)")
    for i, op in enumerate(ops):
        apply_op(b, m, op, "%s step %d" % (where, i))
    return b, m


def check_histories():
    # exhaustive, depth 3, over a reduced alphabet (one of each flavour)
    small_vocab = [VOCAB[i] for i in (0, 6, 12, 13, 15, 16, 17, 20, 27, 40)]
    alphabet = [("place", v, CONTENTS[i % len(CONTENTS)]) for i, v in enumerate(small_vocab)]
    alphabet += [("rest", v) for v in small_vocab[:4]]
    alphabet += [("+", CONTENTS[2]), ("+", CONTENTS[5]), ("remove",)]
    for meter in METERS:
        for depth in (1, 2, 3):
            for ops in itertools.product(alphabet, repeat=depth):
                run_history(meter, ops, "meter %r exhaustive" % (meter,))
    # fill to capacity with every single value of the vocabulary
    for meter in METERS:
        for v in VOCAB:
            n = 40 if meter == (0, 0) else int(F(meter[0], meter[1]) / v[1]) + 2
            run_history(meter, [("place", v, CONTENTS[0])] * n, "meter %r fill with %r" % (meter, v[0]))
    # long random histories
    rng = random.Random(13)
    for meter in METERS:
        for rep in range(25):
            ops = []
            for _ in range(120):
                r = rng.random()
                if r < 0.5:
                    ops.append(("place", rng.choice(VOCAB), rng.choice(CONTENTS)))
                elif r < 0.65:
                    ops.append(("rest", rng.choice(VOCAB)))
                elif r < 0.8:
                    ops.append(("+", rng.choice(CONTENTS)))
                else:
                    ops.append(("remove",))
            run_history(meter, ops, "meter %r random %d" % (meter, rep))


def check_content_changes():
    for meter in METERS:
        ops = [("place", VOCAB[12], CONTENTS[0]), ("rest", VOCAB[18]), ("place", VOCAB[15], CONTENTS[2]), ("place", VOCAB[18], CONTENTS[4])]
        # __setitem__: only that entry's content changes
        for new, expected in CONTENTS:
            for idx in range(4):
                b, m = run_history(meter, ops, "setitem")
                if len(b) != 4:
                    continue
                b[idx] = copy.deepcopy(new)
                value, length, _ = m.entries[idx]
                m.entries[idx] = (value, length, expected)
                compare(b, m, "meter %r after b[%d] = %r" % (meter, idx, new))
        # place_notes_at: only the sounding entry starting at that beat changes
        for idx in (0, 2, 3):
            b, m = run_history(meter, ops, "place_notes_at")
            if len(b) != 4:
                continue
            at = b[idx][0]
            b.place_notes_at(Note("B", 6), at)
            value, length, content = m.entries[idx]
            m.entries[idx] = (value, length, content + [("B", 6)])
            compare(b, m, "meter %r after place_notes_at(B-6, %r)" % (meter, at))
        # a beat at which nothing starts: nothing changes
        b, m = run_history(meter, ops, "place_notes_at")
        b.place_notes_at(Note("B", 6), 0.0123)
        compare(b, m, "meter %r after place_notes_at at an unused beat" % (meter,))


def check_set_meter():
    powers = set(2 ** k for k in range(0, 12))
    for unit in range(1, 300):
        for count in (1, 3, 4, 7, 12):
            b = Bar()
            try:
                b.set_meter((count, unit))
                accepted = True
            except Exception:
                accepted = False
            check(accepted == (unit in powers), "set_meter((%d, %d)) accepted=%r" % (count, unit, accepted))
            if accepted and unit in powers:
                check(tuple(b.meter) == (count, unit), "meter after set_meter((%d, %d)): %r" % (count, unit, b.meter))
                check(abs(b.length - float(F(count, unit))) < TOL, "length after set_meter((%d, %d)): %r" % (count, unit, b.length))
    for unit in (1024, 2 ** 20):
        b = Bar()
        b.set_meter((3, unit))
        check(abs(b.length - 3.0 / unit) < 1e-15, "length for unit %d" % unit)
    for bad in ((4, 0), (4, -4), (4, 2 ** 20 + 1), (4, 6), (3, 12)):
        b = Bar()
        try:
            b.set_meter(bad)
            check(False, "set_meter(%r) was accepted" % (bad,))
        except Exception:
            pass
    b = Bar()
    b.set_meter((0, 0))
    check(tuple(b.meter) == (0, 0) and b.length == 0, "set_meter((0, 0))")


def run_property_checks():
    check_histories()
    check_content_changes()
    check_set_meter()
    return not FAILS


def observed(label, thunk):
    try:
        res = thunk()
        print("OBSERVED: %s -> %r" % (label, res))
    except Exception as e:  # noqa
        print("OBSERVED: %s -> raised %s: %s" % (label, type(e).__name__, e))


def finish():
    if FAILS:
        for f in FAILS:
            print("FAIL:", f)
        print("FAILED")
        sys.exit(1)
    print("PASS")
    sys.exit(0)


if __name__ == "__main__":
    run_property_checks()

    def negative():
        b = Bar("C", (4, 4))
        b.place_notes("C", 2)
        res = b.place_notes("E", -4)
        return "answered %r; %d entries, current beat %r" % (res, len(b), b.current_beat)

    observed("place_notes('C', 0) in an empty 4/4 bar", lambda: Bar().place_notes("C", 0))
    observed("place_rest(0) in an empty 4/4 bar", lambda: Bar().place_rest(0))
    observed("place_notes('C', 2) then place_notes('E', -4)", negative)
    finish()
