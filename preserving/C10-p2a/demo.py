from __future__ import print_function

import copy
import itertools
import sys

from mingus.containers.note import Note

# ---------------------------------------------------------------------------
# (i) Property C10 checked from first principles
# ---------------------------------------------------------------------------
NATURAL = {"C": 0, "D": 2, "E": 4, "F": 5, "G": 7, "A": 9, "B": 11}
ACCIDENTALS = ["", "#", "##", "b", "bb"]
NAMES = [letter + acc for letter in "CDEFGAB" for acc in ACCIDENTALS]
OCTAVES = list(range(10))
STANDARD_PITCHES = [415, 432, 440, 442.5, 466.16]

failures = []


def check(cond, what):
    if not cond:
        failures.append(what)


def pitch(name, octave):
    return 12 * octave + NATURAL[name[0]] + name.count("#") - name.count("b")


def rejected(func, *args, **kwargs):
    try:
        func(*args, **kwargs)
    except Exception:
        return True
    return False


def close(a, b, rel=1e-9):
    return abs(a - b) <= rel * max(abs(a), abs(b))


# clause 1: integer value for every name and octave
for name in NAMES:
    for octave in OCTAVES:
        check(int(Note(name, octave)) == pitch(name, octave), "int %s %d" % (name, octave))

# clause 2: integer / 'Name-octave' text / printed form / another note
for i in range(128):
    check(int(Note(i)) == i, "Note(%d)" % i)
    check(int(Note().from_int(i)) == i, "from_int(%d)" % i)
    check(int(Note(Note(i))) == i, "Note(Note(%d))" % i)
for name in NAMES:
    for octave in OCTAVES:
        want = pitch(name, octave)
        n = Note("%s-%d" % (name, octave))
        check(int(n) == want, "text %s-%d" % (name, octave))
        check((n.name, n.octave) == (name, octave), "text name/octave %s-%d" % (name, octave))
        printed = str(Note(name, octave)).strip("'\"")
        check(int(Note(printed)) == want, "printed %s" % printed)
        check(int(Note().set_note(printed)) == want, "set_note printed %s" % printed)
        check(int(Note(Note(name, octave))) == want, "copy %s %d" % (name, octave))

# clause 3: the six comparison operators agree with the integers
sample = [(nm, o) for nm in NAMES for o in (3, 4, 5)] + [("C", 0), ("B##", 9), ("Cbb", 0)]
objs = [(Note(nm, o), pitch(nm, o)) for nm, o in sample]
for (a, pa), (b, pb) in itertools.product(objs, repeat=2):
    ok = (
        (a < b) == (pa < pb)
        and (a <= b) == (pa <= pb)
        and (a == b) == (pa == pb)
        and (a != b) == (pa != pb)
        and (a > b) == (pa > pb)
        and (a >= b) == (pa >= pb)
    )
    check(ok, "compare %r %r" % (a, b))
check(Note("B#", 3) == Note("C", 4) and Note("Dbb", 4) == Note("C", 4), "enharmonic equality")
shuffled = [Note(nm, o) for nm, o in reversed(sample)]
check(
    [int(n) for n in sorted(shuffled)] == sorted(pitch(nm, o) for nm, o in sample),
    "sorting by pitch",
)

# clause 4: Hz - doubling per octave, A-4 at the standard pitch, round trip
for sp in STANDARD_PITCHES:
    check(close(Note("A", 4).to_hertz(sp), sp), "A-4 at %r" % sp)
    for i in range(128):
        hz = Note(i).to_hertz(sp)
        check(close(hz, sp * 2.0 ** ((i - 57) / 12.0)), "to_hertz %d at %r" % (i, sp))
        if i + 12 < 128:
            check(close(Note(i + 12).to_hertz(sp), 2 * hz), "octave doubling %d at %r" % (i, sp))
        for cents in (-40, -17, 0, 23, 40):
            back = Note().from_hertz(hz * 2.0 ** (cents / 1200.0), sp)
            check(int(back) == i, "hz round trip %d %+d cents at %r" % (i, cents, sp))
check(close(Note("A", 4).to_hertz(), 440.0), "A-4 default 440")
check(int(Note().from_hertz(440)) == 57, "from_hertz(440)")

# clause 5: Helmholtz shorthand reads back as the same name and octave
for name in NAMES:
    for octave in OCTAVES:
        back = Note().from_shorthand(Note(name, octave).to_shorthand())
        check((back.name, back.octave) == (name, octave), "helmholtz %s %d" % (name, octave))
for text, (nm, o) in {"C,,": ("C", 0), "C": ("C", 2), "c": ("C", 3), "c'": ("C", 4),
                      "bb''": ("Bb", 5), "F#,": ("F#", 1)}.items():
    back = Note().from_shorthand(text)
    check((back.name, back.octave) == (nm, o), "helmholtz text %s" % text)

# clause 6: rejections
for v in (-100, -2, -1, 128, 129, 200, 1000):
    check(rejected(Note().set_velocity, v), "set_velocity(%d) accepted" % v)
    check(rejected(Note, "C", 4, velocity=v), "Note(velocity=%d) accepted" % v)
    check(rejected(Note, "C", 4, {"velocity": v}), "Note(dynamics velocity=%d) accepted" % v)
for v in (0, 1, 64, 126, 127):
    n = Note("C", 4, velocity=v)
    check(n.velocity == v, "velocity %d" % v)
    n = Note()
    n.set_velocity(v)
    check(n.velocity == v, "set_velocity %d" % v)
for c in (-100, -2, -1, 16, 17, 100):
    check(rejected(Note().set_channel, c), "set_channel(%d) accepted" % c)
    check(rejected(Note, "C", 4, channel=c), "Note(channel=%d) accepted" % c)
    check(rejected(Note, "C", 4, {"channel": c}), "Note(dynamics channel=%d) accepted" % c)
for c in (0, 1, 9, 14, 15):
    n = Note("C", 4, channel=c)
    check(n.channel == c, "channel %d" % c)
    n = Note()
    n.set_channel(c)
    check(n.channel == c, "set_channel %d" % c)
for bad in ("H", "", "Cx", "C#x", "#C", "C 23", "C-4-5", "X-4", "-4", "C# 123"):
    check(rejected(Note, bad), "Note(%r) accepted" % bad)
    check(rejected(Note().set_note, bad), "set_note(%r) accepted" % bad)

# clause 7: copying yields an independent object
orig = Note("Eb", 3, velocity=100, channel=5)
for dup in (Note(orig), copy.copy(orig), copy.deepcopy(orig)):
    check(dup is not orig, "copy is the same object")
    check((dup.name, dup.octave, dup.velocity, dup.channel) == ("Eb", 3, 100, 5), "copy content")
    dup.set_note("G#", 7)
    dup.set_velocity(1)
    dup.set_channel(2)
    dup.dynamics["velocity"] = 77
    check(
        (orig.name, orig.octave, orig.velocity, orig.channel) == ("Eb", 3, 100, 5),
        "original changed through the copy",
    )

# ---------------------------------------------------------------------------
# (ii) What the change alters (nothing the property states)
# ---------------------------------------------------------------------------
def show(label, func):
    try:
        print("OBSERVED: %s -> %r" % (label, func()))
    except Exception as exc:  # pylint: disable=broad-except
        print("OBSERVED: %s -> %s: %s" % (label, type(exc).__name__, exc))


# a frequency lying (in floating point) exactly half-way between F-1 and F#-1:
# 50 cents off either of them, i.e. beyond the 40 cents the property talks about
show("from_hertz(44.93267496413023)  [quarter-tone tie F-1 / F#-1]",
     lambda: Note().from_hertz(44.93267496413023))
# far below C-0 (not a note 0-127)
show("from_hertz(0.01)", lambda: Note().from_hertz(0.01))
# not a frequency at all
show("from_hertz(0)", lambda: Note().from_hertz(0))
show("from_hertz(-440)", lambda: Note().from_hertz(-440))

if failures:
    print("FAIL (%d)" % len(failures))
    for f in failures[:20]:
        print("  ", f)
    sys.exit(1)
print("PASS")
sys.exit(0)
